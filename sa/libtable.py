"""Library-semantics table (trusted base).  Facts about numpy 2.5 / pandas 3.0 /
scipy 1.18 / scikit-learn 1.9 that the provenance, row-order and polarity
rules rely on.  A callee that is applied to a sensitive value and has no
entry stops the analysis (exit 2, "extend the table")."""

VERSIONS = "numpy 2.5.3, pandas 3.0.5, scipy 1.18.1, scikit-learn 1.9.1"

# ---- provenance facet -----------------------------------------------------
# functions whose result never shares memory with an argument
FRESH_CALLS = {
    "copy.copy", "copy.deepcopy", "numpy.array", "numpy.copy", "numpy.concatenate", "numpy.vstack", "numpy.hstack",
    "numpy.unique", "numpy.where", "numpy.zeros", "numpy.ones", "numpy.identity", "numpy.empty_like", "numpy.repeat",
    "numpy.histogram", "numpy.percentile", "numpy.quantile", "numpy.mean", "numpy.std", "numpy.sum", "numpy.min",
    "numpy.max", "numpy.ptp", "numpy.dot", "numpy.matmul", "numpy.minimum", "numpy.maximum", "numpy.exp", "numpy.log",
    "numpy.floor", "numpy.power", "numpy.add", "numpy.lcm.reduce", "numpy.random.choice", "numpy.random.permutation",
    "numpy.random.binomial", "numpy.random.dirichlet", "numpy.bincount", "numpy.sort", "numpy.argsort", "numpy.clip",
    "numpy.shape", "numpy.ndim", "numpy.isnan", "numpy.abs",
    "pandas.concat", "pandas.DataFrame", "pandas.DataFrame.from_dict", "pandas.Series",
    "abs", "sqrt", "log", "exp", "floor", "ceil", "len", "int", "float", "bool", "str", "round", "sum", "max", "min", "any",
    "all", "sorted", "range", "enumerate", "zip", "isinstance", "hasattr", "id", "type", "print", "dict", "set",
    "scipy.stats.entropy", "scipy.stats.norm.fit", "scipy.stats.norm.ppf", "scipy.stats.norm.cdf", "scipy.stats.t.ppf",
    "scipy.spatial.distance.jensenshannon", "sklearn.metrics.accuracy_score", "sklearn.base.clone",
    "sklearn.neighbors.NearestNeighbors", "sklearn.decomposition.PCA", "sklearn.preprocessing.StandardScaler",
    "sklearn.neighbors.KernelDensity", "sklearn.model_selection.KFold", "joblib.Parallel", "collections.defaultdict",
    "<dynamic>",  # user callables (selectors, margin functions, divergences): see per-rule handling
}
# numpy.array(x, copy=False) and friends may return the argument itself / a view
ALIAS_CALLS = {
    "numpy.asarray", "numpy.asanyarray", "numpy.ascontiguousarray", "numpy.array_split", "numpy.split", "numpy.reshape",
    "numpy.ravel", "numpy.squeeze", "numpy.atleast_1d", "numpy.atleast_2d", "numpy.transpose", "numpy.expand_dims",
    "list", "tuple",  # shallow containers of the argument's elements (row views for arrays)
    "iter", "reversed",
}
FRESH_METHODS = {
    "copy", "astype", "sample", "drop", "reset_index", "merge", "fillna", "sort_values", "toarray", "tolist", "sum",
    "mean", "std", "min", "max", "ptp", "unique", "nunique", "flatten", "apply", "groupby", "items", "keys", "values_",
    "get_loc", "equals", "predict", "score_samples", "transform", "fit_transform", "inverse_transform",
    "kneighbors_graph", "split", "index", "count", "round", "any", "all", "clip", "rename", "join", "format", "lower",
    "get", "dot", "cumsum", "argmax", "argmin", "isin", "to_dict", "to_list", "describe", "head_", "append", "extend",
    "update", "pop", "fit", "leaf_counts", "kl_distance", "build", "fill", "reset", "set_reference",
}
ALIAS_METHODS = {"reshape", "ravel", "view", "squeeze", "transpose", "to_numpy", "swapaxes", "head", "tail", "values", "__getitem__"}
ALIAS_ATTRS = {"values", "T", "iloc", "loc", "at", "iat", "flat", "real", "base"}
IMMUTABLE_ATTRS = {"columns", "shape", "size", "dtype", "index", "ndim", "name", "coef_", "intercept_", "components_"}

# ---- row-order facet (C18) ------------------------------------------------
INVARIANT_REDUCERS = {
    "len", "numpy.histogram", "numpy.min", "numpy.max", "numpy.ptp", "numpy.sum", "numpy.mean", "numpy.std",
    "numpy.unique", "numpy.shape", "sum", "max", "min", "set", "sorted", "numpy.sort", "numpy.bincount", "numpy.percentile",
    "numpy.quantile", "any", "all", "isinstance", "numpy.ndim",
}
INVARIANT_METHODS = {"min", "max", "sum", "mean", "std", "ptp", "unique", "nunique", "any", "all", "count", "equals", "get_loc"}
INVARIANT_ATTRS = {"shape", "size", "columns", "dtype", "ndim"}
EQUIVARIANT_CALLS = {
    "numpy.array", "numpy.copy", "copy.copy", "copy.deepcopy", "pandas.DataFrame", "numpy.vstack", "numpy.concatenate",
    "pandas.concat", "numpy.asarray", "numpy.sqrt", "sqrt", "abs", "numpy.exp", "numpy.log", "numpy.where", "numpy.zeros",
}
EQUIVARIANT_METHODS = {"copy", "astype", "reshape", "to_numpy", "toarray", "values"}
POSITIONAL_CALLS = {"numpy.array_split", "numpy.split", "numpy.random.choice", "numpy.random.permutation", "numpy.random.shuffle", "enumerate"}
POSITIONAL_METHODS = {"sample", "head", "tail", "iterrows", "take"}

# ---- RNG facet (C17) --------------------------------------------------------
RNG_CALLS = {"numpy.random.binomial", "numpy.random.choice", "numpy.random.dirichlet", "numpy.random.permutation", "numpy.random.seed"}
RNG_METHODS = {"sample"}

# ---- monotonicity facet (C17) ---------------------------------------------
# function -> list of (argument position or keyword, direction) in which the result is non-decreasing (+1) / non-increasing (-1)
MONOTONE = {
    "sqrt": [(0, +1)], "log": [(0, +1)], "exp": [(0, +1)], "floor": [(0, +1)], "round": [(0, +1)], "int": [(0, +1)],
    "numpy.quantile": [(1, +1), ("q", +1)], "numpy.percentile": [(1, +1), ("q", +1)],
    "scipy.stats.norm.ppf": [(0, +1), (1, +1)],  # in q and in loc; in scale only with the sign of the standard quantile
    "scipy.stats.t.ppf": [(0, +1)],
    "scipy.stats.norm.cdf": [(0, +1)],
    "max": "all+", "min": "all+", "sum": "all+", "any": "all+",
}
