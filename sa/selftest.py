"""Self-test of the checkers (thorough tier): seeded variants of the current
source, built in memory (loader overlay, nothing written to disk), must make
the named rule fire; benign variants must leave the check silent.

A variant whose anchor text is no longer present in the tree is *skipped*
(counted, reported) - it says nothing about the tree.  A seeded variant that
applies and is not caught, or a benign variant that raises a new finding,
fails the run as analysis-broken (exit 2): the checker, not the repository,
is at fault."""
import concurrent.futures as cf
import os

from .loader import Program, AnalysisError, REPO
from . import mutants as M


def apply(m):
    path = os.path.join(REPO, m["file"])
    try:
        src = open(path, encoding="utf-8").read()
    except OSError:
        return None
    edits = m["edits"] if "edits" in m else [(m["old"], m["new"])]
    for old, new in edits:
        n = src.count(old)
        if n == 0:
            return None
        if n > 1 and not m.get("all"):
            k = m.get("nth", 0)
            idx = -1
            for _ in range(k + 1):
                idx = src.find(old, idx + 1)
            if idx < 0:
                return None
            src = src[:idx] + new + src[idx + len(old):]
        else:
            src = src.replace(old, new)
    try:
        compile(src, m["file"], "exec")
    except SyntaxError as e:
        return ("syntax", str(e))
    return {m["file"]: src}


def _run_one(args):
    pid, m = args
    from .check import run_check
    if m.get("global"):
        from . import gbenign
        try:
            ov = gbenign.overlay(m["global"])
        except SyntaxError as e:
            ov = ("syntax", str(e))
    else:
        ov = apply(m)
    if ov is None:
        return (m["id"], "skipped", [])
    if isinstance(ov, tuple):
        return (m["id"], "broken-variant", [ov[1]])
    try:
        prog = Program(overlay=ov)
        ctx, err = run_check(pid, "quick", prog)
    except AnalysisError as e:
        return (m["id"], "analysis-error", [str(e)])
    keys = [(f.rule, f.site, f.construct) for f in ctx.findings]
    if err:
        return (m["id"], "ran+error", keys + [("ANALYSIS-ERROR", err[:300], "")])
    return (m["id"], "ran", keys)


def run(ctx, jobs=None):
    pid = ctx.pid
    seeded = [m for m in M.SEEDED if m["pid"] == pid]
    benign = [m for m in M.BENIGN if pid in m["pids"]]
    from . import gbenign
    benign = benign + [{"id": "benign:whole-repo:" + g, "global": g, "pids": [pid]} for g in gbenign.TRANSFORMS]
    base = {(f.rule, f.site, f.construct) for f in ctx.findings}
    jobs = jobs or min(16, (os.cpu_count() or 4))
    work = [(pid, m) for m in seeded + benign]
    res = {}
    if work:
        from .check import guard_resources
        with cf.ProcessPoolExecutor(max_workers=jobs, initializer=guard_resources, initargs=(3,)) as ex:
            for mid, status, keys in ex.map(_run_one, work, chunksize=1):
                res[mid] = (status, keys)
    caught = skipped = 0
    missed = []
    details = []
    for m in seeded:
        status, keys = res[m["id"]]
        if status == "skipped":
            skipped += 1
            details.append({"variant": m["id"], "result": "skipped (anchor text not in tree)"})
            continue
        if status == "analysis-error" and "ANALYSIS-ERROR" in ([m.get("expect")] if isinstance(m.get("expect"), str) else (m.get("expect") or [])):
            caught += 1
            details.append({"variant": m["id"], "result": "analysis stops (exit 2) as expected"})
            continue
        if status == "ran+error":
            errs = [k for k in keys if k[0] == "ANALYSIS-ERROR"]
            keys = [k for k in keys if k[0] != "ANALYSIS-ERROR"]
            if not [k for k in keys if k not in base]:
                exp_ = m.get("expect")
                if "ANALYSIS-ERROR" in ([exp_] if isinstance(exp_, str) else (exp_ or [])):
                    caught += 1
                    details.append({"variant": m["id"], "result": "analysis stops (exit 2) as expected"})
                else:
                    missed.append((m["id"], "analysis-error: " + errs[0][1][:200]))
                continue
            status = "ran"
        if status != "ran":
            missed.append((m["id"], status + ": " + "; ".join(map(str, keys))[:200]))
            continue
        new = [k for k in keys if k not in base]
        exp = m.get("expect")
        hit = [k for k in new if exp is None or any(e in k[0] for e in ([exp] if isinstance(exp, str) else exp))]
        if hit:
            caught += 1
            details.append({"variant": m["id"], "result": "caught", "by": "%s @ %s [%s]" % hit[0]})
        else:
            missed.append((m["id"], "no new finding of rule %s (new: %s)" % (exp, new[:3])))
    silent = 0
    noisy = []
    bskipped = 0
    for m in benign:
        status, keys = res[m["id"]]
        if status == "skipped":
            bskipped += 1
            continue
        if status == "ran+error":
            noisy.append((m["id"], "analysis error: " + "; ".join(str(k[1]) for k in keys if k[0] == "ANALYSIS-ERROR")[:200]))
            continue
        if status != "ran":
            noisy.append((m["id"], status + ": " + "; ".join(map(str, keys))[:200]))
            continue
        new = [k for k in keys if k not in base]
        if new:
            noisy.append((m["id"], "new finding %s" % (new[:2],)))
        else:
            silent += 1
    ctx.extra.update({
        "mutants_expected": len(seeded) - skipped, "mutants_caught": caught, "mutants_skipped": skipped,
        "benign_variants": len(benign) - bskipped, "benign_silent": silent,
        "selftest": details[:40],
    })
    if missed or noisy:
        raise AnalysisError("self-test failed: missed seeded variants %s; noisy benign variants %s" % (missed, noisy))
