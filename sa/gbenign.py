"""Whole-repository behaviour-preserving rewrites (AST level), used by the self-test of every property.

  flip-compare   a < b  ->  b > a  (all single-operator comparisons, == and != too)
  aug-to-assign  x += e ->  x = x + e  (all augmented assignments)
  if-negate      if c: A else: B  ->  if not (c): B else: A   (two-armed ifs that are not elif chains)
  rename-locals  every function-local variable v -> v_r (not parameters, not names bound by nested defs)

The first three must leave every check silent (exit 0).  rename-locals must not produce a violation; rules that
locate a role through a local's name may stop with ANALYSIS-ERROR (counted, reported)."""
import ast
import copy
import os

from .loader import REPO, PKG

FLIP = {ast.Lt: ast.Gt, ast.Gt: ast.Lt, ast.LtE: ast.GtE, ast.GtE: ast.LtE, ast.Eq: ast.Eq, ast.NotEq: ast.NotEq}


class FlipCompare(ast.NodeTransformer):
    def visit_Compare(self, node):
        self.generic_visit(node)
        if len(node.ops) == 1 and type(node.ops[0]) in FLIP:
            return ast.copy_location(ast.Compare(left=node.comparators[0], ops=[FLIP[type(node.ops[0])]()], comparators=[node.left]), node)
        return node


class AugToAssign(ast.NodeTransformer):
    def visit_AugAssign(self, node):
        self.generic_visit(node)
        load = copy.deepcopy(node.target)
        for n in ast.walk(load):
            if hasattr(n, "ctx"):
                n.ctx = ast.Load()
        return ast.copy_location(ast.Assign(targets=[node.target], value=ast.BinOp(left=load, op=node.op, right=node.value)), node)


class IfNegate(ast.NodeTransformer):
    def visit_If(self, node):
        self.generic_visit(node)
        if node.orelse and not (len(node.orelse) == 1 and isinstance(node.orelse[0], ast.If)):
            return ast.copy_location(ast.If(test=ast.UnaryOp(op=ast.Not(), operand=node.test), body=node.orelse, orelse=node.body), node)
        return node


class RenameLocals(ast.NodeTransformer):
    def visit_FunctionDef(self, node):
        # only outermost functions / methods are processed; the renaming covers their whole subtree
        args = {a.arg for n in ast.walk(node) if isinstance(n, ast.arguments) for a in n.posonlyargs + n.args + n.kwonlyargs + ([n.vararg] if n.vararg else []) + ([n.kwarg] if n.kwarg else [])}
        bound = set()
        for n in ast.walk(node):
            if isinstance(n, ast.Name) and isinstance(n.ctx, ast.Store):
                bound.add(n.id)
        nested = {n.name for n in ast.walk(node) if isinstance(n, (ast.FunctionDef, ast.ClassDef)) and n is not node}
        glob = {x for n in ast.walk(node) if isinstance(n, (ast.Global, ast.Nonlocal)) for x in n.names}
        targets = bound - args - nested - glob - {"self", "cls", "_"}
        for n in ast.walk(node):
            if isinstance(n, ast.Name) and n.id in targets:
                n.id = n.id + "_r"
        return node


TRANSFORMS = {"flip-compare": FlipCompare, "aug-to-assign": AugToAssign, "if-negate": IfNegate, "rename-locals": RenameLocals}
MUST_BE_SILENT = ("flip-compare", "aug-to-assign", "if-negate")


def overlay(name):
    ov = {}
    pkg = os.path.join(REPO, PKG)
    for dp, dn, fn in os.walk(pkg):
        for f in fn:
            if not f.endswith(".py"):
                continue
            path = os.path.join(dp, f)
            rel = os.path.relpath(path, REPO)
            src = open(path, encoding="utf-8").read()
            tree = ast.parse(src)
            tree = TRANSFORMS[name]().visit(tree)
            ast.fix_missing_locations(tree)
            new = ast.unparse(tree)
            compile(new, rel, "exec")
            ov[rel] = new
    return ov
