"""Debug helper: python -m sa.dump Class.method [attr=value ...]"""
import sys
from .loader import Program
from .evalr import Evaluator
from . import terms as T


def main():
    prog = Program()
    cn, mn = sys.argv[1].split(".")
    assume = {}
    for a in sys.argv[2:]:
        k, v = a.split("=")
        assume[k] = eval(v)
    ci = prog.cls(cn)
    fi = prog.lookup(ci, mn)
    ev = Evaluator(prog, ci, assume=assume)
    tr = ev.run(fi)
    for e in tr.events:
        if e.kind in ("load", "enter", "exit", "local"):
            continue
        pcs = " & ".join(T.pretty(p.cond) for p in e.pc)
        extra = ""
        if e.kind in ("store", "mutate"):
            extra = "%s := %s" % (e.attr, T.pretty(e.value))
        elif e.kind == "call":
            extra = "%s(%s)" % (e.callee, ", ".join(T.pretty(x) for x in e.args))
        elif e.kind == "return":
            extra = T.pretty(e.value)
        elif e.kind == "raise":
            extra = str(e.exc)
        elif e.kind == "test":
            extra = T.pretty(e.cond)
        elif e.kind == "localmut":
            extra = "%s %s %s" % (e.name, e.how, T.pretty(e.value))
        print("%-8s %-40s %s   [%s]" % (e.kind, e.where().split("/")[-1], extra, pcs))
    print("--- final attrs")
    if tr.final:
        for k, v in sorted(tr.final.attrs.items()):
            print("  ", k, "=", T.pretty(v))
    print("cuts", tr.cuts)


main()
