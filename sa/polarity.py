"""Monotonicity (polarity) and sign calculus.

mono(t, p)  in {+1 non-decreasing, -1 non-increasing, 0 independent, None unknown}
sign(t)     in {+1 (>= 0), -1 (<= 0), 0 (== 0), None unknown}

Both are structural recursions.  Where a value still carries the expression
tree it was written with (R.tree, kept by the evaluator for + - * / ** and
comparisons) the recursion follows that tree - normalisation to a single
fraction would hide which factor multiplies the parameter; otherwise it works
on the polynomial form.  `Env` supplies inferred / assumed signs of atoms and
the known dependence of carrier attributes; it records which unknown sign
blocked a verdict."""
from fractions import Fraction
from . import terms as T
from .terms import R
from . import libtable as L


class Env:
    def __init__(self, signs=None, monos=None):
        self.signs = dict(signs or {})
        self.monos = dict(monos or {})
        self.blocked = []  # atoms whose unknown sign prevented a verdict
        self.wraps = []    # subscripts of a sorted sequence whose index may be 0 or negative (negative indexing wraps at 0)

    def sign_of(self, a):
        return self.signs.get(a)

    def mono_of(self, a, p):
        return self.monos.get((a, p))

    def block(self, a):
        if a not in self.blocked:
            self.blocked.append(a)


def _mul(a, b):
    if a is None or b is None:
        return None
    return a * b


def _join(vals):
    r = 0
    for v in vals:
        if v is None:
            return None
        if v == 0:
            continue
        if r == 0:
            r = v
        elif r != v:
            return None
    return r


def depends(t, p):
    return T.mentions(t, lambda a: a == p)


# ---------------------------------------------------------------------------
# sign

def sign(t, env):
    if not isinstance(t, R):
        return None
    if t.is_const():
        v = t.const_value()
        return 0 if v == 0 else (1 if v > 0 else -1)
    tr = t.tree
    if tr is not None:
        k = tr[0]
        if k in ("add", "sub"):
            a, b = sign(tr[1], env), sign(tr[2], env)
            if k == "sub":
                b = None if b is None else -b
            return _join_sign([a, b])
        if k in ("mul", "div"):
            return _mul(sign(tr[1], env), sign(tr[2], env))
        if k == "neg":
            s = sign(tr[1], env)
            return None if s is None else -s
        if k == "pow":
            n = tr[2].const_value() if tr[2].is_const() else None
            if n is not None and n.denominator == 1 and int(n) % 2 == 0:
                return 1
            return sign(tr[1], env)
        if k in ("cmp", "not"):
            return 1
    a = t.single_atom()
    if a is not None:
        return atom_sign(a, env)
    sn = _poly_sign(t.num, env)
    sd = _poly_sign(t.den, env)
    if sd in (None, 0):
        return None
    return _mul(sn, sd)


def _join_sign(vals):
    r = 0
    for v in vals:
        if v is None:
            return None
        if v == 0:
            continue
        if r == 0:
            r = v
        elif r != v:
            return None
    return r


def _poly_sign(poly, env):
    vals = []
    for m, c in poly:
        s = 1 if c > 0 else -1
        for a, pw in m:
            sa = 1 if pw % 2 == 0 else atom_sign(a, env)
            s = _mul(s, sa)
        vals.append(s)
    return _join_sign(vals) if vals else 0


def atom_sign(a, env):
    s = env.sign_of(a)
    if s is not None:
        return s
    k = a[0]
    if k == "call":
        if a[1] in ("sqrt", "abs", "len", "exp"):
            return 1
        if a[1] in ("int", "floor", "round", "float") and a[2]:
            return sign(a[2][0], env)
        if a[1] in ("max",) and any(sign(x, env) in (0, 1) for x in a[2]):
            return 1
    if k == "pow" and sign(a[1], env) in (0, 1):
        return 1
    if k in ("cmp", "and", "or", "not"):
        return 1
    if k == "ite":
        return _join_sign([sign(a[2], env), sign(a[3], env)])
    if k == "const":
        v = a[1]
        if isinstance(v, bool):
            return 1
        if isinstance(v, float):
            return 1 if v > 0 else -1
    env.block(a)
    return None


# ---------------------------------------------------------------------------
# monotonicity

def mono(t, p, env):
    if not isinstance(t, R):
        return None
    if not depends(t, p):
        return 0
    tr = t.tree
    if tr is not None:
        k = tr[0]
        if k == "add":
            return _join([mono(tr[1], p, env), mono(tr[2], p, env)])
        if k == "sub":
            mb = mono(tr[2], p, env)
            return _join([mono(tr[1], p, env), None if mb is None else -mb])
        if k == "neg":
            m = mono(tr[1], p, env)
            return None if m is None else -m
        if k == "mul":
            a, b = tr[1], tr[2]
            da, db = depends(a, p), depends(b, p)
            if da and not db:
                return _mul(mono(a, p, env), sign(b, env))
            if db and not da:
                return _mul(mono(b, p, env), sign(a, env))
            # both depend: monotone if both are >= 0 and move the same way
            if sign(a, env) == 1 and sign(b, env) == 1:
                return _join([mono(a, p, env), mono(b, p, env)])
            return None
        if k == "div":
            a, b = tr[1], tr[2]
            da, db = depends(a, p), depends(b, p)
            if da and not db:
                return _mul(mono(a, p, env), sign(b, env))
            if db and not da:
                sa, sb, mb = sign(a, env), sign(b, env), mono(b, p, env)
                if sa is None or sb in (None, 0) or mb is None:
                    return None
                return -sa * mb
            return None
        if k == "pow":
            n = tr[2].const_value() if tr[2].is_const() else None
            if n is None:
                return None
            m = mono(tr[1], p, env)
            if n > 0 and (n.denominator != 1 or int(n) % 2 == 1 or sign(tr[1], env) == 1):
                return m
            if n < 0 and sign(tr[1], env) == 1:
                return None if m is None else -m
            return None
        if k == "not":
            m = mono(tr[1], p, env)
            return None if m is None else -m
        if k == "cmp":
            op, a, b = tr[1], tr[2], tr[3]
            ma, mb = mono(a, p, env), mono(b, p, env)
            if ma is None or mb is None:
                return None
            if op in (">", ">="):
                return _join([ma, -mb])
            if op in ("<", "<="):
                return _join([-ma, mb])
            return None
    a = t.single_atom()
    if a is not None:
        return atom_mono(a, p, env)
    den_dep = any(_depends_m(m, p) for m, _ in t.den)
    num_dep = any(_depends_m(m, p) for m, _ in t.num)
    if not den_dep:
        sd = _poly_sign(t.den, env)
        if sd in (None, 0):
            return None
        return _mul(_poly_mono(t.num, p, env), sd)
    if not num_dep:
        sn, sd, md = _poly_sign(t.num, env), _poly_sign(t.den, env), _poly_mono(t.den, p, env)
        if sn is None or sd in (None, 0) or md is None:
            return None
        return -sn * md
    return None


def _depends_m(m, p):
    return any(a == p or T.mentions(T.atom(a), lambda x: x == p) for a, _pw in m)


def _poly_mono(poly, p, env):
    vals = []
    for m, c in poly:
        if not _depends_m(m, p):
            continue
        s = 1 if c > 0 else -1
        dep = [(a, pw) for a, pw in m if a == p or T.mentions(T.atom(a), lambda x: x == p)]
        for a, pw in m:
            if (a, pw) in dep:
                continue
            s = _mul(s, 1 if pw % 2 == 0 else atom_sign(a, env))
        if len(dep) != 1:
            if all(atom_sign(a, env) == 1 for a, _pw in dep):
                vals.append(_mul(s, _join([atom_mono(a, p, env) for a, _pw in dep])))
            else:
                vals.append(None)
            continue
        a, pw = dep[0]
        ma = atom_mono(a, p, env)
        if pw != 1 and pw % 2 == 0 and atom_sign(a, env) != 1:
            vals.append(None)
            continue
        vals.append(_mul(s, ma))
    return _join(vals)


def atom_mono(a, p, env):
    if a == p:
        return 1
    if not T.mentions(T.atom(a), lambda x: x == p):
        return 0
    m = env.mono_of(a, p)
    if m is not None:
        return m
    k = a[0]
    if k == "call":
        spec = L.MONOTONE.get(a[1])
        args = list(a[2])
        kws = dict(a[3])
        deps = [(i, x) for i, x in enumerate(args) if depends(x, p)] + [(n, x) for n, x in kws.items() if depends(x, p)]
        if spec is None:
            return None
        if spec == "all+":
            return _join([mono(x, p, env) for _i, x in deps])
        out = []
        for i, x in deps:
            d = dict(spec).get(i)
            if d is None:
                return None
            out.append(_mul(d, mono(x, p, env)))
        return _join(out)
    if k == "cmp":
        op, d = a[1], a[2]
        if op in (">", ">="):
            return mono(d, p, env)
        return None
    if k in ("and", "or"):
        return _join([mono(x, p, env) for x in a[1]])
    if k == "not":
        m_ = mono(a[1], p, env)
        return None if m_ is None else -m_
    if k == "ite":
        if depends(a[1], p):
            return None
        return _join([mono(a[2], p, env), mono(a[3], p, env)])
    if k == "sub":
        if depends(a[2], p):
            # order statistic: element of an ascending sequence at an index that depends on p
            if not depends(a[1], p) and _ascending(a[1]):
                mi = mono(a[2], p, env)
                if mi is None:
                    return None
                si = sign(a[2], env)
                if si in (0, 1) or (si == -1 and strictly_negative(a[2], env)):
                    return mi
                if si == -1:
                    # the index ranges over {0, -1, -2, ...}: -0 is the FIRST element, -1 the last - not monotone
                    if a not in env.wraps:
                        env.wraps.append(a)
            return None
        return mono(a[1], p, env)
    return None


def _ascending(t):
    a = t.single_atom()
    if a is None or a[0] != "call":
        return False
    kw = dict(a[3])
    if a[1] == "numpy.sort":
        return True
    if a[1] in ("sorted", "builtins.sorted"):
        return kw.get("reverse") in (None, T.FALSE)
    return False


def strictly_positive(t, env):
    if not isinstance(t, R):
        return False
    if t.is_const():
        return t.const_value() > 0
    a = t.single_atom()
    if a is not None and a[0] == "call" and a[1] == "max":
        return any(strictly_positive(x, env) for x in a[2])
    if a is not None and a[0] == "call" and a[1] in ("len",):
        return False
    tr = t.tree
    if tr is not None and tr[0] == "add":
        return (strictly_positive(tr[1], env) and sign(tr[2], env) in (0, 1)) or (strictly_positive(tr[2], env) and sign(tr[1], env) in (0, 1))
    # x + c with c > 0 and x >= 0, on the normal form
    c0 = sum((cf for m, cf in t.num if m == ()), Fraction(0)) if t.den == (((), Fraction(1)),) else None
    if c0 is not None and c0 > 0:
        rest = t - T.const(c0)
        return sign(rest, env) in (0, 1)
    return False


def strictly_negative(t, env):
    return strictly_positive(-t, env)
