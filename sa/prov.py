"""Provenance (may-alias) of terms with respect to the caller's data parameters."""
from . import terms as T
from .terms import R
from . import libtable as L
from .loader import AnalysisError


class Unknown(Exception):
    pass


def alias(t, sources, strict=True, unknown=None, loops=None):
    """Set of source parameter names whose memory the value of t may share.
    `sources` is a set of parameter names.  Unknown callees applied to an
    aliasing value are collected in `unknown` (a list) when given, else raise."""
    memo = {}

    def go(x):
        if isinstance(x, R):
            a = x.single_atom()
            if a is None:
                return frozenset()  # arithmetic produces a new value
            return go_atom(a)
        if isinstance(x, tuple):
            s = frozenset()
            for y in x:
                if isinstance(y, (R, tuple)):
                    s |= go(y)
            return s
        return frozenset()

    def go_atom(a):
        if a in memo:
            return memo[a]
        memo[a] = frozenset()
        r = compute(a)
        memo[a] = r
        return r

    def compute(a):
        k = a[0]
        if k == "param":
            return frozenset([a[1]]) if a[1] in sources else frozenset()
        if k in ("const", "attr", "global", "cmp", "and", "or", "not", "in", "notin", "mod", "floordiv", "pow", "idx", "self",
                 "closure", "lambda", "undef", "fstr", "inloop", "sym", "boundmethod", "matmul", "bitand", "bitor", "binop", "invert", "div0", "shift"):
            return frozenset()
        if k == "ite":
            return go(a[2]) | go(a[3])
        if k in ("tuple", "list", "set"):
            return go(a[1])
        if k == "dict":
            s = frozenset()
            for kk, vv in a[1]:
                s |= go(vv)
            return s
        if k == "comp":
            return go(a[2])
        if k == "concat":
            return go(a[1]) | go(a[2])
        if k in ("setitem", "mutated", "appended"):
            return go(a[1])
        if k == "objstate":
            return go(a[2])
        if k == "new":
            return frozenset()
        if k == "loopvar" and loops is not None and a[1] in loops:
            # a variable that a loop re-binds or mutates: what it held before the loop, or what the body leaves in it
            lp = loops[a[1]]
            s = frozenset()
            name = a[2]
            for st in (lp.get("pre"), lp.get("body_end")):
                if st is None:
                    continue
                v = st.locs.get(name[1:]) if name.startswith("$") else st.attrs.get(name)
                if v is not None and v.single_atom() != a:
                    s |= go(v)
            return s
        if k in ("loopvar", "opaque", "iterkey"):
            return frozenset()
        if k == "iter":
            return go(a[1])
        if k == "starred":
            return go(a[1])
        if k == "slice":
            return frozenset()
        if k == "getattr":
            if a[2] in L.IMMUTABLE_ATTRS:
                return frozenset()
            return go(a[1])  # views (values, T, iloc ...) and unknown attributes of an aliasing object
        if k == "sub":
            base = go(a[1])
            if not base:
                return base
            if _advanced_index(a[2]):
                return frozenset()  # boolean mask / integer array indexing copies
            return base
        if k == "call":
            name = a[1]
            argal = go(a[2]) | go(tuple(v for _n, v in a[3]))
            if name == "numpy.array" and any(n == "copy" and T.truth(v) is False for n, v in a[3]):
                return argal
            if name in L.FRESH_CALLS:
                return frozenset()
            if name in L.ALIAS_CALLS:
                return argal
            if not argal:
                return frozenset()
            if unknown is not None:
                unknown.append(name)
                return argal
            raise Unknown("library function %s applied to caller data: extend sa/libtable.py" % name)
        if k == "mcall":
            recv = go(a[1])
            name = a[2]
            if name in L.FRESH_METHODS:
                return frozenset()
            if name in L.ALIAS_METHODS:
                return recv
            if not recv:
                return frozenset()
            if unknown is not None:
                unknown.append("." + name)
                return recv
            raise Unknown("method .%s() applied to caller data: extend sa/libtable.py" % name)
        return frozenset()

    return go(t)


def _advanced_index(idx):
    """Does the index select by boolean mask / integer array (copy), rather than by slice / scalar (view)?"""
    a = idx.single_atom() if isinstance(idx, R) else None
    if a is None:
        return False
    if a[0] in ("cmp", "and", "or", "not"):
        return True
    if a[0] in ("list", "comp"):
        return True
    if a[0] == "tuple":
        return any(_advanced_index(x) for x in a[1])
    if a[0] in ("call", "mcall", "sub", "setitem", "loopvar"):
        # an index that is itself an array (np.where(...)[0], sampled indices, ...)
        return True
    return False
