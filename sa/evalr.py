"""Syntax-directed abstract evaluation over the term domain (sa.terms).

One pass over the statements of an entry function for a concrete receiver
class.  Values of locals and of `self` attributes are terms over the state at
entry; joins build gated phi terms (`ite`), loops havoc what they assign,
calls on `self`/`super()`/explicit repository classes and static functions
are inlined (method resolution through the receiver's MRO), everything else
is an uninterpreted application.  No path is enumerated and no solver is
involved: this is global value numbering with control-dependence guards.

The result is a `Trace`: the ordered list of `Event`s (attribute stores and
loads, in-place mutations, calls, returns, raises, tests) each with the
guards that dominate it, plus the merged state at normal exit.
"""
import ast
import os
from . import terms as T
from .terms import R, atom, const
from .loader import AnalysisError

MUTATORS = {
    "append", "extend", "update", "pop", "insert", "remove", "clear", "sort",
    "reverse", "setdefault", "popitem", "add", "discard", "fill", "put",
    "resize", "fit", "fit_transform", "partial_fit", "itemset", "setflags",
}

CANON = {
    "numpy.abs": "abs", "numpy.absolute": "abs", "abs": "abs", "numpy.fabs": "abs",
    "numpy.sqrt": "sqrt", "math.sqrt": "sqrt",
    "numpy.log": "log", "math.log": "log",
    "numpy.exp": "exp", "math.exp": "exp",
    "numpy.floor": "floor", "math.floor": "floor",
    "numpy.ceil": "ceil", "math.ceil": "ceil",
    "numpy.max": "numpy.max", "numpy.amax": "numpy.max",
    "numpy.min": "numpy.min", "numpy.amin": "numpy.min",
}
COMMUTATIVE = {"max", "min", "numpy.minimum", "numpy.maximum"}


class Event:
    __slots__ = ("kind", "node", "func", "stack", "pc", "d", "seq")

    def __init__(self, kind, node, func, stack, pc, **d):
        self.kind = kind
        self.node = node
        self.func = func
        self.stack = stack
        self.pc = pc
        self.d = d
        self.seq = -1

    def __getattr__(self, k):
        try:
            return self.d[k]
        except KeyError:
            raise AttributeError(k)

    @property
    def line(self):
        return getattr(self.node, "lineno", 0)

    def where(self):
        return "%s:%d %s" % (self.func.file if self.func else "?", self.line, self.func.qualname if self.func else "?")

    def __repr__(self):
        return "<Ev %s %s %s>" % (self.kind, self.where(), {k: v for k, v in self.d.items() if k in ("attr", "name", "callee")})


def _conjuncts(t):
    a = t.single_atom()
    if a is not None and a[0] == "and":
        out = []
        for x in a[1]:
            out.extend(_conjuncts(x))
        return out
    return [t]


def _leaves(t, conds=()):
    a = t.single_atom()
    if a is not None and a[0] == "ite":
        yield from _leaves(a[2], conds + (a[1],))
        yield from _leaves(a[3], conds + (T.mk_not(a[1]),))
    else:
        yield conds, t


def virtual(e, conds, **d):
    """A copy of event e that is additionally guarded by `conds` (and carries the given fields instead of e's)."""
    v = Event(e.kind, e.node, e.func, e.stack, tuple(e.pc) + tuple(PC(c_, c_, True, e.node, e.func) for c_ in conds), **dict(e.d, **d))
    v.seq = e.seq
    v.d["phi_conds"] = tuple(conds)
    v.d["phi_of"] = e
    return v


class PC:
    """One dominating guard: effective condition term (already negated for a
    False edge), the raw test term, the polarity, the AST test node."""
    __slots__ = ("cond", "raw", "pol", "node", "func")

    def __init__(self, cond, raw, pol, node, func):
        self.cond, self.raw, self.pol, self.node, self.func = cond, raw, pol, node, func

    def __repr__(self):
        return "PC(%s)" % T.pretty(self.cond)


class State:
    __slots__ = ("attrs", "locs")

    def __init__(self, attrs, locs):
        self.attrs = attrs
        self.locs = locs

    def copy(self):
        return State(dict(self.attrs), dict(self.locs))


class Frame:
    def __init__(self, func, recv_cls, has_self, call_node, pc_base):
        self.func = func
        self.recv_cls = recv_cls
        self.has_self = has_self
        self.call_node = call_node
        self.pc_base = pc_base  # len(pc) at entry
        self.exits = []  # (cond term, State, value)
        self.loop_n = 0
        self.closure_env = None


class Trace:
    def __init__(self):
        self.events = []
        self.final = None  # State at normal exit of the entry function
        self.retval = None
        self.loops = {}
        self.cuts = []
        self.entry = None
        self.recv = None

    def of(self, *kinds):
        return [e for e in self.events if e.kind in kinds]

    def stores(self, attr=None):
        """Store events.  When an attribute is named, a store whose value is a gated phi over constants only (a state computed
        into a local or returned by a helper and then assigned once: `self.drift_state = "drift" if c else None`) is split into
        one virtual store per leaf, guarded by the leaf's conditions - the same events an if / elif chain of stores produces."""
        evs = [e for e in self.events if e.kind == "store" and (attr is None or e.attr == attr)]
        if attr is None:
            return evs
        out = []
        for e in evs:
            v = e.d.get("value")
            a = v.single_atom() if isinstance(v, R) else None
            if a is not None and a[0] == "ite":
                leaves = list(_leaves(v))
                if len(leaves) > 1 and all(T.is_pure_const(l) for _c, l in leaves):
                    for conds, leaf in leaves:
                        out.append(virtual(e, conds, value=leaf))
                    continue
            out.append(e)
        return out

    def loads(self, attr=None):
        return [e for e in self.events if e.kind == "load" and (attr is None or e.attr == attr)]

    def mutations(self, attr=None):
        return [e for e in self.events if e.kind == "mutate" and (attr is None or e.attr == attr)]

    def calls(self, pred=None):
        return [e for e in self.events if e.kind == "call" and (pred is None or pred(e))]

    def raises(self):
        return self.of("raise")

    def returns(self):
        return self.of("return")


ALL_TRACES = []  # every trace produced in this process since the last Ctx was created (generic rules walk them)


class Evaluator:
    MAX_DEPTH = 14
    MAX_REENTRY = 2

    def __init__(self, prog, recv_cls=None, assume=None, record_loads=True, nonnull=(), max_reentry=None):
        self.prog = prog
        self.recv = recv_cls
        self.assume = dict(assume or {})
        self.trace = Trace()
        self.pc = []
        self.frames = []
        self.silent = 0
        self.record_loads = record_loads
        self.attr_writes = None  # set while discovering loop havoc
        self.local_writes = None
        self._attr_types = None
        self._seq = 0
        self.nonnull = set(nonnull)
        if max_reentry is not None:
            self.MAX_REENTRY = max_reentry

    # ------------------------------------------------------------------ api
    def run(self, fi, args=None, kwargs=None, has_self=None):
        self.trace.entry = fi
        self.trace.recv = self.recv
        if has_self is None:
            has_self = fi.cls is not None and not fi.is_static
        st = State({}, {})
        for k, v in self.assume.items():
            st.attrs[k] = v if isinstance(v, R) else const(v)
        saved = set(T.NONNULL)
        T.NONNULL.clear()
        T.NONNULL.update((("param", p) if isinstance(p, str) else tuple(p)) for p in self.nonnull)
        try:
            val, st2 = self.call_function(fi, has_self, args or [], kwargs or {}, st, None, entry=True)
        finally:
            T.NONNULL.clear()
            T.NONNULL.update(saved)
        self.trace.final = st2
        self.trace.retval = val
        ALL_TRACES.append(self.trace)
        return self.trace

    # --------------------------------------------------------------- events
    def emit(self, kind, node, **d):
        if self.silent:
            return None
        fr = self.frames[-1] if self.frames else None
        ev = Event(kind, node, fr.func if fr else None, tuple(f.func for f in self.frames), tuple(self.pc), **d)
        ev.seq = len(self.trace.events)
        self.trace.events.append(ev)
        return ev

    # ------------------------------------------------------------ functions
    def call_function(self, fi, has_self, args, kwargs, st, node, entry=False, closure_locs=None):
        depth = len(self.frames)
        reentry = sum(1 for f in self.frames if f.func is fi)
        if depth >= self.MAX_DEPTH or reentry >= self.MAX_REENTRY:
            self.trace.cuts.append((fi.qualname, getattr(node, "lineno", 0)))
            self.emit("cut", node, callee=fi.qualname)
            st = st.copy()
            if has_self:
                for k in list(st.attrs):
                    st.attrs[k] = atom(("opaque", "cut", fi.qualname, k))
                st.attrs["__havoc__"] = atom(("opaque", "cut", fi.qualname))
            return atom(("opaque", "cutret", fi.qualname, tuple(args))), st
        fr = Frame(fi, self.recv, has_self, node, len(self.pc))
        locs = dict(closure_locs) if closure_locs else {}
        a = fi.node.args
        params = [x.arg for x in a.posonlyargs + a.args]
        defaults = [None] * (len(params) - len(a.defaults)) + list(a.defaults)
        pos = list(args)
        if has_self and params:
            locs[params[0]] = atom(("self",))
            params_b = params[1:]
            defaults_b = defaults[1:]
        else:
            params_b, defaults_b = params, defaults
        kw = dict(kwargs)
        if any((x.single_atom() or ("",))[0] == "starred" for x in pos if isinstance(x, R)) or "**" in kw:
            raise AnalysisError("call of %s with a starred argument whose length is not known statically (line %s)" % (fi.qualname, getattr(node, "lineno", "?")))
        for i, p in enumerate(params_b):
            if entry and not pos and p not in kw:
                locs[p] = atom(("param", p))
                continue
            if i < len(pos):
                locs[p] = pos[i]
            elif p in kw:
                locs[p] = kw.pop(p)
            elif defaults_b[i] is not None:
                locs[p] = self._const_expr(defaults_b[i], fi)
            else:
                locs[p] = atom(("undef", p))
        extra = pos[len(params_b):]
        if a.vararg:
            if entry and not pos:
                locs[a.vararg.arg] = atom(("param", a.vararg.arg))
            else:
                locs[a.vararg.arg] = atom(("tuple", tuple(extra)))
        for i, p in enumerate(a.kwonlyargs):
            if p.arg in kw:
                locs[p.arg] = kw.pop(p.arg)
            elif entry:
                locs[p.arg] = atom(("param", p.arg))
            elif a.kw_defaults[i] is not None:
                locs[p.arg] = self._const_expr(a.kw_defaults[i], fi)
        if a.kwarg:
            locs[a.kwarg.arg] = atom(("dict", tuple(sorted(((const(k), v) for k, v in kw.items()), key=T.akey))))
        elif kw and not entry:
            self.emit("badcall", node, callee=fi.qualname, extra=tuple(kw))
        self.frames.append(fr)
        self.emit("enter", node or fi.node, callee=fi.qualname, fi=fi)
        cur = State(st.attrs, locs)
        cur = self.exec_block(_generator_body(fi.node) or fi.node.body, cur.copy(), keep=True)
        # merge exits
        exits = list(fr.exits)
        if cur is not None:
            exits.append((self._pc_cond(fr.pc_base), cur, T.NONE))   # falling off the end, under what the body left on the path
        del self.pc[fr.pc_base:]
        if not exits:
            self.emit("exit", node or fi.node, callee=fi.qualname, fi=fi, value=None)
            self.frames.pop()
            return atom(("opaque", "noreturn", fi.qualname)), None
        # fold: ite(c1, v1, ite(c2, v2, ... last))
        cond, mst, mval = exits[-1]
        mattrs = mst.attrs
        # the i-th exit is taken when its condition holds and no earlier exit was taken: inside the else-branches of the
        # earlier exits their negations are known, so conjuncts of later conditions that merely repeat them are dropped
        # (`if a: return x` / `if b: return y` / `return z`  ==  ite(a, x, ite(b, y, z)), not ite(a, x, ite(not a and b, ...)))
        # what holds on every normal exit (typically: the conditions under which an earlier `raise` was not taken) carries no
        # information for choosing between the exits
        common = None
        for c, _s, _v in exits:
            cj = _conjuncts(c)
            common = list(cj) if common is None else [x for x in common if any(x == y for y in cj)]
        known = list(common or [])
        if os.environ.get("SA_DEBUG_EXITS") == fi.qualname:
            for c, _s, _v in exits:
                print("EXIT", fi.qualname, [T.pretty(x)[:110] for x in _conjuncts(c)])
            print("COMMON", [T.pretty(x)[:110] for x in known])
        simplified = []
        for c, s, v in exits[:-1]:
            cj = [x for x in _conjuncts(c) if not any(x == k for k in known)]
            c2 = T.mk_and(cj) if len(cj) > 1 else (cj[0] if cj else T.TRUE)
            simplified.append((c2, s, v))
            known.extend(_conjuncts(T.mk_not(c2)))
        for c, s, v in reversed(simplified):
            mval = T.mk_ite(c, v, mval)
            mattrs = self._merge_maps(c, s.attrs, mattrs)
        self.emit("exit", node or fi.node, callee=fi.qualname, fi=fi, value=mval)
        self.frames.pop()
        out = State(mattrs, st.locs)
        if entry:
            out = State(mattrs, exits[-1][1].locs)
        return mval, out

    def _const_expr(self, node, fi):
        st = State({}, {})
        self.silent += 1
        try:
            self.frames.append(Frame(fi, self.recv, False, None, len(self.pc)))
            return self.ev(node, st)
        finally:
            self.frames.pop()
            self.silent -= 1

    def _merge_maps(self, c, a, b):
        if a is b:
            return a
        out = {}
        for k in set(a) | set(b):
            va = a.get(k)
            vb = b.get(k)
            if va is None:
                va = self._default_of(k)
            if vb is None:
                vb = self._default_of(k)
            out[k] = va if va == vb else T.mk_ite(c, va, vb)
        return out

    def _default_of(self, k):
        if k.startswith("$"):
            return atom(("undef", k[1:]))
        return atom(("attr", k))

    def _merge_locs(self, c, a, b):
        out = {}
        for k in set(a) | set(b):
            va = a.get(k, None)
            vb = b.get(k, None)
            if va is None:
                va = atom(("undef", k))
            if vb is None:
                vb = atom(("undef", k))
            out[k] = va if va == vb else T.mk_ite(c, va, vb)
        return out

    # ----------------------------------------------------------- statements
    def exec_block(self, stmts, st, keep=False):
        """Returns the state after the block, or None if every path through
        it terminates (return / raise / break / continue).  With keep=True the conditions the block left on the path
        (`if d: return` inside it) stay on self.pc for the caller to use."""
        mark = len(self.pc)
        for s in stmts:
            st = self.exec_stmt(s, st)
            if st is None:
                break
        if not keep or st is None:
            del self.pc[mark:]
        return st

    def exec_stmt(self, s, st):
        fr = self.frames[-1]
        if isinstance(s, ast.Expr):
            if isinstance(s.value, ast.Constant):
                return st
            self.ev(s.value, st)
            if st.attrs.get("__dead__") is T.TRUE or st.attrs.get("__dead__") == T.TRUE:
                # the statement was a call of a repository function that never returns (a helper that only raises): the path ends here
                st.attrs = {k: v for k, v in st.attrs.items() if k != "__dead__"}
                return None
            return st
        if isinstance(s, ast.Assign):
            v = self.ev(s.value, st)
            if st.attrs.get("__dead__") == T.TRUE:
                # x = helper(...) where the helper never returns on this path: the path ends here
                st.attrs = {k: v_ for k, v_ in st.attrs.items() if k != "__dead__"}
                return None
            for t in s.targets:
                self.assign(t, v, st, s)
            return st
        if isinstance(s, ast.AnnAssign):
            if s.value is not None:
                self.assign(s.target, self.ev(s.value, st), st, s)
            return st
        if isinstance(s, ast.AugAssign):
            self.augassign(s, st)
            return st
        if isinstance(s, ast.If):
            return self.exec_if(s, st)
        if isinstance(s, (ast.For, ast.While)):
            return self.exec_loop(s, st)
        if isinstance(s, ast.Return):
            v = self.ev(s.value, st) if s.value is not None else T.NONE
            self.emit("return", s, value=v, attrs=dict(st.attrs))
            fr.exits.append((self._pc_cond(fr.pc_base), st, v))
            return None
        if isinstance(s, ast.Raise):
            exc = None
            if s.exc is not None:
                e = s.exc.func if isinstance(s.exc, ast.Call) else s.exc
                exc = ast.unparse(e)
            self.emit("raise", s, exc=exc, attrs=dict(st.attrs))
            return None
        if isinstance(s, ast.FunctionDef):
            sub = fr.func.nested.get(s.name)
            st.locs[s.name] = atom(("closure", sub.qualname if sub else s.name))
            if sub is not None:
                self._closure_envs[sub.qualname] = (fr.func, st.locs)   # the scope its free variables live in
            return st
        if isinstance(s, ast.Pass):
            return st
        if isinstance(s, ast.Break):
            self._loop_flags[-1]["break"] = True
            self.emit("break", s, locs=dict(st.locs), attrs=dict(st.attrs))
            if self._loop_flags and "unroll" in self._loop_flags[-1]:
                fl = self._loop_flags[-1]
                fl["brks"].append((self._pc_cond(fl["base"]), st.copy(), self._pc_cond(fl["unroll"])))
            return None
        if isinstance(s, ast.Continue):
            self.emit("continue", s, locs=dict(st.locs), attrs=dict(st.attrs))
            if self._loop_flags and "unroll" in self._loop_flags[-1]:
                fl = self._loop_flags[-1]
                fl["conts"].append((self._pc_cond(fl["unroll"]), st.copy()))
            return None
        if isinstance(s, ast.Assert):
            self.ev(s.test, st)
            return st
        if isinstance(s, ast.Delete):
            return st
        if isinstance(s, (ast.Import, ast.ImportFrom)):
            for al in s.names:
                nm = al.asname or al.name.split(".")[0]
                base = (s.module + "." if isinstance(s, ast.ImportFrom) and s.module else "")
                st.locs[nm] = atom(("global", base + al.name))
            return st
        if isinstance(s, ast.With):
            for it in s.items:
                v = self.ev(it.context_expr, st)
                if it.optional_vars is not None:
                    self.assign(it.optional_vars, atom(("call", "__enter__", (v,), ())), st, s)
            return self.exec_block(s.body, st)
        if isinstance(s, ast.Try):
            pre = st.copy()
            st1 = self.exec_block(s.body, st)
            outs = [st1] if st1 is not None else []
            for h in s.handlers:
                hs = self._havoc_all(pre.copy(), ("try", s.lineno))
                if h.name:
                    hs.locs[h.name] = atom(("opaque", "exc"))
                r = self.exec_block(h.body, hs)
                if r is not None:
                    outs.append(r)
            if not outs:
                return None
            res = outs[0]
            for o in outs[1:]:
                c = atom(("opaque", "try", s.lineno))
                res = State(self._merge_maps(c, res.attrs, o.attrs), self._merge_locs(c, res.locs, o.locs))
            if s.orelse and st1 is not None:
                res = self.exec_block(s.orelse, res)
            if s.finalbody and res is not None:
                res = self.exec_block(s.finalbody, res)
            return res
        if isinstance(s, ast.Match):
            chain = _match_as_if(s)
            if chain is not None:
                return self.exec_block(chain, st, keep=True)
        raise AnalysisError("unsupported statement %s at %s:%d" % (type(s).__name__, fr.func.file, s.lineno))

    _loop_flags = []

    def _havoc_all(self, st, tag):
        for k in list(st.attrs):
            st.attrs[k] = atom(("opaque", tag, k))
        for k in list(st.locs):
            if st.locs[k].single_atom() is None or st.locs[k].single_atom()[0] not in ("self", "closure", "global"):
                st.locs[k] = atom(("opaque", tag, "$" + k))
        return st

    def _pc_cond(self, base):
        return T.mk_and([p.cond for p in self.pc[base:]])

    def push_pc(self, raw, pol, node):
        cond = raw if pol else T.mk_not(raw)
        self.pc.append(PC(cond, raw, pol, node, self.frames[-1].func))

    def exec_if(self, s, st):
        c = _truth_of_len(self.ev(s.test, st))
        self.emit("test", s, cond=c, stmt=s)
        tv = T.truth(c) if T.is_pure_const(c) else None
        if tv is True:
            return self.exec_block(s.body, st, keep=True)   # a branch decided statically is part of the enclosing block
        if tv is False:
            return self.exec_block(s.orelse, st, keep=True)
        mark = len(self.pc)
        self.push_pc(c, True, s.test)
        s1 = self.exec_block(s.body, st.copy(), keep=True)
        left1 = self.pc[mark + 1:] if s1 is not None else []   # what an early exit inside the branch leaves on the surviving path
        del self.pc[mark:]
        self.push_pc(c, False, s.test)
        s2 = self.exec_block(s.orelse, st.copy(), keep=True) if s.orelse else st.copy()
        left2 = self.pc[mark + 1:] if s2 is not None else []
        del self.pc[mark:]
        if s1 is None and s2 is None:
            return None
        if s1 is None:
            self.push_pc(c, False, s.test)  # stays for the rest of the enclosing block
            self.pc.extend(left2)
            return s2
        if s2 is None:
            self.push_pc(c, True, s.test)
            self.pc.extend(left1)
            return s1
        if left1 or left2:
            # both branches go on, but one of them only under a further condition: (c and r1) or (not c and r2)
            r1 = T.mk_and([c] + [p_.cond for p_ in left1])
            r2 = T.mk_and([T.mk_not(c)] + [p_.cond for p_ in left2])
            self.push_pc(T.mk_or([r1, r2]), True, s.test)
        merged = State(self._merge_maps(c, s1.attrs, s2.attrs), self._merge_locs(c, s1.locs, s2.locs))
        # a local that denotes the object held by a self attribute on both branches still denotes it after the join
        for name, lv in list(merged.locs.items()):
            v1, v2 = s1.locs.get(name), s2.locs.get(name)
            if v1 is None or v2 is None or v1 is v2:
                continue
            for k in merged.attrs:
                a1, a2 = s1.attrs.get(k), s2.attrs.get(k)
                if a1 is None and a2 is None:
                    continue
                a1 = a1 if a1 is not None else atom(("attr", k))   # not written on that branch: still the entry value
                a2 = a2 if a2 is not None else atom(("attr", k))
                if a1 is not None and a2 is not None and (a1 is v1) and (a2 is v2 or (a2 == v2 and (v2.single_atom() or ("",))[0] in ("attr", "loopvar"))):
                    merged.locs[name] = merged.attrs[k]
                    break
                if a1 is not None and a2 is not None and (a2 is v2) and (a1 == v1 and (v1.single_atom() or ("",))[0] in ("attr", "loopvar")):
                    merged.locs[name] = merged.attrs[k]
                    break
        return merged

    def exec_loop(self, s, st):
        fr = self.frames[-1]
        fr.loop_n += 1
        lid = "%s#L%d" % (fr.func.qualname, fr.loop_n)
        is_for = isinstance(s, ast.For)
        it = self.ev(s.iter, st) if is_for else None
        if is_for:
            ia = it.single_atom()
            if ia is not None and ia[0] in ("tuple", "list") and 1 <= len(ia[1]) <= (12 if (_cheap_body(s) or _reflects_on_target(s)) else 2) and not any(
                    (isinstance(n, (ast.For, ast.While)) and n is not s) for n in ast.walk(s)):
                fr.loop_n -= 1
                return self._unrolled(s, ia[1], st)
        # discover what the body may write (fixpoint, silent)
        hav_a, hav_l = set(), set()
        for n in ast.walk(s):
            if isinstance(n, ast.Name) and isinstance(n.ctx, ast.Store):
                hav_l.add(n.id)
        for _round in range(6):
            trial = self._havoc(st.copy(), hav_a, hav_l, lid)
            self.silent += 1
            save_w = self.attr_writes
            self.attr_writes = set()
            save_lw = self.local_writes
            self.local_writes = set()
            save_loop_n = fr.loop_n
            self._loop_flags.append({"break": False})
            try:
                if is_for:
                    self._bind_loop_target(s, it, trial, lid)
                else:
                    self.ev(s.test, trial)
                self.exec_block(s.body, trial)
            finally:
                self._loop_flags.pop()
                w = self.attr_writes
                self.attr_writes = save_w
                if save_w is not None:
                    save_w |= w
                lw = self.local_writes
                self.local_writes = save_lw
                if save_lw is not None:
                    save_lw |= lw
                self.silent -= 1
                fr.loop_n = save_loop_n
            lw = {k for k in lw if k in st.locs}
            if w <= hav_a and lw <= hav_l:
                break
            hav_a |= w
            hav_l |= lw
        else:
            raise AnalysisError("loop havoc did not converge at %s:%d" % (fr.func.file, s.lineno))
        pre = st
        hst = self._havoc(st.copy(), hav_a, hav_l, lid)
        self.emit("loop", s, lid=lid, iter=it, havoc_attrs=frozenset(hav_a), havoc_locals=frozenset(hav_l))
        mark = len(self.pc)
        body_st = hst.copy()
        self.pc.append(PC(atom(("inloop", lid)), atom(("inloop", lid)), True, s, fr.func))
        if is_for:
            self._bind_loop_target(s, it, body_st, lid)
        else:
            c = self.ev(s.test, body_st)
            self.emit("test", s, cond=c, stmt=s)
            self.push_pc(c, True, s.test)
        self._loop_flags.append({"break": False})
        body_end = self.exec_block(s.body, body_st)
        flags = self._loop_flags.pop()
        del self.pc[mark:]
        self.trace.loops[lid] = {"node": s, "pre": pre, "body_end": body_end, "iter": it,
                                 "havoc_attrs": set(hav_a), "havoc_locals": set(hav_l), "func": fr.func,
                                 "break": flags["break"]}
        self.emit("loopend", s, lid=lid)
        out = hst
        for k in hav_l:
            if k not in out.locs:
                out.locs[k] = atom(("loopvar", lid, "$" + k))
        if s.orelse:
            out = self.exec_block(s.orelse, out)
        return out

    def _unrolled(self, s, items, st):
        """for x in (a, b): body  ==  body[x:=a]; body[x:=b]  (short literal collections only; `continue` ends the copy)"""
        base = len(self.pc)
        broken = []   # (condition under which the loop was left by `break`, state at that point)
        for x in items:
            if st is None:
                break
            mark = len(self.pc)
            self.assign(s.target, x, st, s, quiet=True)
            flags = {"break": False, "unroll": mark, "conts": [], "brks": [], "base": base}
            self._loop_flags.append(flags)
            end = self.exec_block(s.body, st, keep=True)
            self._loop_flags.pop()
            if flags["conts"] or flags["brks"] or end is None:
                del self.pc[mark:]
            # otherwise what an early `return` inside the copy left on the path (its negated condition) stays for the copies that follow
            for cnd, cst in flags["conts"]:
                end = cst if end is None else State(self._merge_maps(cnd, cst.attrs, end.attrs), self._merge_locs(cnd, cst.locs, end.locs))
            for cnd, bst, local in flags["brks"]:
                broken.append((cnd, bst))
                self.push_pc(local, False, s)   # the remaining copies run only when this one did not break (earlier negations are already on the path)
            st = end
        if s.orelse and st is not None:
            st = self.exec_block(s.orelse, st)  # the else block runs when no copy broke out (those conditions are on the pc)
        del self.pc[base:]
        for cnd, bst in reversed(broken):
            st = bst if st is None else State(self._merge_maps(cnd, bst.attrs, st.attrs), self._merge_locs(cnd, bst.locs, st.locs))
        return st

    def _havoc(self, st, hav_a, hav_l, lid):
        # a local bound to the very object an attribute holds keeps denoting that object across the iterations
        alias = {}
        if self.recv is not None and hav_a:
            for name, lv in st.locs.items():
                if name not in hav_l and isinstance(lv, R):
                    fld = self._alias_of_attr(lv, st)
                    if fld in hav_a:
                        alias[name] = fld
        for k in hav_a:
            st.attrs[k] = atom(("loopvar", lid, k))
        for name, fld in alias.items():
            st.locs[name] = st.attrs[fld]
        for k in hav_l:
            if k in st.locs:
                st.locs[k] = atom(("loopvar", lid, "$" + k))
        return st

    def _bind_loop_target(self, s, it, st, lid):
        tgt = s.target
        a = it.single_atom()
        idx = atom(("idx", lid))
        if a is not None and a[0] == "call" and a[1] == "enumerate" and isinstance(tgt, ast.Tuple) and len(tgt.elts) == 2:
            self.assign(tgt.elts[0], idx, st, s, quiet=True)
            self.assign(tgt.elts[1], self.mk_sub(a[2][0], idx), st, s, quiet=True)
        elif a is not None and a[0] == "call" and a[1] == "range":
            self.assign(tgt, idx, st, s, quiet=True)
        elif a is not None and a[0] == "call" and a[1] == "zip" and isinstance(tgt, ast.Tuple) and len(tgt.elts) == len(a[2]):
            for e, src in zip(tgt.elts, a[2]):
                self.assign(e, self.mk_sub(src, idx), st, s, quiet=True)
        elif a is not None and a[0] == "mcall" and a[2] == "items" and isinstance(tgt, ast.Tuple) and len(tgt.elts) == 2:
            key = atom(("iterkey", a[1], lid))
            self.assign(tgt.elts[0], key, st, s, quiet=True)
            self.assign(tgt.elts[1], self.mk_sub(a[1], key), st, s, quiet=True)
        else:
            self.assign(tgt, atom(("iter", it, lid)), st, s, quiet=True)

    # ---------------------------------------------------------- assignments
    def self_name(self):
        fr = self.frames[-1]
        if fr.has_self:
            p = fr.func.node.args.posonlyargs + fr.func.node.args.args
            if p:
                return p[0].arg
        # nested function inside a method: closes over the enclosing self
        f = fr.func
        while f.parent is not None:
            f = f.parent
            if f.cls is not None and not f.is_static:
                p = f.node.args.posonlyargs + f.node.args.args
                if p:
                    return p[0].arg
        return None

    def is_self(self, node, st):
        if isinstance(node, ast.Name):
            v = st.locs.get(node.id)
            if v is not None:
                return v.single_atom() == ("self",)
        return False

    def assign(self, tgt, v, st, stmt, quiet=False, aug=None):
        if isinstance(tgt, ast.Name):
            if aug is None:
                aug = _as_increment(st.locs.get(tgt.id), v)
            st.locs[tgt.id] = v
            if not quiet:
                self.emit("local", stmt, name=tgt.id, value=v, aug=aug)
            return
        if isinstance(tgt, (ast.Tuple, ast.List)):
            a = v.single_atom()
            items = None
            if a is not None and a[0] in ("tuple", "list") and len(a[1]) == len(tgt.elts) and not any(isinstance(e, ast.Starred) for e in tgt.elts):
                items = list(a[1])
            nstar = [i for i, e in enumerate(tgt.elts) if isinstance(e, ast.Starred)]
            for i, e in enumerate(tgt.elts):
                if isinstance(e, ast.Starred):
                    if len(nstar) == 1:
                        # first, *rest, last = v :  rest is v[1:-1] (as a list; for a list or array v the same elements in order)
                        after = len(tgt.elts) - 1 - i
                        if a is not None and a[0] in ("tuple", "list"):
                            vals = a[1][i:len(a[1]) - after] if len(a[1]) >= len(tgt.elts) - 1 else None
                            sv = atom(("list", tuple(vals))) if vals is not None else atom(("opaque", "starred", T.akey(v)))
                        else:
                            sv = self.mk_sub(v, atom(("slice", const(i) if i else T.NONE if False else const(i), const(-after) if after else T.NONE, T.NONE)))
                        self.assign(e.value, sv, st, stmt, quiet)
                    else:
                        self.assign(e.value, atom(("opaque", "starred", T.akey(v))), st, stmt, quiet)
                elif nstar and i > nstar[0]:
                    # positions after the star count from the end
                    k_ = i - len(tgt.elts)
                    self.assign(e, a[1][k_] if a is not None and a[0] in ("tuple", "list") and len(a[1]) >= len(tgt.elts) - 1 else self.mk_sub(v, const(k_)), st, stmt, quiet)
                else:
                    self.assign(e, items[i] if items is not None else self.mk_sub(v, const(i)), st, stmt, quiet)
            return
        if isinstance(tgt, ast.Attribute):
            if self.is_self(tgt.value, st) and self.recv is not None:
                self.store_attr(tgt.attr, v, st, stmt, aug)
                return
            root, path = self._root(tgt, st)
            self._mutate(root, path, "setattr", v, st, stmt, aug)
            return
        if isinstance(tgt, ast.Subscript):
            root, path = self._root(tgt, st)
            self._mutate(root, path, "setitem", v, st, stmt, aug)
            return
        if isinstance(tgt, ast.Starred):
            self.assign(tgt.value, v, st, stmt, quiet)
            return
        raise AnalysisError("unsupported assignment target %s" % type(tgt).__name__)

    def store_attr(self, name, v, st, stmt, aug=None):
        prop = self.prog.find_property(self.recv, name)
        field = name
        via = None
        if prop is not None:
            getter, setter, _ = prop
            via = name
            bf = self.prog.backing_field(self.recv, name)
            if setter is None:
                raise AnalysisError("store to read-only property %s at line %d" % (name, stmt.lineno))
            if bf is not None and _trivial_setter(setter, bf):
                field = bf
            else:
                self.emit("call", stmt, callee=("setter", setter.qualname), fi=setter, args=(v,), kwargs=(), result=T.NONE)
                _, st2 = self.call_function(setter, True, [v], {}, st, stmt)
                if st2 is not None:
                    st.attrs = st2.attrs
                # mark the stores performed inside with the property name
                return
        old = st.attrs.get(field)
        if aug is None:
            aug = _as_increment(old if old is not None else atom(("attr", field)), v)
        st.attrs[field] = v
        if self.attr_writes is not None:
            self.attr_writes.add(field)
        self.emit("store", stmt, attr=field, value=v, via=via, aug=aug, old=old if old is not None else atom(("attr", field)))

    def _root(self, tgt, st):
        """Decompose a store target x.a[b].c into (root descriptor, path)."""
        path = []
        e = tgt
        while True:
            if isinstance(e, ast.Attribute):
                if self.is_self(e.value, st) and self.recv is not None:
                    path.append(("attr0", e.attr))
                    return ("self", e.attr), path[::-1]
                path.append(("attr", e.attr))
                e = e.value
            elif isinstance(e, ast.Subscript):
                path.append(("item", self.ev_slice(e.slice, st)))
                e = e.value
            elif isinstance(e, ast.Name):
                fld = self._alias_of_attr(st.locs.get(e.id), st) if self.recv is not None else None
                if fld is not None:
                    # a local bound to the object a self attribute holds: mutating it in place mutates that attribute's object
                    path.append(("attr0", fld))
                    self._alias_local = (e.id, fld)
                    return ("self", fld), path[::-1]
                lv = st.locs.get(e.id) if self.recv is not None else None
                la = lv.single_atom() if isinstance(lv, R) else None
                if la is not None and la[0] == "sub" and isinstance(la[1], R):
                    # a local bound to an entry of the container a self attribute holds (row = self.table[k]; row[j] = v)
                    fld = self._alias_of_attr(la[1], st)
                    if fld is not None:
                        path.append(("item", la[2]))
                        path.append(("attr0", fld))
                        self._alias_entry = (e.id, fld, la[2])
                        return ("self", fld), path[::-1]
                if la is not None and la[0] in ("mcall", "call", "dict", "list", "new"):
                    # ... or to the very object stored under a key a moment ago (self.table[k] = fresh(); row = self.table[k])
                    for k_, val in st.attrs.items():
                        va = val.single_atom() if isinstance(val, R) else None
                        if va is not None and va[0] == "setitem" and va[3] is lv:
                            path.append(("item", va[2]))
                            path.append(("attr0", k_))
                            self._alias_entry = (e.id, k_, va[2])
                            return ("self", k_), path[::-1]
                return ("local", e.id), path[::-1]
            elif isinstance(e, ast.Call):
                g = self._static_getattr(e, st)
                if g is not None:
                    e = g   # getattr(self, "<constant>")[k] = v
                    continue
                v = self.ev(e, st)
                return ("value", v), path[::-1]
            else:
                v = self.ev(e, st)
                return ("value", v), path[::-1]

    _alias_local = None
    _alias_entry = None

    def _alias_of_attr(self, v, st):
        """field name when the local value v IS the (mutable) object currently held by a self attribute, else None"""
        a = v.single_atom() if isinstance(v, R) else None
        if a is not None and a[0] in ("call", "ite"):
            # an array / container built by a library call, or a conditionally initialised one: only the very object the
            # attribute holds (identity of the term object)
            for k, val in st.attrs.items():
                if val is v:
                    return k
            return None
        if a is None or a[0] not in ("attr", "appended", "mutated", "setitem", "list", "dict", "objstate", "loopvar", "new"):
            return None
        if a[0] == "attr":
            cur = st.attrs.get(a[1])
            return a[1] if cur is None or cur == v else None
        if a[0] == "loopvar" and isinstance(a[2], str) and not a[2].startswith("$"):
            return a[2] if st.attrs.get(a[2]) == v else None
        for k, val in st.attrs.items():
            if val is v or (val == v and a[0] != "list" and a[0] != "dict"):
                return k
        return None

    def _mutate(self, root, path, how, v, st, stmt, aug=None):
        if root[0] == "self":
            name = root[1]
            field = self.prog.backing_field(self.recv, name) or name
            old = self.load_attr(name, st, stmt, quiet=True)
            p = tuple(x for x in path if x[0] != "attr0")
            if aug is None and how == "setitem" and len(p) >= 1 and all(x[0] == "item" for x in p):
                elem = old
                for x in p:
                    elem = self.mk_sub(elem, x[1])
                aug = _as_increment(elem, v)
            new = self._apply_path(old, p, how, v)
            st.attrs[field] = new
            if self._alias_local is not None and self._alias_local[1] == field:
                st.locs[self._alias_local[0]] = new   # the alias keeps denoting the (now modified) object
            self._alias_local = None
            if self._alias_entry is not None and self._alias_entry[1] == field:
                # the entry, as modified: the same change applied to what the local held
                oldl = st.locs.get(self._alias_entry[0])
                if oldl is not None and len(p) >= 2 and p[0] == ("item", self._alias_entry[2]):
                    st.locs[self._alias_entry[0]] = self._apply_path(oldl, p[1:], how, v)
                else:
                    st.locs[self._alias_entry[0]] = self.mk_sub(new, self._alias_entry[2])
            self._alias_entry = None
            if self.attr_writes is not None:
                self.attr_writes.add(field)
            self.emit("mutate", stmt, attr=field, how=how, path=p, value=v, aug=aug, old=old)
        elif root[0] == "local":
            name = root[1]
            old = st.locs.get(name)
            if old is None:
                old = self.load_name(name, st, stmt)
            if aug is None and how == "setitem" and path and all(x[0] in ("item", "attr") for x in path):
                elem = old
                for x in path:
                    elem = self.mk_sub(elem, x[1]) if x[0] == "item" else self.mk_getattr(elem, x[1])
                aug = _as_increment(elem, v)
            new = self._apply_path(old, tuple(path), how, v)
            st.locs[name] = new
            if self.local_writes is not None:
                self.local_writes.add(name)
            self.emit("localmut", stmt, name=name, how=how, path=tuple(path), value=v, aug=aug, old=old)
        else:
            self.emit("localmut", stmt, name=None, how=how, path=tuple(path), value=v, aug=aug, old=root[1])

    def _apply_path(self, old, path, how, v):
        if len(path) == 1 and path[0][0] == "item" and how == "setitem" and (path[0][1].single_atom() or ("",))[0] != "tuple":
            return atom(("setitem", old, path[0][1], v))
        return atom(("mutated", old, tuple((k, x) for k, x in path), how, v))

    def augassign(self, s, st):
        tgt = s.target
        load = _as_load(tgt)
        old = self.ev(load, st)
        rhs = self.ev(s.value, st)
        v = self.binop(type(s.op), old, rhs, s)
        if isinstance(s.op, ast.Add):
            aug = ("Add", rhs)
        elif isinstance(s.op, ast.Sub):
            aug = ("Add", -rhs)
        else:
            aug = (type(s.op).__name__, rhs)
        self.assign(tgt, v, st, s, aug=aug)

    # ---------------------------------------------------------- expressions
    def ev(self, e, st):
        m = getattr(self, "ev_" + type(e).__name__, None)
        if m is None:
            raise AnalysisError("unsupported expression %s at line %d" % (type(e).__name__, getattr(e, "lineno", 0)))
        return m(e, st)

    def ev_Constant(self, e, st):
        return const(e.value)

    def ev_Name(self, e, st):
        return self.load_name(e.id, st, e)

    def _under_pc(self, v):
        """A gated phi whose condition (or its negation) is among the guards that dominate the current statement is its
        corresponding branch: `x = a if c else b ... if c: use(x)` reads a.  (Sound: the phi's condition term denotes the value the
        test had when the phi was built, and the same term guards the current path.)"""
        a = v.single_atom() if isinstance(v, R) else None
        if a is None or a[0] != "ite" or not self.pc:
            return v
        known = set()
        for p_ in self.pc:
            for x in _conjuncts(p_.cond):
                known.add(x)
        for _ in range(8):
            a = v.single_atom()
            if a is None or a[0] != "ite":
                break
            if a[1] in known:
                v = a[2]
            elif T.mk_not(a[1]) in known:
                v = a[3]
            else:
                break
        return v

    def load_name(self, name, st, node):
        v = st.locs.get(name)
        if v is not None:
            v = self._under_pc(v)
            a = v.single_atom()
            if a is not None and a[0] == "undef":
                self.emit("undefread", node, name=name, value=v)
            elif a is not None and a[0] == "ite" and T.mentions(v, lambda x: x[0] == "undef" and x[1] == name):
                self.emit("maybeundef", node, name=name, value=v)
            return v
        fr = self.frames[-1]
        mi = fr.func.module
        if name in _local_names(fr.func):
            # a local of this function that has not been assigned on this path
            v = atom(("undef", name))
            self.emit("undefread", node, name=name, value=v)
            return v
        if name in mi.imports:
            return atom(("global", mi.imports[name]))
        if name in mi.classes:
            return atom(("global", mi.name + "." + name))
        if name in mi.functions:
            return atom(("global", mi.name + "." + name))
        if name in mi.globals:
            gv = mi.globals[name]
            if isinstance(gv, ast.Constant) and isinstance(gv.value, (str, int, float, bool, type(None))) and self._assigned_once(mi, name):
                return const(gv.value)  # a module-level named literal (`_DRIFT = "drift"`) is the literal
            if _pure_literal(gv, mi) and self._assigned_once(mi, name):
                # a module-level table of literals (`_LEVELS = (("drift", 2), ("warning", 1))`), never rebound
                return self._const_expr(gv, fr.func)
            return atom(("global", mi.name + "." + name))
        import builtins as _b
        if not hasattr(_b, name) and not self._enclosing_has(name):
            # neither a local, an enclosing-scope name, a module-level name nor a builtin: NameError at run time
            v = atom(("undef", name))
            self.emit("undefread", node, name=name, value=v)
            return v
        if not hasattr(_b, name):
            # a variable of a lexically enclosing function, with this nested function analysed on its own: an input of it,
            # like a parameter
            return atom(("param", name))
        return atom(("global", "builtins." + name))

    def _assigned_once(self, mi, name):
        n = 0
        for nd in ast.walk(mi.tree):
            if isinstance(nd, ast.Name) and nd.id == name and isinstance(nd.ctx, ast.Store):
                n += 1
            if isinstance(nd, ast.Global) and name in nd.names:
                return False
        return n == 1

    def _enclosing_has(self, name):
        """Name bound in a lexically enclosing function (closures / nested helpers)."""
        fi = self.frames[-1].func
        qn = fi.qualname
        while "." in qn:
            qn = qn.rsplit(".", 1)[0]
            outer = self._find_closure_owner(qn)
            if outer is not None and (name in _local_names(outer) or name in [a.arg for a in outer.node.args.args + outer.node.args.kwonlyargs]):
                return True
        return False

    def _find_closure_owner(self, qualname):
        for mi in self.prog.modules.values():
            for f in mi.functions.values():
                if f.qualname == qualname:
                    return f
            for ci in mi.classes.values():
                for f in ci.methods.values():
                    if f.qualname == qualname:
                        return f
                    for g in getattr(f, "nested", {}).values():
                        if g.qualname == qualname:
                            return g
        return None

    def ev_Attribute(self, e, st):
        if self.is_self(e.value, st) and self.recv is not None:
            return self.load_attr(e.attr, st, e)
        d = self._dotted_expr(e, st)
        if d is not None:
            if d in ("math.inf", "numpy.inf", "numpy.Inf", "numpy.infty", "numpy.PINF"):
                return const(float("inf"))   # the same value as float("inf")
            return atom(("global", d))
        base = self.ev(e.value, st)
        return self.mk_getattr(base, e.attr, st, e)

    def _dotted_expr(self, e, st):
        """Dotted name if the chain is rooted in a module-level name that is
        not shadowed by a local."""
        x = e
        while isinstance(x, ast.Attribute):
            x = x.value
        if isinstance(x, ast.Name) and x.id not in st.locs:
            return self.prog.dotted(self.frames[-1].func.module, e)
        return None

    _nt_fields = {}
    _lambdas = {}

    def mk_getattr(self, base, name, st=None, node=None):
        a = base.single_atom()
        if a is not None and a[0] == "tuple":
            flds = self._nt_fields.get(T.akey(base))
            if flds is not None and name in flds:
                return a[1][flds.index(name)]
        if a is not None and a[0] == "global":
            if a[1] + "." + name in ("math.inf", "numpy.inf", "numpy.Inf", "numpy.infty", "numpy.PINF"):
                return const(float("inf"))   # the same value as float("inf")
            return atom(("global", a[1] + "." + name))
        if a is not None and a[0] == "ite":
            return T.mk_ite(a[1], self.mk_getattr(a[2], name), self.mk_getattr(a[3], name))
        if name == "ndim":
            return atom(("call", "len", (atom(("getattr", base, "shape")),), ()))  # x.ndim == len(x.shape)
        return atom(("getattr", base, name))

    def load_attr(self, name, st, node, quiet=False):
        prop = self.prog.find_property(self.recv, name)
        field = name
        if prop is not None:
            bf = self.prog.backing_field(self.recv, name)
            if bf is None:
                getter = prop[0]
                v, st2 = self.call_function(getter, True, [], {}, st, node)
                if st2 is not None:
                    st.attrs = st2.attrs
                return v
            field = bf
        v = st.attrs.get(field)
        if v is None:
            # class attribute or bound method?
            for c in self.recv.mro:
                if field in c.class_attrs:
                    v = self._const_expr(c.class_attrs[field], self.frames[-1].func)
                    break
                if field in c.methods:
                    v = atom(("boundmethod", field))
                    break
            if v is None:
                v = atom(("attr", field))
        v = self._under_pc(v)
        if self.record_loads and not quiet:
            self.emit("load", node, attr=field, value=v)
        return v

    def ev_Subscript(self, e, st):
        base = self.ev(e.value, st)
        idx = self.ev_slice(e.slice, st)
        return self.mk_sub(base, idx)

    def ev_slice(self, s, st):
        if isinstance(s, ast.Slice):
            lo = self.ev(s.lower, st) if s.lower is not None else T.NONE
            hi = self.ev(s.upper, st) if s.upper is not None else T.NONE
            stp = self.ev(s.step, st) if s.step is not None else T.NONE
            return atom(("slice", lo, hi, stp))
        if isinstance(s, ast.Tuple):
            return atom(("tuple", tuple(self.ev_slice(x, st) for x in s.elts)))
        return self.ev(s, st)

    def mk_sub(self, base, idx):
        a = base.single_atom()
        ta = idx.single_atom()
        if ta is not None and ta[0] == "tuple" and 2 <= len(ta[1]) <= 3 and all(x.is_const() and x.const_value().denominator == 1 for x in ta[1]) \
                and not (a is not None and a[0] == "getattr" and a[2] in ("iloc", "loc", "at", "iat")):
            # x[0, 0] == x[0][0] for integer positions of an array
            out = base
            for x in ta[1]:
                out = self.mk_sub(out, x)
            return out
        if a is not None:
            if a[0] in ("list", "tuple") and idx.is_const():
                i = idx.const_value()
                if i.denominator == 1 and -len(a[1]) <= int(i) < len(a[1]):
                    return a[1][int(i)]
            if a[0] in ("list", "tuple"):
                sl = idx.single_atom()
                if sl is not None and sl[0] == "slice" and all(x == T.NONE or (x.is_const() and x.const_value().denominator == 1) for x in sl[1:]):
                    # a constant slice of a literal collection is the literal collection of the selected items
                    py = slice(*[None if x == T.NONE else int(x.const_value()) for x in sl[1:]])
                    return atom((a[0], tuple(a[1][py])))
            if a[0] == "dict" and T.is_pure_const(idx):
                for k, v in a[1]:
                    if k == idx:
                        return v
            if a[0] == "setitem":
                if a[2] == idx:
                    return a[3]
                if T.is_pure_const(a[2]) and T.is_pure_const(idx):
                    return self.mk_sub(a[1], idx)
            if a[0] == "appended" and idx.is_const() and idx.const_value() == -1:
                return a[2]
            if a[0] == "call" and a[1] == "numpy.array" and len(a[2]) == 1 and not a[3] and idx.is_const():
                # element of an array literal built from a flat list of scalars
                inner = a[2][0].single_atom()
                if inner is not None and inner[0] in ("list", "tuple") and not any(
                        (x.single_atom() or ("",))[0] in ("list", "tuple") for x in inner[1]):
                    return self.mk_sub(a[2][0], idx)
            if a[0] == "ite":
                return T.mk_ite(a[1], self.mk_sub(a[2], idx), self.mk_sub(a[3], idx))
            if a[0] == "sub" and idx.is_const() and idx.const_value().denominator == 1:
                # an element of a slice is an element of the sliced sequence: x[a:][i] == x[a+i] (i >= 0), x[:-k][-j] == x[-(k+j)]
                sl = a[2].single_atom()
                i = int(idx.const_value())
                if sl is not None and sl[0] == "slice" and sl[3] == T.NONE:
                    lo, hi = sl[1], sl[2]
                    if i >= 0 and (lo == T.NONE or (lo.is_const() and lo.const_value() >= 0)):
                        return self.mk_sub(a[1], const(i + (0 if lo == T.NONE else int(lo.const_value()))))
                    if i < 0 and (hi == T.NONE or (hi.is_const() and hi.const_value() < 0)):
                        return self.mk_sub(a[1], const(i + (0 if hi == T.NONE else int(hi.const_value()))))
        return atom(("sub", base, idx))

    def ev_BinOp(self, e, st):
        a, b = self.ev(e.left, st), self.ev(e.right, st)
        r = self.binop(type(e.op), a, b, e)
        tag = {ast.Add: "add", ast.Sub: "sub", ast.Mult: "mul", ast.Div: "div"}.get(type(e.op))
        if tag is not None and isinstance(r, R) and not r.is_const():
            r = r.with_tree((tag, a, b))
        elif isinstance(e.op, ast.Pow) and b.is_const() and isinstance(r, R) and not r.is_const():
            r = r.with_tree(("pow", a, b))
        return r

    def binop(self, op, a, b, node=None):
        if op is ast.Add:
            if _is_seq(a) and _is_seq(b):
                return atom(("concat", a, b))
            if T.is_pure_const(a) and T.is_pure_const(b) and isinstance(T.const_py(a), str) and isinstance(T.const_py(b), str):
                return const(T.const_py(a) + T.const_py(b))   # "tpr" + "_N"
            return a + b
        if op is ast.Sub:
            return a - b
        if op is ast.Mult:
            if (a == const(1) or b == const(1)) and node is not None:
                # 1 * x: numeric coercion (bool -> int); invisible in the algebra, recorded for the rules that care
                self.emit("coerce", node, value=(b if a == const(1) else a), how="1*")
            return a * b
        if op is ast.Div:
            if not b.num:
                return atom(("div0", a))
            return a / b
        if op is ast.Pow:
            if b.is_const() and b.const_value().denominator == 1 and abs(b.const_value()) <= 8:
                n = int(b.const_value())
                if n < 0 and not a.num:
                    return atom(("div0", a))
                return a ** n
            if b.is_const() and b.const_value() == T.Fraction(1, 2):
                return atom(("call", "sqrt", (a,), ()))
            return atom(("pow", a, b))
        if op is ast.BitAnd:
            if _boolish(a) and _boolish(b):
                return T.mk_and([a, b])
            return atom(("bitand", a, b))
        if op is ast.BitOr:
            if _boolish(a) and _boolish(b):
                return T.mk_or([a, b])
            return atom(("bitor", a, b))
        if op is ast.Mod:
            return atom(("mod", a, b))
        if op is ast.FloorDiv:
            return atom(("floordiv", a, b))
        if op is ast.MatMult:
            return atom(("matmul", a, b))
        return atom(("binop", op.__name__, a, b))

    def ev_UnaryOp(self, e, st):
        v = self.ev(e.operand, st)
        if isinstance(e.op, ast.USub):
            r = -v
            return r if r.is_const() else r.with_tree(("neg", v))
        if isinstance(e.op, ast.UAdd):
            return v
        if isinstance(e.op, ast.Not):
            v = _truth_of_len(v)
            r = T.mk_not(v)
            return r if T.is_pure_const(r) else r.with_tree(("not", v))
        return atom(("invert", v))

    def ev_BoolOp(self, e, st):
        # short-circuit on statically decided operands (so that folded
        # branches do not leave spurious loads / calls behind)
        is_and = isinstance(e.op, ast.And)
        vals = []
        mark = len(self.pc)
        for x in e.values:
            v = self.ev(x, st)
            tv = T.truth(v) if T.is_pure_const(v) else None
            if tv is not None:
                if tv != is_and:
                    del self.pc[mark:]
                    return v if not T._boolish(v) or True else v
                continue
            vals.append(v)
            # later operands are evaluated only if this one is true (and) / false (or)
            self.push_pc(v, is_and, x)
        del self.pc[mark:]
        if not vals:
            return T.TRUE if is_and else T.FALSE
        if any(T._boolish(v) for v in vals) or any((v.single_atom() or ("",))[0] in ("param", "attr", "call", "mcall", "getattr", "loopvar") and
                                                   not _numeric_idiom(vals) for v in vals):
            # a condition (flags, predicates): logical formula over the operands' truth values
            return T.mk_and(vals) if is_and else T.mk_or(vals)
        # value semantics of and / or on non-boolean operands:  a and b == (b if a else a),  a or b == (a if a else b)
        res = vals[-1]
        for v in reversed(vals[:-1]):
            res = T.mk_ite(v, res, v) if is_and else T.mk_ite(v, v, res)
        return res

    def ev_Compare(self, e, st):
        left = self.ev(e.left, st)
        out = []
        for op, right in zip(e.ops, e.comparators):
            r = self.ev(right, st)
            out.append(self.compare(op, left, r))
            left = r
        return T.mk_and(out) if len(out) > 1 else out[0]

    def compare(self, op, a, b):
        name = {ast.Lt: "<", ast.LtE: "<=", ast.Gt: ">", ast.GtE: ">=", ast.Eq: "==", ast.NotEq: "!=",
                ast.Is: "is", ast.IsNot: "is not"}.get(type(op))
        if name is not None:
            r = T.mk_cmp(name, a, b)
            if not T.is_pure_const(r):
                r = r.with_tree(("cmp", name, a, b))
            return r
        neg = isinstance(op, ast.NotIn)
        bb = b.single_atom()
        if bb is not None and bb[0] in ("tuple", "list", "set") and T.is_pure_const(a) and all(T.is_pure_const(x) for x in bb[1]):
            res = any(x == a for x in bb[1])
            return const(res != neg)
        if bb is not None and bb[0] == "dict" and T.is_pure_const(a) and all(T.is_pure_const(k_) for k_, _v in bb[1]):
            res = any(k_ == a for k_, _v in bb[1])
            return const(res != neg)
        if bb is not None and bb[0] == "mcall" and bb[2] == "keys" and not bb[3] and not bb[4]:
            b = bb[1]  # `k in d.keys()` is `k in d`
        if bb is not None and bb[0] in ("tuple", "list", "set") and 1 <= len(bb[1]) <= 6 and (all(T.is_pure_const(x) for x in bb[1]) or (a.is_const() and all(
                (x.single_atom() or ("",))[0] not in ("tuple", "list", "dict", "set", "starred") for x in bb[1]))):
            # membership in a literal collection of constants is a disjunction of equalities (it then distributes over gated phis)
            t = T.mk_or([T.mk_cmp("==", a, x) for x in bb[1]])
            return T.mk_not(t) if neg else t
        t = atom(("in", a, b))
        return T.mk_not(t) if neg else t

    def ev_IfExp(self, e, st):
        c = _truth_of_len(self.ev(e.test, st))
        tv = T.truth(c) if T.is_pure_const(c) else None
        if tv is True:
            return self.ev(e.body, st)
        if tv is False:
            return self.ev(e.orelse, st)
        mark = len(self.pc)
        self.push_pc(c, True, e.test)
        a = self.ev(e.body, st)
        del self.pc[mark:]
        self.push_pc(c, False, e.test)
        b = self.ev(e.orelse, st)
        del self.pc[mark:]
        return T.mk_ite(c, a, b)

    def ev_Tuple(self, e, st):
        return atom(("tuple", tuple(self.ev(x, st) for x in e.elts)))

    def ev_List(self, e, st):
        if len(e.elts) == 1 and isinstance(e.elts[0], ast.Starred):
            return self._lib_call("list", [self.ev(e.elts[0].value, st)], {}, st, e)   # [*x] is list(x)
        if len(e.elts) == 2 and all(isinstance(x, ast.Starred) for x in e.elts):
            a_, b_ = (self.ev(x.value, st) for x in e.elts)
            if _is_seq(a_) and _is_seq(b_):
                return atom(("concat", a_, b_))   # [*a, *b] is a + b for two lists
        return atom(("list", tuple(self.ev(x, st) for x in e.elts)))

    def ev_Set(self, e, st):
        return atom(("set", tuple(sorted((self.ev(x, st) for x in e.elts), key=T.akey))))

    def ev_Dict(self, e, st):
        items = []
        for k, v in zip(e.keys, e.values):
            items.append((self.ev(k, st) if k is not None else atom(("const", "**")), self.ev(v, st)))
        return atom(("dict", tuple(items)))

    def ev_JoinedStr(self, e, st):
        parts = []
        for v in e.values:
            if isinstance(v, ast.Constant):
                parts.append(const(v.value))
            else:
                parts.append(self.ev(v.value, st))
        plain = all(isinstance(v, ast.Constant) or (isinstance(v, ast.FormattedValue) and v.conversion == -1 and v.format_spec is None)
                    for v in e.values)
        if plain and all(T.is_pure_const(x) and isinstance(T.const_py(x), str) for x in parts):
            return const("".join(T.const_py(x) for x in parts))   # f"{'tpr'}_N" is the string "tpr_N"
        return atom(("fstr", tuple(parts)))

    def ev_FormattedValue(self, e, st):
        return self.ev(e.value, st)

    def ev_Starred(self, e, st):
        return atom(("starred", self.ev(e.value, st)))

    def ev_Lambda(self, e, st):
        # identity lambdas are recognised, anything else is opaque
        a = e.args
        if len(a.args) == 1 and isinstance(e.body, ast.Name) and e.body.id == a.args[0].arg:
            return atom(("lambda", "identity"))
        txt = ast.unparse(e)
        if not (a.vararg or a.kwarg or a.kwonlyargs or a.defaults or a.posonlyargs):
            params = {x.arg for x in a.args}
            free = {n.id for n in ast.walk(e.body) if isinstance(n, ast.Name)} - params
            mi = self.frames[-1].func.module
            import builtins as _b
            if all((n in mi.imports or n in mi.classes or n in mi.functions or n in mi.globals or hasattr(_b, n)) and n not in st.locs for n in free):
                # a closed lambda (no captured locals): calling it is evaluating its body on the arguments
                self._lambdas[txt] = (e, self.frames[-1].func)
        return atom(("lambda", txt))

    def _comp(self, kind, e, st, elts):
        fr = self.frames[-1]
        # a comprehension over a short literal collection is unrolled: [f(t) for t in (a, b)] == [f(a), f(b)]
        if len(e.generators) == 1 and kind in ("list", "gen", "dict"):
            itv = self.ev(e.generators[0].iter, st)
            ia = itv.single_atom()
            if ia is not None and ia[0] in ("tuple", "list") and 1 <= len(ia[1]) <= 12:
                sub = State(st.attrs, dict(st.locs))
                out = []
                decided = True
                for x in ia[1]:
                    self.assign(e.generators[0].target, x, sub, e, quiet=True)
                    cvs = [self.ev(c_, sub) for c_ in e.generators[0].ifs]
                    cnd = T.mk_and(cvs) if cvs else T.TRUE
                    if T.is_pure_const(cnd) and T.truth(cnd) is False:
                        continue
                    if not T.is_pure_const(cnd):
                        decided = False   # a filter that is not decided statically: the length of the result is not known
                        mark_ = len(self.pc)
                        self.push_pc(cnd, True, e)
                        out.append((cnd, tuple(self.ev(z, sub) for z in elts)))
                        del self.pc[mark_:]
                    else:
                        out.append((T.TRUE, tuple(self.ev(z, sub) for z in elts)))
                if decided:
                    st.attrs = sub.attrs
                    if kind == "dict":
                        return atom(("dict", tuple(o[1] for o in out)))
                    return atom(("list", tuple(o[1][0] for o in out)))
                if kind != "dict" and len(elts) == 1:
                    # entries present under a condition each: enough for any(...) / all(...) over the result
                    st.attrs = sub.attrs
                    return atom(("flist", tuple((cn, o[0]) for cn, o in out)))
        sub = State(st.attrs, dict(st.locs))
        iters = []
        conds = []
        mark = len(self.pc)
        for g in e.generators:
            fr.loop_n += 1
            lid = "%s#L%d" % (fr.func.qualname, fr.loop_n)
            it = self.ev(g.iter, sub)
            iters.append(it)
            fake = ast.For(target=g.target, iter=g.iter, body=[], orelse=[])
            self.pc.append(PC(atom(("inloop", lid)), atom(("inloop", lid)), True, e, fr.func))
            self._bind_loop_target(fake, it, sub, lid)
            for c in g.ifs:
                cv = self.ev(c, sub)
                conds.append(cv)
                self.push_pc(cv, True, c)
        vals = tuple(self.ev(x, sub) for x in elts)
        del self.pc[mark:]
        st.attrs = sub.attrs
        return atom(("comp", kind, vals, tuple(iters), tuple(conds)))

    def ev_ListComp(self, e, st):
        return self._comp("list", e, st, [e.elt])

    def ev_SetComp(self, e, st):
        return self._comp("set", e, st, [e.elt])

    def ev_GeneratorExp(self, e, st):
        return self._comp("gen", e, st, [e.elt])

    def ev_DictComp(self, e, st):
        return self._comp("dict", e, st, [e.key, e.value])

    def ev_NamedExpr(self, e, st):
        v = self.ev(e.value, st)
        self.assign(e.target, v, st, e)
        return v

    # ---------------------------------------------------------------- calls
    def _static_getattr(self, n, st):
        """getattr(obj, <name that is a constant string on this path>) is the attribute access obj.<name>"""
        if isinstance(n, ast.Call) and isinstance(n.func, ast.Name) and n.func.id == "getattr" and "getattr" not in st.locs and len(n.args) == 2 and not n.keywords:
            self.silent += 1
            try:
                nm = self.ev(n.args[1], st.copy())
            finally:
                self.silent -= 1
            if T.is_pure_const(nm) and isinstance(T.const_py(nm), str) and T.const_py(nm).isidentifier():
                return ast.copy_location(ast.Attribute(value=n.args[0], attr=T.const_py(nm), ctx=ast.Load()), n)
        if isinstance(n, ast.Call) and isinstance(n.func, ast.Name) and n.func.id == "getattr" and "getattr" not in st.locs and len(n.args) == 3 and not n.keywords \
                and isinstance(n.args[0], ast.Name) and n.args[0].id == "self" and isinstance(n.args[1], ast.Constant) and isinstance(n.args[1].value, str) \
                and n.args[1].value.isidentifier() and self.recv is not None:
            # getattr(self, "<name>", default) where <name> always exists on the receiver (a property of its class, or an attribute
            # the class's constructors have set on this path): the default is dead, the call is self.<name>
            nm = n.args[1].value
            if self.prog.find_property(self.recv, nm) is not None or nm in st.attrs:
                return ast.copy_location(ast.Attribute(value=n.args[0], attr=nm, ctx=ast.Load()), n)
        return None

    def _first_match(self, e, st):
        """next((elt for x in <literal table> if cond), default): the element of the first row whose condition holds"""
        if not (isinstance(e.func, ast.Name) and e.func.id == "next" and "next" not in st.locs and len(e.args) in (1, 2) and not e.keywords
                and isinstance(e.args[0], ast.GeneratorExp) and len(e.args[0].generators) == 1):
            return None
        g = e.args[0].generators[0]
        save = len(self.trace.events)
        itv = self.ev(g.iter, st)
        ia = itv.single_atom()
        if ia is None or ia[0] not in ("tuple", "list") or not (1 <= len(ia[1]) <= 6) or len(e.args) != 2:
            return None
        rows = []
        sub = State(st.attrs, dict(st.locs))
        mark = len(self.pc)
        for x in ia[1]:
            self.assign(g.target, x, sub, e, quiet=True)
            cnd = T.mk_and([self.ev(c_, sub) for c_ in g.ifs]) if g.ifs else T.TRUE
            self.push_pc(cnd, True, e)
            val = self.ev(e.args[0].elt, sub)
            del self.pc[-1:]
            rows.append((cnd, val))
            self.push_pc(cnd, False, e)   # later rows are looked at only when this one did not match
        default = self.ev(e.args[1], sub)
        del self.pc[mark:]
        st.attrs = sub.attrs
        out = default
        for cnd, val in reversed(rows):
            out = T.mk_ite(cnd, val, out)
        return out

    def ev_Call(self, e, st):
        f = e.func
        fm = self._first_match(e, st)
        if fm is not None:
            return fm
        g = self._static_getattr(f, st)
        if g is not None:
            e2 = ast.copy_location(ast.Call(func=g, args=e.args, keywords=e.keywords), e)
            for fld in ("end_lineno", "end_col_offset"):
                if hasattr(e, fld):
                    setattr(e2, fld, getattr(e, fld))
            return self.ev_Call(e2, st)
        g = self._static_getattr(e, st)
        if g is not None:
            return self.ev(g, st)
        # super().m(...)
        if isinstance(f, ast.Attribute) and isinstance(f.value, ast.Call) and isinstance(f.value.func, ast.Name) and f.value.func.id == "super" and self.recv is not None:
            args, kwargs = self.ev_args(e, st)
            defcls = self._defining_class()
            tgt = self.prog.lookup(self.recv, f.attr, after=defcls)
            if tgt is None:
                # object.__init__ and friends
                self.emit("call", e, callee=("super-external", f.attr), args=tuple(args), kwargs=_kw(kwargs), result=T.NONE, fi=None)
                return T.NONE
            return self._inline(tgt, True, args, kwargs, st, e, ("super", tgt.qualname))
        # self.m(...)
        if isinstance(f, ast.Attribute) and self.is_self(f.value, st) and self.recv is not None:
            tgt = self.prog.lookup(self.recv, f.attr)
            if tgt is not None and self.prog.find_property(self.recv, f.attr) is None:
                args, kwargs = self.ev_args(e, st)
                if tgt.is_static:
                    return self._inline(tgt, False, args, kwargs, st, e, ("static", tgt.qualname))
                if tgt.is_classmethod:
                    return self._inline(tgt, True, args, kwargs, st, e, ("classmethod", tgt.qualname))
                return self._inline(tgt, True, args, kwargs, st, e, ("self", tgt.qualname))
            # callable stored in an attribute
            fv = self.load_attr(f.attr, st, f)
            args, kwargs = self.ev_args(e, st)
            return self._call_value(fv, args, kwargs, st, e)
        # dotted: module function, Class.method(self, ...), Class(...)
        d = None
        if isinstance(f, (ast.Name, ast.Attribute)):
            root = f
            while isinstance(root, ast.Attribute):
                root = root.value
            if isinstance(root, ast.Name) and root.id not in st.locs:
                d = self.prog.dotted(self.frames[-1].func.module, f)
        if d is not None:
            args, kwargs = self.ev_args(e, st)
            return self._call_dotted(d, args, kwargs, st, e)
        if isinstance(f, ast.Name) and f.id not in st.locs:
            mi_ = self.frames[-1].func.module
            nt = _namedtuple_fields(mi_.globals[f.id]) if f.id in mi_.globals else None
            if nt is not None:
                # a module-level namedtuple: its instances are tuples whose fields can also be read by name
                args, kwargs = self.ev_args(e, st)
                vals = list(args) + [None] * (len(nt) - len(args))
                for k_, v_ in kwargs.items():
                    if k_ in nt and vals[nt.index(k_)] is None:
                        vals[nt.index(k_)] = v_
                if len(vals) != len(nt) or any(v_ is None for v_ in vals):
                    raise AnalysisError("namedtuple %s constructed with arguments that cannot be bound at line %d" % (f.id, e.lineno))
                t_ = atom(("tuple", tuple(vals)))
                self._nt_fields[T.akey(t_)] = tuple(nt)
                return t_
            args, kwargs = self.ev_args(e, st)
            return self._call_builtin(f.id, args, kwargs, st, e)
        if isinstance(f, ast.Attribute):
            recv = self.ev(f.value, st)
            args, kwargs = self.ev_args(e, st)
            return self._method_call(recv, f, args, kwargs, st, e)
        fv = self.ev(f, st)
        args, kwargs = self.ev_args(e, st)
        return self._call_value(fv, args, kwargs, st, e)

    def ev_args(self, e, st):
        args = []
        for a in e.args:
            if isinstance(a, ast.Starred):
                v = self.ev(a.value, st)
                aa = v.single_atom()
                if aa is not None and aa[0] in ("tuple", "list"):
                    args.extend(aa[1])
                else:
                    args.append(atom(("starred", v)))
            else:
                args.append(self.ev(a, st))
        kwargs = {}
        for k in e.keywords:
            if k.arg is None:
                dv = self.ev(k.value, st)
                da = dv.single_atom()
                if da is not None and da[0] == "dict" and all(T.is_pure_const(k_) and isinstance(T.const_py(k_), str) for k_, _v in da[1]):
                    for k_, v_ in da[1]:
                        kwargs[T.const_py(k_)] = v_   # f(**{"a": x}) is f(a=x)
                else:
                    kwargs["**"] = dv
            else:
                kwargs[k.arg] = self.ev(k.value, st)
        return args, kwargs

    def _defining_class(self):
        for fr in reversed(self.frames):
            f = fr.func
            while f.parent is not None:
                f = f.parent
            if f.cls is not None:
                return f.cls
        return None

    def _inline(self, tgt, has_self, args, kwargs, st, node, callee):
        self.emit("call", node, callee=callee, fi=tgt, args=tuple(args), kwargs=_kw(kwargs), result=None)
        v, st2 = self.call_function(tgt, has_self, args, kwargs, st, node)
        if st2 is None:
            # callee never returns normally
            self.emit("noreturn", node, callee=callee)
            st.attrs = dict(st.attrs)
            st.attrs["__dead__"] = T.TRUE
            return v
        st.attrs = st2.attrs
        return v

    def _call_dotted(self, d, args, kwargs, st, node):
        prog = self.prog
        # Class.method(...)
        mod, _, name = d.rpartition(".")
        ci = prog.class_by_dotted(mod)
        if ci is not None:
            tgt = prog.lookup(ci, name)
            if tgt is not None:
                if tgt.is_static:
                    return self._inline(tgt, False, args, kwargs, st, node, ("static", tgt.qualname))
                if tgt.is_classmethod:
                    return self._inline(tgt, True, args, kwargs, st, node, ("classmethod", tgt.qualname))
                # explicit base call Class.m(self, ...)
                if args and args[0].single_atom() == ("self",) and self.recv is not None and ci in self.recv.mro:
                    return self._inline(tgt, True, args[1:], kwargs, st, node, ("explicit", tgt.qualname))
                res = atom(("call", d, tuple(args), _kw(kwargs)))
                self.emit("call", node, callee=("unbound", tgt.qualname), fi=tgt, args=tuple(args), kwargs=_kw(kwargs), result=res)
                return res
        ci = prog.class_by_dotted(d)
        if ci is not None:
            res = atom(("new", ci.name, tuple(args), _kw(kwargs)))
            self.emit("call", node, callee=("new", ci.name), fi=prog.lookup(ci, "__init__"), args=tuple(args), kwargs=_kw(kwargs), result=res)
            return res
        fi = prog.func_by_dotted(d)
        if fi is not None:
            return self._inline(fi, False, args, kwargs, st, node, ("function", fi.qualname))
        return self._lib_call(d, args, kwargs, st, node)

    def _call_builtin(self, name, args, kwargs, st, node):
        fr = self.frames[-1]
        # nested function of an enclosing frame
        f = fr.func
        while f is not None:
            if name in f.nested:
                return self._call_closure(f.nested[name], args, kwargs, st, node)
            f = f.parent
        return self._lib_call(name, args, kwargs, st, node)

    _closure_envs = {}

    def _call_closure(self, fi, args, kwargs, st, node):
        self.emit("call", node, callee=("closure", fi.qualname), fi=fi, args=tuple(args), kwargs=_kw(kwargs), result=None)
        env = st.locs
        rec = self._closure_envs.get(fi.qualname)
        if rec is not None and rec[0] is not self.frames[-1].func:
            # called from another function (passed as an argument): its free variables are those of the function that defined it
            env = rec[1]
        v, st2 = self.call_function(fi, False, args, kwargs, st, node, closure_locs=env)
        if st2 is not None:
            st.attrs = st2.attrs
        return v

    def _lib_call(self, d, args, kwargs, st, node):
        if d.startswith("builtins."):
            d = d[len("builtins."):]
        d = CANON.get(d, d)
        if d == "float" and len(args) == 1 and T.is_pure_const(args[0]) and not args[0].is_const():
            v = T.const_py(args[0])
            if isinstance(v, str) and v.lower() in ("inf", "-inf", "nan", "infinity"):
                res = const(float(v))
                return res
        if d == "numpy.power" and len(args) == 2 and not kwargs:
            return self.binop(ast.Pow, args[0], args[1], node)
        if d == "numpy.add" and len(args) == 2 and not kwargs:
            res = args[0] + args[1]
            self.emit("call", node, callee=("lib", d), fi=None, args=tuple(args), kwargs=_kw(kwargs), result=res)
            return res
        if d == "joblib.delayed" and len(args) == 1:
            return args[0]
        if d == "bool" and len(args) == 1 and not kwargs and T._boolish(args[0]):
            return args[0]
        if d == "bool" and len(args) == 1 and not kwargs and T.is_pure_const(args[0]):
            return const(bool(T.const_py(args[0])))
        if d == "getattr" and len(args) in (2, 3) and not kwargs and self.frames and len(self.frames) == 1 and \
                (args[1].single_atom() or ("",))[0] == "param":
            # a helper taking the attribute name as a parameter, evaluated on its own: the read is opaque here (its call sites,
            # where the name is a constant, are resolved by _static_getattr)
            res = atom(("call", "getattr", tuple(args), ()))
            self.emit("call", node, callee=("lib", "getattr"), fi=None, args=tuple(args), kwargs=(), result=res)
            return res
        if d == "setattr" and len(args) == 3 and not kwargs and args[0].single_atom() == ("self",) and T.is_pure_const(args[1]) \
                and isinstance(T.const_py(args[1]), str) and T.const_py(args[1]).isidentifier():
            # setattr(self, "<constant name>", v)  ==  self.<name> = v
            self.store_attr(T.const_py(args[1]), args[2], st, node)
            return T.NONE
        if d == "getattr" or d == "setattr":
            raise AnalysisError("dynamic attribute access (%s) at line %d" % (d, node.lineno))
        if d == "int" and len(args) == 1 and not kwargs and not args[0].is_const():
            # int(len(x) / k) == len(x) // k for a positive integer k (a length is a non-negative integer)
            x = args[0]
            if x.den == (((), T.Fraction(1)),) and len(x.num) == 1:
                (m, coef), = x.num
                if len(m) == 1 and m[0][1] == 1 and m[0][0][0] == "call" and m[0][0][1] == "len" and coef.numerator == 1 and coef.denominator > 1:
                    return atom(("floordiv", atom(m[0][0]), const(coef.denominator)))
        if d == "numpy.full" and len(args) == 2 and not kwargs and args[0].is_const() and args[0].const_value().denominator == 1 and 1 <= int(args[0].const_value()) <= 8:
            # np.full(2, v) == np.array([v, v])
            res = atom(("call", "numpy.array", (atom(("list", tuple(args[1] for _ in range(int(args[0].const_value()))))),), ()))
            self.emit("call", node, callee=("lib", "numpy.array"), fi=None, args=res.single_atom()[2], kwargs=(), result=res)
            return res
        if d == "len" and len(args) == 1 and not kwargs and (args[0].single_atom() or ("",))[0] == "ite":
            ia_ = args[0].single_atom()   # len(a if c else b) == len(a) if c else len(b)
            return T.mk_ite(ia_[1], self._lib_call("len", [ia_[2]], {}, st, node), self._lib_call("len", [ia_[3]], {}, st, node))
        if d == "len" and len(args) == 1 and not kwargs:
            # len(np.array(x)) == len(list(x)) == len(x);  len(x + c) == len(c * x) == len(x) for elementwise arithmetic with a scalar
            x = args[0]
            for _ in range(6):
                xa = x.single_atom()
                if xa is not None and xa[0] == "call" and xa[1] in ("numpy.array", "numpy.asarray") and len(xa[2]) == 1 and not xa[3]:
                    x = xa[2][0]
                    continue
                if xa is None and not x.is_const() and x.den == (((), T.Fraction(1)),):
                    monos = [m for m, _c in x.num if m]
                    if len(monos) == 1 and len(monos[0]) == 1 and monos[0][0][1] == 1 and monos[0][0][0][0] in ("call", "param", "attr", "getattr", "sub", "mcall"):
                        x = atom(monos[0][0][0])
                        continue
                break
            if x is not args[0]:
                xa = x.single_atom()
                if xa is not None and xa[0] in ("list", "tuple"):
                    return const(len(xa[1]))
                res = atom(("call", "len", (x,), ()))
                self.emit("call", node, callee=("lib", "len"), fi=None, args=(x,), kwargs=(), result=res)
                return res
        if d == "map" and len(args) == 2 and not kwargs:
            la = args[1].single_atom()
            if la is not None and la[0] in ("tuple", "list") and 1 <= len(la[1]) <= 6:
                # map(f, (a, b)) consumed here: [f(a), f(b)]
                return atom(("list", tuple(self._call_value(args[0], [x], {}, st, node) for x in la[1])))
        if d in ("numpy.ravel", "numpy.copy") and len(args) == 1 and not kwargs and (args[0].single_atom() or ("",))[0] in ("call", "mcall", "sub", "getattr", "param", "attr", "ite"):
            if d == "numpy.ravel":
                # np.ravel(x) is x.ravel() for arrays
                res = atom(("mcall", args[0], "ravel", (), ()))
                self.emit("call", node, callee=("mcall", "ravel"), fi=None, recv=args[0], args=(), kwargs=(), result=res)
                return res
        if d == "dict.fromkeys" and 1 <= len(args) <= 2 and not kwargs:
            ka = args[0].single_atom()
            if ka is not None and ka[0] in ("tuple", "list") and len(ka[1]) <= 12:
                # dict.fromkeys(("a", "b"), v) is {"a": v, "b": v}
                return atom(("dict", tuple((k_, args[1] if len(args) == 2 else T.NONE) for k_ in ka[1])))
        if d == "isinstance" and len(args) == 2 and not kwargs:
            ta = args[1].single_atom()
            if ta is not None and ta[0] == "tuple" and 1 <= len(ta[1]) <= 6:
                # isinstance(x, (A, B)) is isinstance(x, A) or isinstance(x, B)
                return T.mk_or([self._lib_call("isinstance", [args[0], t_], {}, st, node) for t_ in ta[1]])
        if d == "sum" and len(args) == 1 and not kwargs:
            la = args[0].single_atom()
            if la is not None and la[0] in ("tuple", "list") and 1 <= len(la[1]) <= 8 and not any((x.single_atom() or ("",))[0] in ("starred", "list", "tuple") for x in la[1]):
                out = const(0)
                for x in la[1]:
                    out = out + x   # sum([a, b]) is a + b
                return out
        if d == "list" and len(args) == 1 and not kwargs:
            la = args[0].single_atom()
            if la is not None and la[0] == "list" and len(la[1]) == 1 and (la[1][0].single_atom() or ("",))[0] == "starred":
                return self._lib_call("list", [la[1][0].single_atom()[1]], {}, st, node)
        if d in ("any", "all") and len(args) == 1 and not kwargs:
            la = args[0].single_atom()
            if la is not None and la[0] == "flist" and all(T._boolish(v_) for _c, v_ in la[1]):
                if d == "any":
                    return T.mk_or([T.mk_and([c_, v_]) for c_, v_ in la[1]])
                return T.mk_and([T.mk_or([T.mk_not(c_), v_]) for c_, v_ in la[1]])
            if la is not None and la[0] in ("tuple", "list") and len(la[1]) <= 8 and all(T._boolish(x) for x in la[1]):
                # any([a, b]) is a or b (no short-circuit matters for side-effect-free comparisons)
                return (T.mk_or if d == "any" else T.mk_and)(list(la[1])) if la[1] else const(d == "all")
        if d == "zip" and len(args) >= 2 and not kwargs:
            lits = [x.single_atom() for x in args]
            if all(l is not None and l[0] in ("tuple", "list") for l in lits) and len({len(l[1]) for l in lits}) == 1 and len(lits[0][1]) <= 8:
                # zip of literal collections of one length is the literal collection of the tuples
                return atom(("tuple", tuple(atom(("tuple", tuple(l[1][i] for l in lits))) for i in range(len(lits[0][1])))))
        if d in ("tuple", "list") and len(args) == 1 and not kwargs:
            la = args[0].single_atom()
            if la is not None and la[0] in ("tuple", "list") and not any((x.single_atom() or ("",))[0] == "starred" for x in la[1]):
                return atom((d, la[1]))  # tuple([a, b]) is (a, b); list((a, b)) is [a, b]
        if d == "slice" and not kwargs and 1 <= len(args) <= 3:
            # slice(a, b) is the object x[a:b] subscripts with
            lo, hi, stp = (T.NONE, args[0], T.NONE) if len(args) == 1 else (args[0], args[1], args[2] if len(args) == 3 else T.NONE)
            return atom(("slice", lo, hi, stp))
        if d == "abs" and len(args) == 1 and not kwargs:
            res = T.mk_abs(args[0])  # |x| = |-x|: canonical sign
            self.emit("call", node, callee=("lib", d), fi=None, args=tuple(args), kwargs=(), result=res)
            return res
        a = tuple(args)
        if d in COMMUTATIVE:
            a = tuple(sorted(a, key=T.akey))
        res = atom(("call", d, a, _kw(kwargs)))
        self.emit("call", node, callee=("lib", d), fi=None, args=tuple(args), kwargs=_kw(kwargs), result=res)
        return res

    def _call_value(self, fv, args, kwargs, st, node):
        a = fv.single_atom()
        if a is not None and a[0] == "sub":
            tab = a[1].single_atom()
            if tab is not None and tab[0] == "dict" and 1 <= len(tab[1]) <= 6 and all(T.is_pure_const(k_) for k_, _v in tab[1]) and all(
                    (v_.single_atom() or ("",))[0] in ("closure", "boundmethod", "global", "lambda") for _k, v_ in tab[1]):
                # {"a": f, "b": g}[key](x): a dispatch table - f(x) if key == "a" else g(x) ... (a missing key raises: not a normal path)
                chain = tab[1][-1][1]
                for k_, v_ in reversed(tab[1][:-1]):
                    chain = T.mk_ite(T.mk_cmp("==", a[2], k_), v_, chain)
                if (chain.single_atom() or ("",))[0] in ("ite", "closure", "boundmethod", "global", "lambda"):
                    return self._call_value(chain, args, kwargs, st, node)
        if a is not None and a[0] == "ite" and all((x.single_atom() or ("",))[0] in ("closure", "boundmethod", "global", "lambda", "ite") for x in (a[2], a[3])):
            # f = g if c else h; f(x)  ==  g(x) if c else h(x)
            mark = len(self.pc)
            self.push_pc(a[1], True, node)
            s1 = st.copy()
            v1 = self._call_value(a[2], args, kwargs, s1, node)
            del self.pc[mark:]
            self.push_pc(a[1], False, node)
            s2 = st.copy()
            v2 = self._call_value(a[3], args, kwargs, s2, node)
            del self.pc[mark:]
            st.attrs = self._merge_maps(a[1], s1.attrs, s2.attrs)
            st.locs = self._merge_locs(a[1], s1.locs, s2.locs)
            return T.mk_ite(a[1], v1, v2)
        if a is not None:
            if a[0] == "closure":
                fi = self._find_closure(a[1])
                if fi is not None:
                    return self._call_closure(fi, args, kwargs, st, node)
            if a[0] == "boundmethod" and self.recv is not None:
                tgt = self.prog.lookup(self.recv, a[1])
                if tgt is not None:
                    return self._inline(tgt, not tgt.is_static, args, kwargs, st, node, ("self", tgt.qualname))
            if a[0] == "global":
                return self._call_dotted(a[1], args, kwargs, st, node)
            if a[0] == "getattr" and isinstance(a[2], str):
                # m = obj.method (or getattr(obj, "method")); m(...)  is  obj.method(...)
                fake = ast.copy_location(ast.Attribute(value=ast.Constant(value=None), attr=a[2], ctx=ast.Load()), node)
                return self._method_call(a[1], fake, list(args), dict(kwargs), st, node)
            if a[0] == "lambda" and a[1] == "identity" and len(args) == 1:
                return args[0]
            if a[0] == "lambda" and a[1] in self._lambdas and not kwargs:
                lam, owner = self._lambdas[a[1]]
                if len(lam.args.args) == len(args):
                    sub = State(st.attrs, dict(zip((x.arg for x in lam.args.args), args)))
                    self.frames.append(Frame(owner, self.recv, False, node, len(self.pc)))
                    try:
                        v = self.ev(lam.body, sub)
                    finally:
                        self.frames.pop()
                    st.attrs = sub.attrs
                    return v
        res = atom(("call", "<dynamic>", (fv,) + tuple(args), _kw(kwargs)))
        self.emit("call", node, callee=("dynamic", fv), fi=None, args=tuple(args), kwargs=_kw(kwargs), result=res)
        return res

    def _find_closure(self, qualname):
        for fr in reversed(self.frames):
            f = fr.func
            while f is not None:
                for n in f.nested.values():
                    if n.qualname == qualname:
                        return n
                f = f.parent
        return None

    def _is_module_var(self, dotted):
        mod, _, name = dotted.rpartition(".")
        mi = self.prog.modules.get(mod)
        return mi is not None and name in mi.globals

    def attr_types(self):
        """attribute -> repository class, from `self.x = Cls(...)` stores in
        the receiver's MRO (fail-closed: conflicting types -> absent)."""
        if self._attr_types is None:
            tab = {}
            bad = set()
            for c in self.recv.mro if self.recv else []:
                for fi in c.methods.values():
                    local_cls = {}   # locals bound once to a constructor call: `p = Cls(...); self.x = p`
                    for n in ast.walk(fi.node):
                        if isinstance(n, ast.Assign) and isinstance(n.value, ast.Call) and len(n.targets) == 1 and isinstance(n.targets[0], ast.Name):
                            d = self.prog.dotted(c.module, n.value.func)
                            tc = self.prog.class_by_dotted(d) if d else None
                            nm = n.targets[0].id
                            local_cls[nm] = tc if nm not in local_cls else None
                        elif isinstance(n, (ast.Assign, ast.AugAssign, ast.For)) :
                            for t_ in ast.walk(n.targets[0] if isinstance(n, ast.Assign) else n.target):
                                if isinstance(t_, ast.Name) and isinstance(t_.ctx, ast.Store) and not (isinstance(n, ast.Assign) and isinstance(n.value, ast.Call) and len(n.targets) == 1):
                                    local_cls[t_.id] = None
                    for n in ast.walk(fi.node):
                        if isinstance(n, ast.Assign) and isinstance(n.value, ast.Name) and local_cls.get(n.value.id) is not None:
                            tc = local_cls[n.value.id]
                            for t in n.targets:
                                if isinstance(t, ast.Attribute) and isinstance(t.value, ast.Name) and t.value.id == "self":
                                    if t.attr in tab and tab[t.attr] is not tc:
                                        bad.add(t.attr)
                                    tab[t.attr] = tc
                    for n in ast.walk(fi.node):
                        if isinstance(n, ast.Assign) and isinstance(n.value, ast.Call):
                            d = self.prog.dotted(c.module, n.value.func)
                            tc = self.prog.class_by_dotted(d) if d else None
                            for t in n.targets:
                                if isinstance(t, ast.Attribute) and isinstance(t.value, ast.Name) and t.value.id == "self":
                                    if tc is None:
                                        continue
                                    if t.attr in tab and tab[t.attr] is not tc:
                                        bad.add(t.attr)
                                    tab[t.attr] = tc
            for b in bad:
                tab.pop(b, None)
            self._attr_types = tab
        return self._attr_types

    def _obj_class(self, recv):
        a = recv.single_atom()
        if a is None:
            return None
        if a[0] == "new":
            return self.prog.classes.get(a[1])
        if a[0] == "objstate":
            return self.prog.classes.get(a[1])
        if a[0] == "attr" and self.recv is not None:
            return self.attr_types().get(a[1])
        if a[0] == "ite":
            c1 = self._obj_class(a[2])
            c2 = self._obj_class(a[3])
            return c1 or c2
        return None

    def _method_call(self, recv, f, args, kwargs, st, node):
        name = f.attr
        ra = recv.single_atom()
        if ra is not None and ra[0] == "global" and not self._is_module_var(ra[1]):
            return self._call_dotted(ra[1] + "." + name, args, kwargs, st, node)
        ci = self._obj_class(recv)
        if name == "reshape" and len(args) == 1 and not kwargs and (args[0].single_atom() or ("",))[0] == "tuple":
            args = list(args[0].single_atom()[1])   # x.reshape((a, b)) is x.reshape(a, b)
        res = atom(("mcall", recv, name, tuple(args), _kw(kwargs)))
        if name in _ARRAY_REDUCTIONS and ci is None and (ra is None or ra[0] not in ("global", "dict", "list", "tuple", "set")):
            # x.sum(axis=1) is numpy.sum(x, axis=1) for arrays, frames and series alike: one normal form for both spellings
            res = atom(("call", "numpy." + name, (recv,) + tuple(args), _kw(kwargs)))
        if name in ("items", "keys", "values") and ci is None and not args and not kwargs and ra is not None and ra[0] == "dict" \
                and all(T.is_pure_const(k_) for k_, _v in ra[1]) and len(ra[1]) <= 12:
            # the entries of a literal table, in order
            if name == "items":
                return atom(("tuple", tuple(atom(("tuple", (k_, v_))) for k_, v_ in ra[1])))
            return atom(("tuple", tuple((k_ if name == "keys" else v_) for k_, v_ in ra[1])))
        if name == "get" and ci is None and len(args) in (1, 2) and not kwargs:
            # d.get(k, default)  ==  d[k] if k in d else default   (default None when not given)
            dflt = args[1] if len(args) == 2 else T.NONE
            ra_ = recv.single_atom()
            if ra_ is not None and ra_[0] == "dict" and T.is_pure_const(args[0]) and all(T.is_pure_const(k_) for k_, _v in ra_[1]):
                hit = [v_ for k_, v_ in ra_[1] if k_ == args[0]]
                res = hit[0] if hit else dflt
            else:
                res = T.mk_ite(atom(("in", args[0], recv)), self.mk_sub(recv, args[0]), dflt)
        tgt = None
        mutates = name in MUTATORS
        if ci is not None:
            tgt = self.prog.lookup(ci, name)
            if tgt is not None:
                mutates = _writes_self(self.prog, ci, tgt, set())
        callee = ("foreign", ci.name, name) if ci is not None else ("mcall", name)
        if (name == "pop" and ci is None and len(args) == 1 and args[0] == const(0) and not kwargs and isinstance(f.value, ast.Attribute)
                and self.is_self(f.value.value, st) and (recv.single_atom() or ("",))[0] != "dict"):
            # x = self.seq.pop(0)  ==  x = self.seq[0]; self.seq = self.seq[1:]
            res = self.mk_sub(recv, const(0))
            self.emit("call", node, callee=callee, fi=tgt, recv=recv, args=tuple(args), kwargs=_kw(kwargs), result=res)
            self.store_attr(f.value.attr, atom(("sub", recv, atom(("slice", const(1), T.NONE, T.NONE)))), st, node)
            return res
        self.emit("call", node, callee=callee, fi=tgt, recv=recv, args=tuple(args), kwargs=_kw(kwargs), result=res)
        if mutates:
            root, path = self._root(f.value, st) if isinstance(f.value, (ast.Attribute, ast.Subscript, ast.Name)) else (("value", recv), [])
            if name == "append" and len(args) == 1 and not path[1:] and root[0] in ("self", "local"):
                newv = atom(("appended", recv, args[0]))
            elif ci is not None:
                newv = atom(("objstate", ci.name, recv, res))
            else:
                newv = atom(("mutated", recv, (), "method:" + name, atom(("tuple", tuple(args)))))
            if root[0] == "self":
                field = self.prog.backing_field(self.recv, root[1]) or root[1]
                p = tuple(x for x in path if x[0] != "attr0")
                if p:
                    newv = atom(("mutated", st.attrs.get(field, atom(("attr", field))), p, "method:" + name, atom(("tuple", tuple(args)))))
                st.attrs[field] = newv
                if self._alias_local is not None and self._alias_local[1] == field:
                    st.locs[self._alias_local[0]] = newv
                self._alias_local = None
                if self.attr_writes is not None:
                    self.attr_writes.add(field)
                self.emit("mutate", node, attr=field, how="method:" + name, path=p, value=atom(("tuple", tuple(args))), aug=None, old=recv, kwargs=_kw(kwargs))
            elif root[0] == "local":
                old = st.locs.get(root[1])
                if path:
                    newv = atom(("mutated", old if old is not None else atom(("undef", root[1])), tuple(path), "method:" + name, atom(("tuple", tuple(args)))))
                st.locs[root[1]] = newv
                if self.local_writes is not None:
                    self.local_writes.add(root[1])
                self.emit("localmut", node, name=root[1], how="method:" + name, path=tuple(path), value=atom(("tuple", tuple(args))), aug=None, old=old, kwargs=_kw(kwargs))
            else:
                self.emit("localmut", node, name=None, how="method:" + name, path=tuple(path), value=atom(("tuple", tuple(args))), aug=None, old=recv, kwargs=_kw(kwargs))
        return res


_CHEAP_CALLS = frozenset(("setattr", "getattr", "list", "dict", "set", "tuple", "len", "int", "float", "bool", "str", "append", "copy", "isinstance"))


def _cheap_body(loop):
    """a loop body of at most three simple statements whose only calls are attribute plumbing (setattr / getattr / append ...)"""
    if len(loop.body) > 3:
        return False
    for st_ in loop.body:
        if not isinstance(st_, (ast.Expr, ast.Assign, ast.AugAssign, ast.If)):
            return False
        for n in ast.walk(st_):
            if isinstance(n, ast.Call):
                nm = n.func.id if isinstance(n.func, ast.Name) else (n.func.attr if isinstance(n.func, ast.Attribute) else None)
                if nm not in _CHEAP_CALLS:
                    return False
    return True


_GEN_BODIES = {}


def _generator_body(fn):
    """A generator function whose yields are all plain `yield <value>` statements, consumed in full, produces the list of the
    values yielded in order: its body with `__gen__ = []` first, `__gen__.append(<value>)` for each yield and `return __gen__`
    at every exit.  (Laziness only interleaves its side effects with the consumer's; the values and their order are these.)
    None for a function that is not a generator, or uses another form of yield."""
    if id(fn) in _GEN_BODIES:
        return _GEN_BODIES[id(fn)][1]
    own = []
    def walk(n):
        for ch in ast.iter_child_nodes(n):
            if isinstance(ch, (ast.FunctionDef, ast.AsyncFunctionDef, ast.Lambda, ast.ClassDef)):
                continue
            own.append(ch)
            walk(ch)
    walk(fn)
    ys = [n for n in own if isinstance(n, (ast.Yield, ast.YieldFrom))]
    body = None
    if ys:
        stmt_yields = {id(n.value) for n in own if isinstance(n, ast.Expr) and isinstance(n.value, ast.Yield) and n.value.value is not None}
        if all(isinstance(y, ast.Yield) and id(y) in stmt_yields for y in ys) and not any(isinstance(n, ast.Return) and n.value is not None for n in own):
            import copy as _copy

            class Rw(ast.NodeTransformer):
                def visit_FunctionDef(self, n):
                    return n
                visit_AsyncFunctionDef = visit_Lambda = visit_ClassDef = visit_FunctionDef

                def visit_Expr(self, n):
                    if isinstance(n.value, ast.Yield):
                        call = ast.Call(func=ast.Attribute(value=ast.Name(id="__gen__", ctx=ast.Load()), attr="append", ctx=ast.Load()),
                                        args=[n.value.value], keywords=[])
                        return ast.copy_location(ast.Expr(value=ast.copy_location(call, n)), n)
                    return n

                def visit_Return(self, n):
                    return ast.copy_location(ast.Return(value=ast.copy_location(ast.Name(id="__gen__", ctx=ast.Load()), n)), n)

            new = [Rw().visit(_copy.deepcopy(s)) for s in fn.body]
            first = ast.Assign(targets=[ast.Name(id="__gen__", ctx=ast.Store())], value=ast.List(elts=[], ctx=ast.Load()))
            last = ast.Return(value=ast.Name(id="__gen__", ctx=ast.Load()))
            for x in (first, last):
                ast.copy_location(x, fn.body[0] if x is first else fn.body[-1])
            body = [first] + new + [last]
            for s in body:
                ast.fix_missing_locations(s)
    _GEN_BODIES[id(fn)] = (fn, body)
    return body


def _reflects_on_target(loop):
    """the loop variable names an attribute: getattr(obj, <loop variable>) / setattr(...) in the body (a table of attribute names)"""
    tnames = {n.id for n in ast.walk(loop.target) if isinstance(n, ast.Name)}
    if len(loop.body) > 6:
        return False
    for st_ in loop.body:
        for n in ast.walk(st_):
            if isinstance(n, ast.Call) and isinstance(n.func, ast.Name) and n.func.id in ("getattr", "setattr", "hasattr") and len(n.args) >= 2:
                if any(isinstance(x, ast.Name) and x.id in tnames for x in ast.walk(n.args[1])):
                    return True
    return False


def _match_as_if(s):
    """`match subject:` with literal / None / alternative / wildcard patterns and no guards, as the equivalent if-chain"""
    if not isinstance(s.subject, (ast.Name, ast.Attribute)):
        return None

    def test(p):
        if isinstance(p, ast.MatchValue) and isinstance(p.value, ast.Constant):
            return ast.Compare(left=s.subject, ops=[ast.Eq()], comparators=[p.value])
        if isinstance(p, ast.MatchSingleton):
            return ast.Compare(left=s.subject, ops=[ast.Is()], comparators=[ast.Constant(value=p.value)])
        if isinstance(p, ast.MatchOr):
            ts = [test(x) for x in p.patterns]
            return None if any(t is None or t is True for t in ts) else ast.BoolOp(op=ast.Or(), values=ts)
        if isinstance(p, ast.MatchAs) and p.pattern is None and p.name is None:
            return True
        return None
    out = None
    for case in reversed(s.cases):
        if case.guard is not None:
            return None
        t = test(case.pattern)
        if t is None:
            return None
        if t is True:
            out = list(case.body)
        else:
            node = ast.If(test=t, body=list(case.body), orelse=out or [])
            ast.copy_location(node, case.body[0])
            ast.fix_missing_locations(node)
            out = [node]
    return out


def _truth_of_len(c):
    """`if len(x):` tests len(x) != 0"""
    a = c.single_atom() if isinstance(c, R) else None
    if a is not None and a[0] == "call" and a[1] == "len":
        return T.mk_cmp("!=", c, const(0))
    return c


def _pure_literal(n, mi, depth=0):
    """an expression built only from constants, other module-level named literals and tuple / list / dict / set displays"""
    if depth > 6:
        return False
    if isinstance(n, ast.Constant):
        return isinstance(n.value, (str, int, float, bool, type(None)))
    if isinstance(n, (ast.Tuple, ast.List, ast.Set)):
        return all(_pure_literal(x, mi, depth + 1) for x in n.elts)
    if isinstance(n, ast.Dict):
        return all(k is not None and _pure_literal(k, mi, depth + 1) and _pure_literal(v, mi, depth + 1) for k, v in zip(n.keys, n.values))
    if isinstance(n, ast.UnaryOp) and isinstance(n.op, (ast.USub, ast.UAdd)):
        return _pure_literal(n.operand, mi, depth + 1)
    if isinstance(n, ast.Name) and n.id in mi.globals and n.id not in mi.imports:
        return _pure_literal(mi.globals[n.id], mi, depth + 1)
    if isinstance(n, ast.Name) and (n.id in mi.functions or n.id in mi.classes):
        return True   # a table of module-level functions / classes (dispatch tables)
    if isinstance(n, ast.Lambda):
        a = n.args
        if a.vararg or a.kwarg or a.kwonlyargs or a.defaults or a.posonlyargs:
            return False
        import builtins as _b
        params = {x.arg for x in a.args}
        free = {x.id for x in ast.walk(n.body) if isinstance(x, ast.Name)} - params
        return all(x in mi.imports or x in mi.classes or x in mi.functions or x in mi.globals or hasattr(_b, x) for x in free)
    return False


def _namedtuple_fields(n):
    """['a', 'b'] for the expression namedtuple("N", ["a", "b"]) / namedtuple("N", "a b"), else None"""
    if not (isinstance(n, ast.Call) and (isinstance(n.func, ast.Name) and n.func.id == "namedtuple" or isinstance(n.func, ast.Attribute) and n.func.attr == "namedtuple")):
        return None
    if len(n.args) != 2 or n.keywords:
        return None
    f = n.args[1]
    if isinstance(f, ast.Constant) and isinstance(f.value, str):
        return f.value.replace(",", " ").split()
    if isinstance(f, (ast.List, ast.Tuple)) and all(isinstance(x, ast.Constant) and isinstance(x.value, str) for x in f.elts):
        return [x.value for x in f.elts]
    return None


_ARRAY_REDUCTIONS = frozenset(("sum", "mean", "std", "var", "cumsum", "prod", "argmax", "argmin"))
_LOCALS = {}


def _local_names(fi):
    """Names bound by assignment in the function's own scope."""
    r = _LOCALS.get(fi.node)
    if r is None:
        r = set()
        stack = list(fi.node.body)
        while stack:
            n = stack.pop()
            if isinstance(n, (ast.FunctionDef, ast.ClassDef, ast.Lambda)):
                if isinstance(n, ast.FunctionDef):
                    r.add(n.name)
                continue
            if isinstance(n, ast.Name) and isinstance(n.ctx, ast.Store):
                r.add(n.id)
            if isinstance(n, (ast.ListComp, ast.SetComp, ast.DictComp, ast.GeneratorExp)):
                continue
            stack.extend(ast.iter_child_nodes(n))
        _LOCALS[fi.node] = r
    return r


def _numeric_idiom(vals):
    """`n and x / n`, `v or 0`: and/or used for their value on numbers (some operand is arithmetic or a numeric constant)."""
    return any(v.is_const() or v.single_atom() is None for v in vals)


def _as_increment(old, v):
    """x = x + d written as a plain assignment: report it like x += d (d must not depend on x's old value)."""
    if old is None or not isinstance(old, R) or not isinstance(v, R):
        return None
    if old.is_const():
        return None
    oa = old.single_atom()
    if oa is not None and oa[0] in ("const", "undef"):
        return None
    oatoms = old.atoms()
    d = v - old
    if T.mentions(d, lambda a: a in oatoms):
        return None
    if not d.num:
        return None
    return ("Add", d)


def _kw(kwargs):
    return tuple(sorted(kwargs.items()))


def _is_seq(t):
    a = t.single_atom()
    return a is not None and a[0] in ("list", "tuple", "concat") or (a is not None and a[0] == "call" and a[1] == "list")


def _boolish(t):
    a = t.single_atom()
    return a is not None and (a[0] in ("cmp", "and", "or", "not", "in", "notin") or (a[0] == "const" and isinstance(a[1], bool)))


def _as_load(t):
    import copy
    t2 = copy.copy(t)
    t2.ctx = ast.Load()
    return t2


def _trivial_setter(setter, field):
    body = [s for s in setter.node.body if not (isinstance(s, ast.Expr) and isinstance(s.value, ast.Constant))]
    if len(body) != 1 or not isinstance(body[0], ast.Assign):
        return False
    a = body[0]
    params = [x.arg for x in setter.node.args.args]
    return (
        len(a.targets) == 1
        and isinstance(a.targets[0], ast.Attribute)
        and isinstance(a.targets[0].value, ast.Name)
        and a.targets[0].value.id == params[0]
        and a.targets[0].attr == field
        and isinstance(a.value, ast.Name)
        and len(params) == 2
        and a.value.id == params[1]
    )


def _writes_self(prog, ci, fi, seen):
    """Does method fi of class ci (transitively through self calls) store to
    or mutate its own object?"""
    if fi in seen:
        return False
    seen.add(fi)
    params = [x.arg for x in fi.node.args.args]
    if fi.is_static or not params:
        return False
    me = params[0]
    for n in ast.walk(fi.node):
        if isinstance(n, (ast.Attribute, ast.Subscript)) and isinstance(n.ctx, ast.Store):
            r = n
            while isinstance(r, (ast.Attribute, ast.Subscript)):
                r = r.value
            if isinstance(r, ast.Name) and r.id == me:
                return True
        if isinstance(n, ast.Call) and isinstance(n.func, ast.Attribute):
            r = n.func.value
            if isinstance(r, ast.Name) and r.id == me:
                tgt = prog.lookup(ci, n.func.attr)
                if tgt is not None and _writes_self(prog, ci, tgt, seen):
                    return True
            else:
                root = r
                while isinstance(root, (ast.Attribute, ast.Subscript)):
                    root = root.value
                if isinstance(root, ast.Name) and root.id == me and n.func.attr in MUTATORS:
                    return True
    return False
