"""Term domain of the analysis: rational functions over atoms.

Every abstract value is an `R` (numerator / denominator polynomials with
Fraction coefficients over *atoms*).  Atoms are nested tuples whose first
element names the kind:

    ('attr', name)            value of self.<name> at the start of the region
    ('param', name)           a parameter of the analysed entry function
    ('const', v)              non-numeric constant (str, None, True, False, inf)
    ('global', dotted)        imported / module level name
    ('call', fname, args, kw) application of an uninterpreted function
    ('mcall', recv, name, args, kw)   method call on a term
    ('getattr', base, name)
    ('sub', base, index)
    ('slice', lo, hi, step)
    ('tuple', items) ('list', items) ('dict', items) ('set', items)
    ('cmp', op, diff)         diff op 0, op in > >= == !=
    ('and', items) ('or', items) ('not', x)
    ('ite', c, a, b)
    ('in', a, b)
    ('mod', a, b) ('floordiv', a, b) ('pow', a, b)
    ('opaque', tag...)        unknown value (loop havoc, recursion cut, ...)
    ('undef', name)           unassigned local
    ('new', cls, args, kw)    instance of a repository class
    ('closure', qualname)     nested function
    ('comp', kind, elt, iters, conds)
    ('iter', iterable, tag)   element of an iteration
    ('appended', base, item)  list after .append(item)
    ('fstr', parts)

Equality `==` on R is structural on a canonical-ish form (used for hashing);
`same(a, b)` decides algebraic identity by cross-multiplication.
"""
from fractions import Fraction
import math

_KEY = {}


def akey(a):
    """Canonical sort key of an atom / nested structure."""
    k = _KEY.get(a)
    if k is None:
        k = _mk_key(a)
        try:
            _KEY[a] = k
        except TypeError:
            pass
    return k


def _mk_key(a):
    if isinstance(a, R):
        return a.key()
    if isinstance(a, tuple):
        return "(" + ",".join(_mk_key(x) for x in a) + ")"
    if isinstance(a, Fraction):
        return str(a)
    return repr(a)


class BudgetExceeded(Exception):
    """The term algebra used more memory than the budget allows (an exponential case split in the analysed code)."""


_BUDGET = {"n": 0, "mb": 2200, "base": 0}


def _rss_mb():
    try:
        with open("/proc/self/statm") as f:
            return int(f.read().split()[1]) * 4096 // (1 << 20)  # current resident set, MB
    except Exception:
        return None


def budget_baseline():
    """Called at the start of every check context: the budget is what THIS analysis adds, not what an earlier one in the
    same worker process left resident (the allocator does not always return freed memory)."""
    import gc
    gc.collect()
    r = _rss_mb()
    _BUDGET["base"] = min(r or 0, 1400)   # never let a bloated worker hide a real blow-up completely


def _check_budget():
    _BUDGET["n"] += 1
    if _BUDGET["n"] & 0x3FFF:
        return
    rss = _rss_mb()
    if rss is None:
        return
    if rss - _BUDGET["base"] > _BUDGET["mb"]:
        raise BudgetExceeded("term construction exceeded %d MB" % _BUDGET["mb"])


class R:
    __slots__ = ("num", "den", "_k", "_h", "tree")

    def __init__(self, num, den=None):
        _check_budget()
        # num, den: dict monomial -> Fraction ; monomial: tuple of (atom, power)
        if den is None:
            den = {(): Fraction(1)}
        num = {m: c for m, c in num.items() if c != 0}
        den = {m: c for m, c in den.items() if c != 0}
        if not den:
            raise ZeroDivisionError("zero denominator")
        if not num:
            den = {(): Fraction(1)}
        else:
            num, den = _cancel_monomial(num, den)
            # make the denominator's leading coefficient 1
            lead = den[min(den, key=_mono_key)]
            if lead != 1:
                num = {m: c / lead for m, c in num.items()}
                den = {m: c / lead for m, c in den.items()}
        self.num = tuple(sorted(num.items(), key=lambda mc: _mono_key(mc[0])))
        self.den = tuple(sorted(den.items(), key=lambda mc: _mono_key(mc[0])))
        self._k = None
        self._h = None
        self.tree = None  # optional un-normalised expression tree (not part of equality); see with_tree

    def with_tree(self, tree):
        """A copy of this value that remembers how it was written in the source:
        ('add'|'sub'|'mul'|'div', a, b), ('neg', a), ('pow', a, n), ('cmp', op, a, b).  Used by the
        polarity calculus, which needs the structure that normalisation expands away."""
        r = R.__new__(R)
        r.num, r.den, r._k, r._h = self.num, self.den, self._k, self._h
        r.tree = tree
        return r

    # -- structure -------------------------------------------------------
    def key(self):
        if self._k is None:
            n = "+".join(_term_str(m, c) for m, c in self.num) or "0"
            if self.den == (((), Fraction(1)),):
                self._k = n
            else:
                d = "+".join(_term_str(m, c) for m, c in self.den)
                self._k = "[" + n + "]/[" + d + "]"
        return self._k

    def __repr__(self):
        return self.key()

    def __hash__(self):
        if self._h is None:
            self._h = hash(self.key())
        return self._h

    def __eq__(self, o):
        return isinstance(o, R) and self.key() == o.key()

    def is_const(self):
        return self.den == (((), Fraction(1)),) and (
            not self.num or (len(self.num) == 1 and self.num[0][0] == ())
        )

    def const_value(self):
        if not self.num:
            return Fraction(0)
        return self.num[0][1]

    def single_atom(self):
        """Return the atom if this value is exactly one atom, else None."""
        if self.den == (((), Fraction(1)),) and len(self.num) == 1:
            m, c = self.num[0]
            if c == 1 and len(m) == 1 and m[0][1] == 1:
                return m[0][0]
        return None

    def atoms(self):
        s = set()
        for poly in (self.num, self.den):
            for m, _ in poly:
                for a, _p in m:
                    s.add(a)
        return s

    # -- arithmetic ------------------------------------------------------
    def __add__(self, o):
        if self.den == o.den:
            return R(_padd(dict(self.num), dict(o.num)), dict(self.den))
        return R(
            _padd(_pmul(dict(self.num), dict(o.den)), _pmul(dict(o.num), dict(self.den))),
            _pmul(dict(self.den), dict(o.den)),
        )

    def __neg__(self):
        return R({m: -c for m, c in self.num}, dict(self.den))

    def __sub__(self, o):
        return self + (-o)

    def __mul__(self, o):
        return R(_pmul(dict(self.num), dict(o.num)), _pmul(dict(self.den), dict(o.den)))

    def inv(self):
        if not self.num:
            raise ZeroDivisionError
        return R(dict(self.den), dict(self.num))

    def __truediv__(self, o):
        return self * o.inv()

    def __pow__(self, n):
        if n == 0:
            return const(1)
        if n < 0:
            return (self ** (-n)).inv()
        r = const(1)
        b = self
        while n:
            if n & 1:
                r = r * b
            b = b * b
            n >>= 1
        return r


def _mono_key(m):
    return tuple((akey(a), p) for a, p in m)


def _term_str(m, c):
    if not m:
        return str(c)
    s = "*".join(akey(a) + ("^%d" % p if p != 1 else "") for a, p in m)
    return s if c == 1 else "%s*%s" % (c, s)


def _padd(a, b):
    r = dict(a)
    for m, c in b.items():
        r[m] = r.get(m, 0) + c
    return r


def _mmul(m1, m2):
    d = dict(m1)
    for a, p in m2:
        d[a] = d.get(a, 0) + p
    return tuple(sorted(((a, p) for a, p in d.items() if p != 0), key=lambda ap: akey(ap[0])))


def _pmul(a, b):
    r = {}
    for m1, c1 in a.items():
        for m2, c2 in b.items():
            m = _mmul(m1, m2)
            r[m] = r.get(m, 0) + c1 * c2
    return r


def _cancel_monomial(num, den):
    """Divide numerator and denominator by their common monomial content, and
    reduce completely when the denominator is a constant multiple of the
    numerator."""
    # common atom powers
    common = None
    for poly in (num, den):
        for m in poly:
            d = dict(m)
            if common is None:
                common = d
            else:
                common = {a: min(p, d[a]) for a, p in common.items() if a in d}
            if not common:
                break
        if not common:
            break
    if common:
        def strip(m):
            d = dict(m)
            for a, p in common.items():
                d[a] -= p
            return tuple(sorted(((a, p) for a, p in d.items() if p), key=lambda ap: akey(ap[0])))
        num = {strip(m): c for m, c in num.items()}
        den = {strip(m): c for m, c in den.items()}
    if len(num) == len(den) and len(den) > 1 and set(num) == set(den):
        m0 = next(iter(den))
        k = num[m0] / den[m0]
        if all(num[m] == k * den[m] for m in den):
            return {(): k}, {(): Fraction(1)}
    return num, den


# ---------------------------------------------------------------------------
# constructors


def const(v):
    if isinstance(v, bool) or v is None or isinstance(v, str):
        return atom(("const", v))
    if isinstance(v, float):
        if math.isinf(v) or math.isnan(v):
            return atom(("const", v))
        return R({(): Fraction(repr(v))})
    if isinstance(v, int):
        return R({(): Fraction(v)})
    if isinstance(v, Fraction):
        return R({(): v})
    if isinstance(v, bytes) or v is Ellipsis:
        return atom(("const", repr(v)))
    if isinstance(v, complex):
        return atom(("const", repr(v)))
    raise TypeError(v)


def atom(a):
    return R({((a, 1),): Fraction(1)})


TRUE = const(True)
FALSE = const(False)
NONE = const(None)


def is_constbool(t):
    a = t.single_atom()
    if a is not None and a[0] == "const" and isinstance(a[1], bool):
        return a[1]
    return None


def truth(t):
    """Static truth value of a term if it is decided, else None."""
    a = t.single_atom()
    if a is not None and a[0] == "const":
        v = a[1]
        if v is None:
            return False
        if isinstance(v, bool):
            return v
        if isinstance(v, (str, float)):
            return bool(v)
    if t.is_const():
        return t.const_value() != 0
    if a is not None and a[0] in ("tuple", "list", "dict", "set"):
        return len(a[1]) > 0
    if a is not None and a[0] in ("new", "closure"):
        return True
    return None


def is_pure_const(t):
    """A numeric constant or a single ('const', v) atom."""
    if t.is_const():
        return True
    a = t.single_atom()
    return a is not None and a[0] == "const"


def const_py(t):
    """Python value of a pure constant term."""
    if t.is_const():
        v = t.const_value()
        return int(v) if v.denominator == 1 else v
    a = t.single_atom()
    return a[1]


_FLIP = {"<": ">", "<=": ">=", ">": "<", ">=": "<="}
_NEG = {">": "<=", ">=": "<", "<": ">=", "<=": ">", "==": "!=", "!=": "=="}


_NONNULL_CALLS = {"len", "int", "float", "abs", "max", "min", "sum", "round", "sqrt", "log", "exp", "floor", "ceil", "list", "dict", "tuple", "set", "sorted", "range", "bool", "str", "any", "all", "copy.copy", "copy.deepcopy"}
NONNULL = set()  # atoms known not to be None (set by the evaluator per run)


def _boolish(t):
    a = t.single_atom()
    if a is not None and a[0] == "ite":
        return _boolish(a[2]) and _boolish(a[3])
    return a is not None and (a[0] in ("cmp", "and", "or", "not", "in", "notin") or (a[0] == "const" and isinstance(a[1], bool))
                              or (a[0] == "call" and a[1] in ("isinstance", "hasattr", "any", "all", "bool", "callable")))


def _is_slice(i):
    ia = i.single_atom() if isinstance(i, R) else None
    if ia is None:
        return False
    if ia[0] == "slice":
        return True
    return ia[0] == "tuple" and any(_is_slice(x) for x in ia[1])


def mk_cmp(op, a, b):
    """a op b  ->  ('cmp', op', a-b) with op' in > >= == != (or folded)."""
    # distribute over a gated phi when the other side is a constant
    for x, y, sw in ((a, b, False), (b, a, True)):
        ax = x.single_atom()
        if ax is not None and ax[0] == "ite" and is_pure_const(y):
            l = mk_cmp(op, y, ax[2]) if sw else mk_cmp(op, ax[2], y)
            r = mk_cmp(op, y, ax[3]) if sw else mk_cmp(op, ax[3], y)
            return mk_ite(ax[1], l, r)
    if op in ("is", "==", "is not", "!="):
        for x, y in ((a, b), (b, a)):
            if y == NONE and x.single_atom() in NONNULL:
                return const(op in ("is not", "!="))
    if op in ("is",):
        op = "=="
    if op in ("is not",):
        op = "!="
    if op in ("<", "<="):
        a, b = b, a
        op = _FLIP[op]
    # constant folding
    if is_pure_const(a) and is_pure_const(b):
        va, vb = const_py(a), const_py(b)
        try:
            if op == "==":
                return const(va == vb)
            if op == "!=":
                return const(va != vb)
            if op == ">":
                return const(va > vb)
            if op == ">=":
                return const(va >= vb)
        except TypeError:
            pass
    # a freshly constructed object / closure is never None or a constant
    for x, y in ((a, b), (b, a)):
        ax = x.single_atom()
        if ax is not None and ax[0] in ("new", "closure", "tuple", "list", "dict", "objstate", "appended", "setitem", "mutated", "comp", "lambda", "boundmethod") and is_pure_const(y):
            if op == "==":
                return FALSE
            if op == "!=":
                return TRUE
    if op in ("==", "!="):
        for x, y in ((a, b), (b, a)):
            ax = x.single_atom()
            if y == NONE and ax is not None and ax[0] == "getattr" and ax[2] in ("columns", "shape", "index", "values", "dtype", "size", "ndim", "T", "iloc", "loc"):
                # structural attributes of arrays / frames are objects, never None
                return const(op == "!=")
            if y == NONE and ax is not None and ax[0] == "sub" and _is_slice(ax[2]):
                # a slice of anything that can be sliced is a container, never None
                return const(op == "!=")
            if y == NONE and ax is not None and ax[0] == "call" and (ax[1].startswith(("numpy.", "scipy.", "pandas.")) or ax[1] in _NONNULL_CALLS):
                return const(op == "!=")
    d = a - b
    if d.is_const():
        v = d.const_value()
        return const({"==": v == 0, "!=": v != 0, ">": v > 0, ">=": v >= 0}[op])
    if op in ("==", "!=") and d.den == (((), Fraction(1)),) and all(
            len(m) <= 1 and all(x[0] == "const" and p == 1 for x, p in m) for m, _c in d.num):
        # a non-zero combination of distinct symbolic constants: the sides differ
        return const(op == "!=")
    if op in ("==", "!="):
        # sign normalisation: leading coefficient positive
        if d.num[0][1] < 0:
            d = -d
    return atom(("cmp", op, d))


def mk_not(t):
    v = truth(t) if is_pure_const(t) else None
    if v is not None:
        return const(not v)
    a = t.single_atom()
    if a is not None:
        if a[0] == "not":
            return a[1]
        if a[0] == "cmp":
            op, d = a[1], a[2]
            if op == "==":
                return atom(("cmp", "!=", d))
            if op == "!=":
                return atom(("cmp", "==", d))
            if op == ">":  # not (d > 0) -> -d >= 0
                return atom(("cmp", ">=", -d))
            if op == ">=":
                return atom(("cmp", ">", -d))
        if a[0] == "and":
            return mk_or([mk_not(x) for x in a[1]])
        if a[0] == "or":
            return mk_and([mk_not(x) for x in a[1]])
        if a[0] == "in":
            return atom(("notin", a[1], a[2]))
        if a[0] == "notin":
            return atom(("in", a[1], a[2]))
    return atom(("not", t))


def _flatten(kind, items):
    out = []
    for x in items:
        a = x.single_atom()
        if a is not None and a[0] == kind:
            out.extend(a[1])
        else:
            out.append(x)
    return out


def mk_and(items):
    items = _flatten("and", items)
    out = []
    for x in items:
        v = truth(x) if is_pure_const(x) else None
        if v is False:
            return FALSE
        if v is True:
            continue
        if x not in out:
            out.append(x)
    if not out:
        return TRUE
    if len(out) == 1:
        return out[0]
    return atom(("and", tuple(sorted(out, key=akey))))


def mk_or(items):
    items = _flatten("or", items)
    out = []
    for x in items:
        v = truth(x) if is_pure_const(x) else None
        if v is True:
            return TRUE
        if v is False:
            continue
        if x not in out:
            out.append(x)
    if not out:
        return FALSE
    if len(out) == 1:
        return out[0]
    return atom(("or", tuple(sorted(out, key=akey))))


def _canon_cond(c):
    """(condition, flipped): a canonical choice between a condition and its negation, so that
    `if c: A else: B` and `if not c: B else: A` build the same gated phi."""
    a = c.single_atom()
    if a is None:
        return c, False
    if a[0] == "not":
        return a[1], True
    if a[0] == "cmp" and a[1] in ("!=", ">="):
        return mk_not(c), True
    if a[0] == "or":
        return mk_not(c), True
    if a[0] == "notin":
        return mk_not(c), True
    return c, False


def mk_ite(c, a, b):
    v = truth(c) if is_pure_const(c) else None
    if v is True:
        return a
    if v is False:
        return b
    if a == b:
        return a
    c, flipped = _canon_cond(c)
    if flipped:
        a, b = b, a
    ca = is_constbool(a)
    cb = is_constbool(b)
    if ca is not None or cb is not None:
        if ca is True and cb is False:
            return c
        if ca is False and cb is True:
            return mk_not(c)
        if ca is True and _boolish(b):
            return mk_or([c, b])
        if ca is False and _boolish(b):
            return mk_and([mk_not(c), b])
        if cb is False and _boolish(a):
            return mk_and([c, a])
        if cb is True and _boolish(a):
            return mk_or([mk_not(c), a])
    mm = _as_minmax(c, a, b)
    if mm is not None:
        return mm
    return atom(("ite", c, a, b))


def _as_minmax(c, a, b):
    """`a if a < b else b` and its variants are min / max of the two operands: one canonical form for the conditional, the
    compare-and-assign idiom (`if s < m: m = s`) and the builtin call (real arithmetic; NaN ordering is not modelled)."""
    ca = c.single_atom() if isinstance(c, R) else None
    if ca is None or ca[0] != "cmp" or ca[1] not in ("<", "<=", ">", ">="):
        return None
    if not (isinstance(a, R) and isinstance(b, R)):
        return None
    d = ca[2]
    if same(d, a - b):
        which = "min" if ca[1] in ("<", "<=") else "max"      # a op b ? a : b
    elif same(d, b - a):
        which = "max" if ca[1] in ("<", "<=") else "min"      # b op a ? a : b
    else:
        return None
    if a.is_const() and b.is_const():
        return None
    return atom(("call", which, tuple(sorted((a, b), key=akey)), ()))


def same(a, b):
    """Algebraic identity of two terms (exact, over the reals)."""
    if a == b:
        return True
    return (a - b).num == ()


def same_up_to_pos_scale(a, b):
    """a == k*b for a positive rational k (for inequality guards)."""
    if same(a, b):
        return True
    if not a.num or not b.num:
        return False
    p = _pmul(dict(a.num), dict(b.den))
    q = _pmul(dict(b.num), dict(a.den))
    p = {m: c for m, c in p.items() if c != 0}
    q = {m: c for m, c in q.items() if c != 0}
    if set(p) != set(q) or not p:
        return False
    m0 = next(iter(p))
    k = p[m0] / q[m0]
    if k <= 0:
        return False
    return all(p[m] == k * q[m] for m in p)


# ---------------------------------------------------------------------------
# traversal helpers


def walk(t):
    """Yield every atom (recursively) inside a term / nested structure."""
    stack = [t]
    seen = set()
    while stack:
        x = stack.pop()
        if isinstance(x, R):
            if id(x) in seen:
                continue
            seen.add(id(x))
            for a in x.atoms():
                stack.append(a)
        elif isinstance(x, tuple):
            if x and isinstance(x[0], str):
                yield x
            for y in x:
                if isinstance(y, (R, tuple)):
                    stack.append(y)


def atoms_of(t, kind=None):
    for a in walk(t):
        if kind is None or a[0] == kind:
            yield a


def mentions(t, pred):
    for a in walk(t):
        if pred(a):
            return True
    return False


def subst(t, f):
    """Rebuild term applying f(atom)->R|None bottom-up on atoms."""
    memo = {}

    def go_r(r):
        k = id(r)
        if k in memo:
            return memo[k]
        def poly(p):
            acc = const(0)
            for m, c in p:
                term = R({(): c})
                for a, pw in m:
                    term = term * (go_a(a) ** pw)
                acc = acc + term
            return acc
        n = poly(r.num)
        if r.den == (((), Fraction(1)),):
            res = n
        else:
            res = n / poly(r.den)
        memo[k] = res
        return res

    def go_x(x):
        if isinstance(x, R):
            return go_r(x)
        if isinstance(x, tuple):
            return tuple(go_x(y) for y in x)
        return x

    def go_a(a):
        new = tuple(go_x(y) for y in a[1:])
        a2 = (a[0],) + new
        r = f(a2)
        if r is not None:
            return r
        return rebuild(a2)

    return go_r(t)


def mk_abs(x):
    """|x| with a canonical sign of the argument (|x| = |-x|)."""
    if x.is_const():
        return const(abs(x.const_value()))
    if x.num and x.num[0][1] < 0:
        x = -x
    return atom(("call", "abs", (x,), ()))


def rebuild(a):
    """Re-normalise an atom whose children may have changed."""
    k = a[0]
    if k == "call" and a[1] == "abs" and len(a[2]) == 1 and not a[3]:
        return mk_abs(a[2][0])
    if k == "cmp":
        return mk_cmp(a[1], a[2], const(0)) if a[1] in (">", ">=", "==", "!=") else atom(a)
    if k == "and":
        return mk_and(list(a[1]))
    if k == "or":
        return mk_or(list(a[1]))
    if k == "not":
        return mk_not(a[1])
    if k == "ite":
        return mk_ite(a[1], a[2], a[3])
    if k == "in" and is_pure_const(a[1]):
        coll = a[2].single_atom()
        if coll is not None and coll[0] in ("tuple", "list", "set") and all(is_pure_const(x) for x in coll[1]):
            return const(any(x == a[1] for x in coll[1]))
        if coll is not None and coll[0] == "dict" and all(is_pure_const(k_) for k_, _v in coll[1]):
            return const(any(k_ == a[1] for k_, _v in coll[1]))
    if k == "sub" and is_pure_const(a[2]):
        coll = a[1].single_atom()
        if coll is not None and coll[0] == "dict":
            for k_, v_ in coll[1]:
                if k_ == a[2]:
                    return v_
        if coll is not None and coll[0] in ("tuple", "list") and a[2].is_const():
            i = a[2].const_value()
            if i.denominator == 1 and -len(coll[1]) <= int(i) < len(coll[1]):
                return coll[1][int(i)]
    if k == "call" and a[1] == "isinstance" and len(a[2]) == 2 and is_pure_const(a[2][0]):
        cls = a[2][1].single_atom()
        names = {"builtins.str": str, "builtins.int": int, "builtins.float": float, "builtins.bool": bool}
        if cls is not None and cls[0] == "global" and cls[1] in names:
            v = const_py(a[2][0])
            return const(isinstance(v, names[cls[1]]))
    return atom(a)


def pretty(t, depth=0):
    """Human-readable rendering (for evidence and messages)."""
    if isinstance(t, R):
        a = t.single_atom()
        if a is not None:
            return pretty_atom(a)
        def poly(p):
            parts = []
            for m, c in p:
                fs = [pretty_atom(x) + ("**%d" % pw if pw != 1 else "") for x, pw in m]
                if not fs:
                    parts.append(str(c))
                elif c == 1:
                    parts.append("*".join(fs))
                elif c == -1:
                    parts.append("-" + "*".join(fs))
                else:
                    parts.append("%s*%s" % (c, "*".join(fs)))
            return " + ".join(parts) if parts else "0"
        n = poly(t.num)
        if t.den == (((), Fraction(1)),):
            return n
        return "(%s)/(%s)" % (n, poly(t.den))
    if isinstance(t, tuple):
        return "(" + ", ".join(pretty(x) for x in t) + ")"
    return repr(t)


def pretty_atom(a):
    k = a[0]
    if k == "attr":
        return "self." + a[1]
    if k == "param":
        return a[1]
    if k == "const":
        return repr(a[1])
    if k == "global":
        return a[1]
    if k == "call":
        args = [pretty(x) for x in a[2]] + ["%s=%s" % (n, pretty(v)) for n, v in a[3]]
        return "%s(%s)" % (a[1], ", ".join(args))
    if k == "mcall":
        args = [pretty(x) for x in a[3]] + ["%s=%s" % (n, pretty(v)) for n, v in a[4]]
        return "%s.%s(%s)" % (pretty(a[1]), a[2], ", ".join(args))
    if k == "getattr":
        return "%s.%s" % (pretty(a[1]), a[2])
    if k == "sub":
        return "%s[%s]" % (pretty(a[1]), pretty(a[2]))
    if k == "slice":
        return ":".join("" if truthless(x) else pretty(x) for x in a[1:])
    if k in ("tuple", "list", "set"):
        return k + "(" + ", ".join(pretty(x) for x in a[1]) + ")"
    if k == "dict":
        return "{" + ", ".join("%s: %s" % (pretty(x), pretty(y)) for x, y in a[1]) + "}"
    if k == "cmp":
        return "(%s %s 0)" % (pretty(a[2]), a[1])
    if k in ("and", "or"):
        return "(" + (" %s " % k).join(pretty(x) for x in a[1]) + ")"
    if k == "not":
        return "not " + pretty(a[1])
    if k == "ite":
        return "ite(%s, %s, %s)" % (pretty(a[1]), pretty(a[2]), pretty(a[3]))
    return k + "(" + ", ".join(pretty(x) if isinstance(x, (R, tuple)) else repr(x) for x in a[1:]) + ")"


def truthless(x):
    a = x.single_atom() if isinstance(x, R) else None
    return a is not None and a == ("const", None)
