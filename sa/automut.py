"""Systematic first-order mutants of the files a property is anchored in (AST level, in memory).

Operators:  relational (< <= > >= == != swapped to neighbours), arithmetic (+ <-> -, * <-> /), boolean (and <-> or),
constant (integer / float literal +1, *2 or 0), statement deletion (assignments, augmented assignments, expression
calls), negated condition (`if c` -> `if not c`), return-value removal is not used.

These are NOT expected to be caught one by one (many are equivalent or outside the property); the thorough tier reports
the score (killed = exit 1, no verdict = exit 2, survived = exit 0) as a measure of how much of the anchored code the
obligations constrain, and lists survivors for triage.

usage:  python -m sa.automut C05 [--limit N] [--file <substring of an anchored path>] [--show]"""
import ast
import copy
import json
import os
import sys
import concurrent.futures as cf

from .loader import REPO, Program

REL = {ast.Lt: [ast.LtE, ast.Gt], ast.LtE: [ast.Lt, ast.GtE], ast.Gt: [ast.GtE, ast.Lt], ast.GtE: [ast.Gt, ast.LtE],
       ast.Eq: [ast.NotEq], ast.NotEq: [ast.Eq], ast.Is: [ast.IsNot], ast.IsNot: [ast.Is]}
ARI = {ast.Add: [ast.Sub], ast.Sub: [ast.Add], ast.Mult: [ast.Div], ast.Div: [ast.Mult]}


def anchors(pid):
    for l in open(os.path.join(os.path.dirname(os.path.dirname(os.path.abspath(__file__))), "properties.jsonl")):
        p = json.loads(l)
        if p["id"] == pid:
            return [f for f in p["anchors"]["files"] if f.startswith("menelaus/")]
    return []


def _in_docstring_or_message(node, parents):
    return False


def mutants_of(rel):
    """Yield (description, source) for every first-order mutant of file `rel`."""
    path = os.path.join(REPO, rel)
    src = open(path, encoding="utf-8").read()
    tree = ast.parse(src)
    nodes = list(ast.walk(tree))
    # only code inside function bodies
    infunc = set()
    for n in nodes:
        if isinstance(n, (ast.FunctionDef,)):
            for m in ast.walk(n):
                infunc.add(id(m))
    idx = 0
    for k, n in enumerate(nodes):
        if id(n) not in infunc:
            continue
        line = getattr(n, "lineno", 0)
        if isinstance(n, ast.Compare) and len(n.ops) == 1 and type(n.ops[0]) in REL:
            for new in REL[type(n.ops[0])]:
                yield _apply(tree, k, lambda x, new=new: setattr(x, "ops", [new()]), "%s:%d relational %s -> %s" % (rel, line, type(n.ops[0]).__name__, new.__name__))
        elif isinstance(n, ast.BinOp) and type(n.op) in ARI:
            for new in ARI[type(n.op)]:
                yield _apply(tree, k, lambda x, new=new: setattr(x, "op", new()), "%s:%d arithmetic %s -> %s" % (rel, line, type(n.op).__name__, new.__name__))
        elif isinstance(n, ast.AugAssign) and type(n.op) in ARI:
            for new in ARI[type(n.op)]:
                yield _apply(tree, k, lambda x, new=new: setattr(x, "op", new()), "%s:%d augmented %s -> %s" % (rel, line, type(n.op).__name__, new.__name__))
        elif isinstance(n, ast.BoolOp):
            new = ast.Or if isinstance(n.op, ast.And) else ast.And
            yield _apply(tree, k, lambda x, new=new: setattr(x, "op", new()), "%s:%d boolean %s -> %s" % (rel, line, type(n.op).__name__, new.__name__))
        elif isinstance(n, ast.Constant) and isinstance(n.value, (int, float)) and not isinstance(n.value, bool):
            for f, nm in ((lambda v: v + 1, "+1"), (lambda v: 0 if v != 0 else 1, "zero")):
                yield _apply(tree, k, lambda x, f=f: setattr(x, "value", f(x.value)), "%s:%d constant %r %s" % (rel, line, n.value, nm))
        elif isinstance(n, ast.If):
            yield _apply(tree, k, lambda x: setattr(x, "test", ast.UnaryOp(op=ast.Not(), operand=x.test)), "%s:%d negate condition" % (rel, line))
        elif isinstance(n, (ast.Assign, ast.AugAssign)) or (isinstance(n, ast.Expr) and isinstance(n.value, ast.Call)):
            yield _apply(tree, k, "delete", "%s:%d delete `%s`" % (rel, line, ast.unparse(n).split("\n")[0][:60]))


def _apply(tree, k, fn, desc):
    t2 = copy.deepcopy(tree)
    nodes = list(ast.walk(t2))
    n = nodes[k]
    if fn == "delete":
        # replace by `pass`
        for p in nodes:
            for fld in ("body", "orelse", "finalbody"):
                b = getattr(p, fld, None)
                if isinstance(b, list) and n in b:
                    b[b.index(n)] = ast.copy_location(ast.Pass(), n)
    else:
        fn(n)
    ast.fix_missing_locations(t2)
    try:
        src = ast.unparse(t2)
        compile(src, "m", "exec")
    except Exception:
        return desc, None
    return desc, src


def _run(args):
    pid, rel, desc, src = args
    from .check import run_check
    from .core import load_known
    import gc
    try:
        ctx, err = run_check(pid, "quick", Program(overlay={rel: src}), timeout=120)
    except BaseException as e:
        gc.collect()
        return desc, "error", str(e)[:100]
    finally:
        from . import evalr
        del evalr.ALL_TRACES[:]
        gc.collect()
    known = load_known()
    new = [f for f in ctx.findings if not any(k.get("property") == f.pid and k.get("rule") == f.rule and k.get("site") == f.site and k.get("construct") == f.construct for k in known)]
    if new:
        return desc, "killed", "%s @ %s" % (new[0].rule, new[0].site)
    if err:
        return desc, "no-verdict", err[:100]
    return desc, "survived", ""


def run(pid, limit=None, jobs=16, seed=0, only=None):
    work = []
    for rel in anchors(pid):
        if only and only not in rel:
            continue
        for desc, src in mutants_of(rel):
            if src is not None:
                work.append((pid, rel, desc, src))
    if limit and len(work) > limit:
        import random
        random.Random(seed).shuffle(work)
        work = work[:limit]
    res = []
    from .check import guard_resources
    with cf.ProcessPoolExecutor(jobs, initializer=guard_resources, initargs=(3,)) as ex:
        for r in ex.map(_run, work, chunksize=4):
            res.append(r)
    return res


if __name__ == "__main__":
    pid = sys.argv[1]
    limit = int(sys.argv[sys.argv.index("--limit") + 1]) if "--limit" in sys.argv else None
    only = sys.argv[sys.argv.index("--file") + 1] if "--file" in sys.argv else None
    res = run(pid, limit, only=only)
    from collections import Counter
    c = Counter(r[1] for r in res)
    print(pid, dict(c), "score %.0f%%" % (100.0 * c["killed"] / max(1, len(res))))
    if "--show" in sys.argv:
        for d, s, i in res:
            if s != "killed":
                print("  ", s, d, i)
