"""C13 - elections: return sets, vote predicates, thresholds (TAB over finite cells), loop idioms."""
from .. import terms as T
from ..terms import const, atom
from .. import q
from ..q import A, P, S, guards
from ..evalr import Evaluator
from ..loader import AnalysisError

EL = "menelaus/ensemble/election.py"
N = 7  # cells enumerated: counts / sizes / parameters 0..N


def call_trace(ctx, cname):
    return ctx.trace(cname, "__call__")


def retset(tr):
    vals = set()
    for e in tr.returns():
        if len(e.stack) != 1:
            continue
        for _c, l in q.ite_leaves(e.value):
            vals.add(T.const_py(l) if T.is_pure_const(l) else T.pretty(l)[:40])
    if tr.final is not None and not any(len(e.stack) == 1 for e in tr.returns()):
        vals.add(None)
    return vals


def is_vote(t, state, member_ok):
    """t is `<member>.drift_state == state`"""
    c = q.is_cmp(t)
    if c is None or c[1] != "==":
        return False
    ats = list(c[2].atoms())
    if len(ats) != 2 or ("const", state) not in ats:
        return False
    other = [x for x in ats if x != ("const", state)][0]
    return other[0] == "getattr" and other[2] == "drift_state" and member_ok(other[1])


def run(ctx):
    ctx.explanation = (
        "return sets of the four elections; the voting predicate is exactly drift_state == 'drift' (== 'warning'); thresholds decided by "
        "evaluating the extracted comparison over every cell (counts, sizes, parameters 0..%d) by constant folding; loop idioms "
        "(filter-and-count, counting loop with monotone early exit) checked structurally; ConfirmedElection's per-member if/elif chain "
        "evaluated over the six cells {drift, warning, other} x {counter = 0, counter != 0}; expiry rule; verdict chain" % N)
    ctx.assumptions += ["soundness of the two loop idioms (DESIGN.md C13): counters only grow, so 'some prefix satisfies the exit test' iff 'the whole list does'",
                        "approvals_needed + confirmations_needed >= 1 and a non-empty member list"]
    majority(ctx)
    minimum(ctx)
    ordered(ctx)
    confirmed(ctx)


def stateless(ctx, cname):
    """Simple majority / minimum approval / ordered approval are functions of the member list alone: a call leaves nothing on the
    election object (only ConfirmedElection carries waiting periods from call to call)."""
    tr = call_trace(ctx, cname)
    w = [e for e in tr.events if e.kind in ("store", "mutate") and len(e.stack) <= 2]
    ctx.ob("WR", cname + ".__call__", "the election keeps no state between calls", not w,
           "a call stores self.%s: the verdict for a member list would depend on earlier calls (e.g. on the size of the first list seen)" % (w[0].attr if w else ""), w[0] if w else None)


def majority(ctx):
    site = "SimpleMajorityElection.__call__"
    for cn_ in ("SimpleMajorityElection", "MinimumApprovalElection", "OrderedApprovalElection"):
        stateless(ctx, cn_)
    tr = call_trace(ctx, "SimpleMajorityElection")
    ctx.ob("RET", site, "returns only 'drift' or None", retset(tr) <= {"drift", None} and "drift" in retset(tr), str(retset(tr)))
    dets = P("detectors")
    if retset(tr) - {"drift", None}:
        return
    # the verdict as one value: 'drift' under a condition, None otherwise (if / else, two returns, or a conditional expression)
    leaves = list(q.ite_leaves(tr.retval)) if tr.retval is not None else []
    dl = [cs for cs, l in leaves if l == const("drift")]
    nl = [cs for cs, l in leaves if l == T.NONE]
    if len(leaves) != 2 or len(dl) != 1 or len(nl) != 1:
        raise AnalysisError("SimpleMajorityElection: the verdict is not `'drift' under one condition, else None` (unrecognised shape)")
    cond = T.mk_and(list(dl[0]))  # the verdict is drift exactly under this condition
    tests = [e for e in tr.returns() if len(e.stack) == 1][:1]
    # the vote count: len([d for d in D if vote(d)])  or  sum(1 for d in D if vote(d))
    counts = []
    for a in T.atoms_of(cond, "call"):
        if a[1] in ("len", "sum") and len(a[2]) == 1:
            cp_ = a[2][0].single_atom()
            if cp_ is not None and cp_[0] == "comp" and cp_[3] == (dets,):
                if a[1] == "len" and cp_[1] == "list" or (a[1] == "sum" and cp_[2] == (const(1),)):
                    counts.append((a, cp_))
    loopcount = None
    if not counts:
        # ... or a counting loop: n = 0; for d in D: if vote(d): n += 1   (in __call__ or in a helper)
        for a in T.atoms_of(cond, "loopvar"):
            if not (isinstance(a[2], str) and a[2].startswith("$") and a[1] in tr.loops):
                continue
            L_ = tr.loops[a[1]]
            name = a[2][1:]
            if L_["iter"] != dets or L_["break"] or L_["pre"].locs.get(name) != const(0):
                continue
            ins = [e for e in tr.of("local") if e.name == name and any((p.cond.single_atom() or ("",))[:2] == ("inloop", a[1]) for p in e.pc)]
            if len(ins) == 1 and ins[0].aug == ("Add", const(1)):
                own = []
                seen_loop = False
                for p in ins[0].pc:
                    if (p.cond.single_atom() or ("",))[:2] == ("inloop", a[1]):
                        seen_loop = True
                    elif seen_loop:
                        own.append(p.cond)
                loopcount = (a, ins[0], own, atom(("iter", dets, a[1])))
    if loopcount is not None:
        n_atom, inc, own, member = loopcount
        ok = len(own) == 1 and is_vote(own[0], "drift", lambda m: m == member)
        ctx.ob("FRM", site, "votes are the members with drift_state == 'drift'", ok, "; ".join(q.short(g, 80) for g in own), inc)
    else:
        if len({x[0] for x in counts}) != 1:
            raise AnalysisError("SimpleMajorityElection: vote count is not a filter-and-count over the detectors (unrecognised shape)")
        n_atom, cp = counts[0]
        member = atom(("iter", dets, [x for x in T.atoms_of(atom(cp), "iter")][0][2])) if list(T.atoms_of(atom(cp), "iter")) else None
        ok = member is not None and len(cp[4]) == 1 and is_vote(cp[4][0], "drift", lambda m: m == member) and (cp[1] != "list" or cp[2][0] == member)
        ctx.ob("FRM", site, "votes are the members with drift_state == 'drift'", ok, q.short(atom(cp), 120), tests[0] if tests else None)
    L_atom = ("call", "len", (dets,), ())
    others = [a for a in cond.atoms() if a not in (n_atom, L_atom)]
    bad = []
    try:
        for L in range(0, N + 1):
            for n in range(0, L + 1):
                got = bool(q.eval_cell(cond, {n_atom: n, L_atom: L}))
                if got != (2 * n > L):
                    bad.append((n, L, got))
    except q.Undecided as e:
        raise AnalysisError("SimpleMajorityElection: threshold not decidable by constant folding: %s" % e)
    ctx.ob("TAB", site, "drift iff strictly more than half of the members vote drift", not bad,
           "cells (votes, members, verdict) that disagree: %s" % bad[:4], tests[0] if tests else None)
    ctx.ob("FRM", site, "None is returned exactly otherwise", T.mk_and(list(nl[0])) == T.mk_not(cond), "")


def counting_loop(ctx, cname, ncounters):
    """Shape of a counting loop with monotone early exit.  Returns (trace, loop id, member term)."""
    site = cname + ".__call__"
    tr = call_trace(ctx, cname)
    loops = [(k, v) for k, v in tr.loops.items() if v["func"].qualname == site]
    if len(loops) != 1 or loops[0][1]["iter"] != P("detectors") or loops[0][1]["break"]:
        raise AnalysisError("%s: not a single loop over all detectors (unrecognised shape)" % cname)
    lid = loops[0][0]
    # the counters are the locals that the loop body increments
    counters = tuple(sorted({e.name for e in tr.of("local") if e.aug is not None and len(e.stack) == 1 and
                             any((p.cond.single_atom() or ("",)) == ("inloop", lid) for p in e.pc)}))
    if len(counters) != ncounters:
        raise AnalysisError("%s: expected %d counter(s) incremented in the loop, found %s (unrecognised shape)" % (cname, ncounters, counters))
    member = atom(("iter", P("detectors"), lid))
    init = {e.name: e.value for e in tr.of("local") if e.aug is None and e.name in counters and not any((p.cond.single_atom() or ("",))[0] == "inloop" for p in e.pc)}
    ctx.ob("IDIOM", site, "counters start at 0 before the loop", all(init.get(c) == const(0) for c in counters), str({k: q.short(v, 20) for k, v in init.items()}))
    augs0 = [e for e in tr.of("local") if e.name in counters and e.aug is not None]
    # `n += 1 if vote else 0` is `if vote: n += 1`: split a 0/1 conditional increment into its guarded unit increment
    from ..evalr import virtual
    augs = []
    for e in augs0:
        d = e.aug[1] if e.aug[0] == "Add" else None
        leaves = list(q.ite_leaves(d)) if d is not None else []
        if len(leaves) > 1 and all(l in (const(0), const(1)) for _c, l in leaves):
            for cs_, l in leaves:
                if l == const(1):
                    augs.append(virtual(e, cs_, aug=("Add", const(1))))
        else:
            augs.append(e)
    ok = bool(augs) and all(e.aug == ("Add", const(1)) for e in augs)
    ctx.ob("IDIOM", site, "counters are only incremented by one (never decreased or reassigned)", ok and not [e for e in tr.of("local") if e.name in counters and e.aug is None and e.name not in init or (e.aug is None and any((p.cond.single_atom() or ("",))[0] == "inloop" for p in e.pc) and e.name in counters)], "")
    for e in augs:
        ok = any(is_vote(g, "drift", lambda m: m == member) for g in guards(e))
        ctx.ob("FRM", site, "a member is counted only if its drift_state == 'drift'", ok, "; ".join(q.short(g, 60) for g in guards(e)), e)
    rets = [e for e in tr.returns() if len(e.stack) == 1]
    inloop = [e for e in rets if any((p.cond.single_atom() or ("",))[0] == "inloop" for p in e.pc)]
    after = [e for e in rets if e not in inloop]
    ctx.ob("IDIOM", site, "the loop can only exit early by returning 'drift'; afterwards None is returned",
           len(inloop) == 1 and inloop[0].value == const("drift") and len(after) == 1 and after[0].value == T.NONE and not after[0].pc, "")
    ctx.ob("RET", site, "returns only 'drift' or None", retset(tr) <= {"drift", None} and "drift" in retset(tr), str(retset(tr)))
    return tr, lid, member, inloop[0] if inloop else None, augs


def ctor(ctx, cname, params):
    ti = ctx.trace(cname, "__init__")
    at = ti.final.attrs if ti.final is not None else {}
    for k in params:
        ctx.ob("FWD-init", cname + ".__init__", "constructor parameter %s is kept" % k, at.get(k) == P(k), q.short(at.get(k), 40) if at.get(k) is not None else "unset")


def minimum(ctx):
    cname = "MinimumApprovalElection"
    site = cname + ".__call__"
    ctor(ctx, cname, ("approvals_needed",))
    ctor(ctx, "OrderedApprovalElection", ("approvals_needed", "confirmations_needed"))
    tr, lid, member, ret, augs = counting_loop(ctx, cname, 1)
    if ret is None:
        return
    c = atom(("loopvar", lid, "$" + augs[0].name))
    vote = [g for e in augs for g in guards(e) if is_vote(g, "drift", lambda m: m == member)]
    exit_conds = [p.cond for p in ret.pc if (p.cond.single_atom() or ("",))[0] != "inloop"]
    if not vote:
        return  # reported by the FRM obligation above
    if len(exit_conds) != 1:
        raise AnalysisError("MinimumApprovalElection: exit test not recognised")
    bad = []
    try:
        for cv in range(0, N + 1):
            for k in range(0, N + 2):
                for p in (True, False):
                    env = {c.single_atom(): cv, ("attr", "approvals_needed"): k, vote[0].single_atom(): p}
                    got = bool(q.eval_cell(exit_conds[0], env))
                    if got != (cv + (1 if p else 0) >= k):
                        bad.append((cv, k, p, got))
    except q.Undecided as e:
        raise AnalysisError("MinimumApprovalElection: exit test not decidable by constant folding: %s" % e)
    ctx.ob("TAB", site, "the exit test is `votes so far (including this member) >= approvals_needed`", not bad, "disagreeing cells (count, needed, votes, test): %s" % bad[:4], ret)


def ordered(ctx):
    cname = "OrderedApprovalElection"
    site = cname + ".__call__"
    tr, lid, member, ret, augs = counting_loop(ctx, cname, 2)
    if ret is None:
        return
    Aa, Cc = ("attr", "approvals_needed"), ("attr", "confirmations_needed")
    # the approvals counter is the one whose own value decides which counter a drifting member increments
    appr = None
    for e in augs:
        for g in guards(e):
            if T.mentions(g, lambda z: z == Aa):
                lv = [z for z in T.atoms_of(g, "loopvar") if z[2].startswith("$")]
                if len(lv) == 1:
                    appr = lv[0][2][1:]
    names = {e.name for e in augs}
    if appr not in names or len(names) != 2 or len(augs) != 2:
        raise AnalysisError("OrderedApprovalElection: counters not recognised")
    conf = (names - {appr}).pop()
    na = ("loopvar", lid, "$" + appr)
    nc = ("loopvar", lid, "$" + conf)
    by = {("num_approvals" if e.name == appr else "num_confirmations"): e for e in augs}
    bad = []
    try:
        for a_ in range(0, N):
            for c_ in range(0, N):
                for A_ in range(0, N):
                    for C_ in range(0, 4):
                        env = {na: a_, nc: c_, Aa: A_, Cc: C_}
                        for g in [g for g in guards(by["num_approvals"])]:
                            if is_vote(g, "drift", lambda m: m == member):
                                env[g.single_atom()] = True
                        ia = q.holds_under(by["num_approvals"], env)
                        ic = q.holds_under(by["num_confirmations"], env)
                        if ia is None or ic is None:
                            raise q.Undecided("branch conditions")
                        if ia != (a_ < A_) or ic != (not (a_ < A_)):
                            bad.append(("branch", a_, A_, ia, ic))
                        a2, c2 = a_ + (1 if ia else 0), c_ + (1 if ic else 0)
                        # exit test is evaluated on the updated counters: its terms are ite(...) of the old ones
                        ex = q.holds_under(ret, env)
                        if ex is None:
                            raise q.Undecided("exit test")
                        if ex != (a2 >= A_ and c2 >= C_):
                            bad.append(("exit", a_, c_, A_, C_, ex))
    except q.Undecided as e:
        raise AnalysisError("OrderedApprovalElection: not decidable by constant folding: %s" % e)
    ctx.ob("TAB", site, "a drifting member is an approval while approvals are missing, else a confirmation; exit iff both quotas are met", not bad, "disagreeing cells: %s" % bad[:4], ret)
    ctx.ob("FRM", site, "the exit test is evaluated only for a drifting member (after its vote was counted)", ret.seq > max(e.seq for e in augs), "", ret)


def confirmed(ctx):
    cname = "ConfirmedElection"
    site = cname + ".__call__"
    tr = call_trace(ctx, cname)
    rs = retset(tr)
    ctx.ob("RET", site, "returns only 'drift', 'warning' or None", rs <= {"drift", "warning", None} and {"drift", "warning"} <= rs, str(rs))
    # the vote loop (the one in which tallies are incremented) and the expiry loop (the one in which counters are set back),
    # in __call__ itself or in helpers it calls
    def _in(e, lid):
        return any((p.cond.single_atom() or ("",)) == ("inloop", lid) for p in e.pc)
    vote_l = [k for k in tr.loops if any(e.aug is not None and _in(e, k) for e in tr.of("local"))]
    exp_l = [k for k in tr.loops if k not in vote_l and any(_in(e, k) for e in tr.mutations("wait_period_counters"))]
    # ... or the expiry as a rebuild of the whole list: counters = / counters[:] = [<0 or c> for c in counters]
    _full = (("item", atom(("slice", T.NONE, T.NONE, T.NONE))),)
    rebuilt = [e for e in tr.events if e.kind in ("store", "mutate") and e.d.get("attr") == "wait_period_counters"
               and (e.kind == "store" or (e.how == "setitem" and e.path == _full))
               and (e.value.single_atom() or ("",))[0] == "comp"]
    if len(vote_l) != 1 or len(exp_l) + len(rebuilt) != 1:
        raise AnalysisError("ConfirmedElection: expected a vote loop and an expiry loop (unrecognised shape)")
    l1, v1 = vote_l[0], tr.loops[vote_l[0]]
    l2, v2 = (exp_l[0], tr.loops[exp_l[0]]) if exp_l else (None, None)
    i1 = atom(("idx", l1))
    # the member state and its counter as seen in the vote loop
    in1 = lambda e: any((p.cond.single_atom() or ("",)) == ("inloop", l1) for p in e.pc)
    cnames = sorted({e.name for e in tr.of("local") if e.aug is not None and in1(e)})
    rets0 = [e for e in tr.returns() if len(e.stack) == 1]
    vote_end = max([e.seq for e in tr.of("loopend") if e.lid == l1] or [0])
    early = [e for e in rets0 if e.seq < vote_end and [p for p in e.pc if (p.cond.single_atom() or ("",))[0] != "inloop"]]
    ctx.ob("ORD", site, "no verdict is returned before the votes are tallied and the waiting periods advanced", not early,
           "a return under %s skips the tally: members still inside their waiting period neither vote nor age in such a call"
           % ("; ".join(q.short(p.cond, 60) for p in early[0].pc) if early else ""), early[0] if early else None)
    drift_name = None
    if rets0 and tr.retval is not None:
        for conds, leaf in q.ite_leaves(tr.retval):
            if leaf == const("drift") and conds:
                lv = [z for z in T.atoms_of(conds[-1], "loopvar") if z[2].startswith("$")]
                if len(lv) == 1:
                    drift_name = lv[0][2][1:]
    if len(cnames) != 2 or drift_name not in cnames:
        raise AnalysisError("ConfirmedElection: vote counters not recognised (%s)" % cnames)
    warn_name = [n for n in cnames if n != drift_name][0]
    augs = [e for e in tr.of("local") if e.name in cnames and e.aug is not None and in1(e)]
    cm = [e for e in tr.mutations("wait_period_counters") if any((p.cond.single_atom() or ("",)) == ("inloop", l1) for p in e.pc)]
    if not augs:
        raise AnalysisError("ConfirmedElection: vote counters not recognised")
    # atoms: state of member i, counter of member i
    st_atoms = set()
    ct_atoms = set()
    for e in augs + cm:
        for p in e.pc:
            for a in p.cond.atoms() if False else T.walk(p.cond):
                if a[0] == "sub" and a[2] == i1:
                    base = a[1].single_atom()
                    if base is not None and base[0] == "comp":
                        st_atoms.add(a)
                    elif _root(a[1]) == "wait_period_counters":
                        ct_atoms.add(a)
                elif a[0] == "getattr" and a[2] in ("drift_state", "_drift_state") and T.mentions(a[1], lambda z: z == ("param", "detectors")):
                    # the member's state read directly from the member of this iteration
                    st_atoms.add(a)
    if any(a[0] == "sub" for a in st_atoms):
        st_atoms = {a for a in st_atoms if a[0] == "sub"}  # the states were collected into a list first: its elements are the state atoms
    if len(st_atoms) != 1 or len(ct_atoms) != 1:
        raise AnalysisError("ConfirmedElection: per-member state / counter not recognised (%d, %d)" % (len(st_atoms), len(ct_atoms)))
    sa, ca = st_atoms.pop(), ct_atoms.pop()
    if sa[0] == "getattr":
        # d.drift_state with d the i-th member (enumerate / index over the detectors in order)
        ok = v1["iter"] is not None and T.mentions(v1["iter"], lambda z: z == ("param", "detectors")) and \
            (T.mentions(sa[1], lambda z: z == i1.single_atom()) or T.mentions(sa[1], lambda z: z[0] == "iter" and z[-1] == l1))
    else:
        comp = sa[1].single_atom()
        ok = comp[1] == "list" and comp[3] == (P("detectors"),) and not comp[4] and (comp[2][0].single_atom() or ("",))[0] == "getattr" and comp[2][0].single_atom()[2] == "drift_state"
    ctx.ob("FRM", site, "states are the members' drift_state in order", ok, "")
    for e in cm:
        ok = e.aug == ("Add", const(1)) and e.path == (("item", i1),)
        ctx.ob("WR", site, "in the vote loop a counter is only incremented by one, at the member's own index", ok, "", e)
    for e in augs:
        ctx.ob("FRM", site, "a vote adds exactly one to its tally", e.aug == ("Add", const(1)), "tally %s changed by %s" % (e.name, q.short(e.aug[1], 30) if e.aug else None), e)
    pre1 = v1["pre"].locs
    for nm in cnames:
        ctx.ob("FRM", site, "the %s tally starts at 0" % ("drift" if nm == drift_name else "warning"), pre1.get(nm) == const(0), q.short(pre1.get(nm), 30) if pre1.get(nm) is not None else "unset")
    ti = ctx.trace(cname, "__init__")
    at = ti.final.attrs if ti.final is not None else {}
    for k, w in (("sensitivity", P("sensitivity")), ("wait_time", P("wait_time")), ("wait_period_counters", T.NONE)):
        ctx.ob("FWD-init", cname + ".__init__", "%s after construction" % k, at.get(k) == w, q.short(at.get(k), 40) if at.get(k) is not None else "unset")
    want = {("drift", 0): (1, 0, 1), ("drift", 1): (1, 0, 1), ("warning", 0): (0, 1, 0), ("warning", 1): (0, 1, 0), ("other", 1): (1, 0, 1), ("other", 0): (0, 0, 0)}
    bad = []
    for (sname, cz), exp in want.items():
        env = {sa: (None if sname == "other" else sname), ca: cz}
        nd = nw = inc = 0
        for e in augs:
            h = q.holds_under(e, env)
            if h is None:
                raise AnalysisError("ConfirmedElection: chain not decidable by constant folding")
            if h:
                if e.name == drift_name:
                    nd += 1
                else:
                    nw += 1
        for e in cm:
            h = q.holds_under(e, env)
            if h is None:
                raise AnalysisError("ConfirmedElection: chain not decidable by constant folding")
            inc += 1 if h else 0
        if (nd, nw, inc) != exp:
            bad.append(((sname, "c=0" if cz == 0 else "c!=0"), (nd, nw, inc), exp))
    ctx.ob("TAB", site, "vote table over {drift, warning, other} x {counter = 0, != 0}: (drift votes, warning votes, counter increments)", not bad,
           "cells that disagree (cell, found, documented): %s" % bad[:3], augs[0])
    # a 'None' state cell as well (other = None or anything else): evaluate with a non-matching string too
    env = {sa: "something else", ca: 0}
    ok = all(q.holds_under(e, env) is False for e in augs + cm)
    ctx.ob("TAB", site, "an idle member with any other state votes nothing", ok, "")
    # expiry
    if rebuilt:
        ex = rebuilt
        cp = ex[0].value.single_atom()
        # [ite(<c exceeds wait_time>, 0, c) for c in <the counters>], unfiltered, in order
        ok = cp[1] == "list" and len(cp[2]) == 1 and len(cp[3]) == 1 and not cp[4] and _root(cp[3][0]) == "wait_period_counters"
        if ok:
            el = [z for z in T.walk(cp[2][0]) if z[0] == "iter" and z[1] == cp[3][0]]
            ok = len(set(el)) == 1
        if ok:
            bad2 = []
            try:
                for cv in range(0, N + 2):
                    for w in range(0, N + 1):
                        got = q.eval_cell(cp[2][0], {el[0]: cv, ("attr", "wait_time"): w})
                        if got != (0 if cv > w else cv):
                            bad2.append((cv, w, got))
            except q.Undecided:
                bad2.append("undecided")
            ok = not bad2
        ctx.ob("TAB", site, "a counter is set back to 0 exactly when it exceeds wait_time", ok, "", ex[0])
        ctx.ob("MC", site, "the expiry runs over all counters on every path to the return (after the votes)",
               not [p for p in ex[0].pc if (p.cond.single_atom() or ("",))[0] != "inloop"] and ex[0].seq > max(e.seq for e in augs + cm), "", ex[0])
    else:
      i2 = atom(("idx", l2))
      ex = [e for e in tr.mutations("wait_period_counters") if any((p.cond.single_atom() or ("",)) == ("inloop", l2) for p in e.pc)]
      ok = len(ex) == 1 and ex[0].value == const(0) and ex[0].aug is None and ex[0].path == (("item", i2),)
      if ok:
          gs = [p.cond for p in ex[0].pc if (p.cond.single_atom() or ("",))[0] != "inloop"]
          ok = len(gs) == 1
          if ok:
              c = q.is_cmp(gs[0])
              cnt = list({a for a in T.walk(gs[0]) if a[0] == "sub" and a[2] == i2 and _root(a[1]) == "wait_period_counters"})
              ok = c is not None and len(cnt) == 1
              if ok:
                  bad2 = []
                  for cv in range(0, N + 2):
                      for w in range(0, N + 1):
                          got = bool(q.eval_cell(gs[0], {cnt[0]: cv, ("attr", "wait_time"): w}))
                          if got != (cv > w):
                              bad2.append((cv, w, got))
                  ok = not bad2
      ctx.ob("TAB", site, "a counter is set back to 0 exactly when it exceeds wait_time", ok, "", ex[0] if ex else None)
      ctx.ob("MC", site, "the expiry loop runs over all counters on every path to the return (after the votes)",
             v2["iter"].single_atom() is not None and v2["iter"].single_atom()[:2] == ("call", "enumerate") and _root(v2["iter"].single_atom()[2][0]) == "wait_period_counters"
             and not v2["break"] and not [p for p in ex[0].pc[:1] if (p.cond.single_atom() or ("",))[0] != "inloop"] if ex else False, "")
    rets = [e for e in tr.returns() if len(e.stack) == 1]
    ctx.ob("ORD", site, "the verdict is returned after the expiry, on every path", bool(rets) and bool(ex) and all(r.seq > ex[0].seq for r in rets)
           and tr.retval is not None, "")
    # verdict chain
    nd = atom(("loopvar", l1, "$" + drift_name))
    nw = atom(("loopvar", l1, "$" + warn_name))
    s_ = A("sensitivity")
    want = T.mk_ite(T.mk_cmp(">=", nd, s_), const("drift"), T.mk_ite(T.mk_cmp(">=", nw + nd, s_), const("warning"), T.NONE))
    got = tr.retval if rets else None
    okv = got == want
    if not okv and got is not None:
        # decide by cells
        try:
            okv = all(q.eval_cell(got, {nd.single_atom(): a_, nw.single_atom(): b_, ("attr", "sensitivity"): k}) ==
                      ("drift" if a_ >= k else ("warning" if a_ + b_ >= k else None))
                      for a_ in range(N) for b_ in range(N) for k in range(N + 1))
        except q.Undecided:
            okv = False
    ctx.ob("TAB", site, "drift when voters reach sensitivity, warning when voters plus warnings reach it, else None", okv, q.short(got, 160) if got is not None else "")
    init = [e for e in tr.stores("wait_period_counters") if e not in rebuilt]
    ok = len(init) == 1 and q.has_guard(init[0], T.mk_cmp("==", A("wait_period_counters"), T.NONE)) and \
        T.same(init[0].value, atom(("list", (const(0),))) * atom(("call", "len", (P("detectors"),), ())))
    ctx.ob("FRM", site, "counters start at 0 for every member, once", ok, q.short(init[0].value, 60) if init else "")


def _root(t):
    from .c02 import _root_attr
    a = t.single_atom()
    if a is not None and a[0] == "loopvar":
        return a[2]
    return _root_attr(t)
