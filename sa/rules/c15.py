"""C15 - no mutation of, no live reference to, caller data."""
import ast
from .. import terms as T
from ..terms import const, atom
from .. import q
from ..q import A, P, guards
from ..evalr import Evaluator
from .. import prov
from .. import libtable as L
from ..loader import AnalysisError
from .c01 import NONNULL

INJECTORS = ["FeatureShiftInjector", "FeatureSwapInjector", "FeatureCoverInjector", "LabelSwapInjector", "LabelJoinInjector",
             "LabelProbabilityInjector", "LabelDirichletInjector", "BrownianNoiseInjector"]
DATA = {"X", "y_true", "y_pred", "data", "class_probabilities", "alpha_", "sample1", "sample2", "labeled_sample_"}


def run(ctx):
    ctx.trusted.append("library table %s" % L.VERSIONS)
    ctx.explanation = (
        "escape analysis on the value-numbered update / set_reference of every detector and __call__ of every injector: the provenance "
        "(may-alias set over the caller's data parameters) of every value stored into self, appended to a self container, mutated in "
        "place or returned by an injector is computed from the term structure with the library table (what copies, what may view); "
        "validation must return fresh values on every path")
    ctx.assumptions += ["library table (what copies, what may return a view) for " + L.VERSIONS,
                        "MD3.give_oracle_label keeps the first labelled sample by reference: not update/set_reference, reported as information only"]
    validation_fresh(ctx)
    n = 0
    for cname in q.PUBLIC_DETECTORS:
        for meth in ("update", "set_reference"):
            fi = ctx.prog.lookup(ctx.prog.cls(cname), meth)
            if fi is None or fi.cls.name in q.BASES:
                continue
            srcs = {p for p in fi.params()[1:] if p in ("X", "y_true", "y_pred")}
            for cell in ({"_drift_state": None}, {"_drift_state": "drift"}):
                if cname == "MD3":
                    cell = dict(cell, waiting_for_oracle=False)
                tr = ctx.trace(cname, meth, assume=cell, nonnull=NONNULL.get(cname, ("X",)))
                n += sinks(ctx, "%s.%s" % (cname, meth), tr, srcs, injector=False)
    for cname in q.ENSEMBLES:
        for meth in ("update", "set_reference"):
            if ctx.prog.lookup(ctx.prog.cls(cname), meth) is None or ctx.prog.lookup(ctx.prog.cls(cname), meth).cls.name in q.BASES:
                continue
            tr = ctx.trace(cname, meth)
            n += sinks(ctx, "%s.%s" % (cname, meth), tr, {"X", "y_true", "y_pred"}, injector=False)
    for cname in INJECTORS:
        fi = ctx.prog.method(cname, "__call__")
        # `alpha` (LabelDirichletInjector) maps classes to numeric weights: its values are immutable scalars
        srcs = {p for p in fi.params()[1:] if p in ("data", "class_probabilities")}
        tr = ctx.trace(cname, "__call__")
        n += sinks(ctx, cname + ".__call__", tr, srcs, injector=True)
        injector_state(ctx, cname, tr)
    for cname, meths in (("NNSpacePartitioner", ("build",)), ("KDQTreePartitioner", ("build", "fill"))):
        for m in meths:
            fi = ctx.prog.method(cname, m)
            tr = Evaluator(ctx.prog, ctx.prog.cls(cname), max_reentry=1).run(fi)
            ctx._traces[("c15", cname, m)] = tr
            n += sinks(ctx, "%s.%s" % (cname, m), tr, set(fi.params()[1:]) & {"data", "sample1", "sample2"}, injector=False)
    ctx.floor("sinks examined", n, 60)
    # information: MD3.give_oracle_label
    tr = ctx.trace("MD3", "give_oracle_label", assume={"waiting_for_oracle": True})
    st = [e for e in tr.stores("oracle_data") if prov.alias(e.value, {"labeled_sample"}, unknown=[])]
    ctx.notes.append("MD3.give_oracle_label stores its argument by reference (%d site); outside the scope of C15 (not update/set_reference)" % len(st))
    ctx.extra["information"] = ctx.notes


def validation_fresh(ctx):
    for base in ("StreamingDetector", "BatchDetector"):
        for fn, p in (("_validate_X", "X"), ("_validate_y", "y")):
            tr = Evaluator(ctx.prog, ctx.prog.cls(base), nonnull=(p,)).run(ctx.prog.method(base, fn))
            ctx._traces[("c15v", base, fn)] = tr
            bad = []
            try:
                for e in tr.returns():
                    if len(e.stack) != 1:
                        continue
                    for conds, leaf in q.ite_leaves(e.value):
                        al = prov.alias(leaf, {p})
                        if al:
                            bad.append(q.short(leaf, 80))
            except prov.Unknown as ex:
                raise AnalysisError(str(ex))
            ctx.ob("ESC-validate", "%s.%s" % (base, fn), "validation returns a value that shares no memory with its argument, on every path", not bad,
                   "may alias the argument: %s" % "; ".join(bad))
            for e in tr.stores():
                al = prov.alias(e.value, {p}, unknown=[])
                ctx.ob("ESC-store", "%s.%s" % (base, fn), "validation state %s holds no reference to caller data" % e.attr, not al, q.short(e.value, 80), e)


def sinks(ctx, site, tr, srcs, injector):
    n = 0
    seen = set()
    unknown = []

    def al(t):
        try:
            return prov.alias(t, srcs, loops=tr.loops)
        except prov.Unknown as ex:
            raise AnalysisError("%s: %s" % (site, ex))

    def report(rule, ev, what, t, msg):
        k = (rule, ev.func.qualname, what)
        if k in seen:
            return
        seen.add(k)
        a = al(t)
        ctx.ob(rule, ev.func.qualname, what, not a, (msg % "/".join(sorted(a))) if a else "fresh", ev)

    for e in tr.events:
        if e.kind == "store":
            n += 1
            report("ESC-store", e, "self.%s holds no live reference to caller data" % e.attr, e.value,
                   "the stored value may share memory with the caller's %s: later changes by the caller change the detector")
        elif e.kind == "mutate":
            n += 1
            if e.how.startswith("method:") or e.how in ("setitem", "setattr"):
                report("ESC-store", e, "value put into self.%s holds no live reference to caller data" % e.attr, e.value,
                       "a value that may share memory with the caller's %s is kept inside self." + e.attr)
        elif e.kind == "localmut":
            old = e.d.get("old")
            if isinstance(old, T.R) and _fresh_container_op(old, e, tr):
                n += 1   # a work list / stack / dict built here: adding or removing entries does not write into the entries
                continue
            if isinstance(old, T.R):
                n += 1
                report("ESC-mutate", e, "in-place %s of %s does not touch caller data" % (e.how, e.name or "a value"), old,
                       "the object modified in place may be (a view of) the caller's %s")
        elif e.kind == "return" and injector and len(e.stack) == 1:
            n += 1
            report("ESC-return", e, "the injector returns a new object", e.value, "the returned object may be (a view of) the input %s")
        elif e.kind == "call" and e.callee[0] in ("dynamic",):
            # user callables receive what the caller passed (selectors, margin functions): they are the caller's own code
            pass
        elif e.kind == "call" and e.callee[0] == "mcall" and e.callee[1] in ("fill", "sort", "put", "itemset", "resize", "partition", "setflags") and "recv" in e.d:
            n += 1
            report("ESC-mutate", e, "in-place .%s() is not applied to caller data" % e.callee[1], e.recv, "in-place method on a value that may be the caller's %s")
    return n


_CONTAINER_OPS = {"method:append", "method:pop", "method:extend", "method:insert", "method:clear", "method:remove", "method:popitem",
                  "method:update", "method:setdefault", "method:appendleft", "method:popleft", "method:add", "method:discard"}


def _fresh_container_op(old, e, tr=None):
    """The mutated object is a list / dict / set created in this function (a literal, a comprehension, list(...), or one of
    those after earlier entry-level operations) and the operation works on its entries, not inside one of them."""
    if not (e.how in _CONTAINER_OPS or (e.how == "setitem" and len(e.path) == 1)):
        return False
    if e.how != "setitem" and len(e.path) != 0:
        return False
    t = old
    for _ in range(64):
        a = t.single_atom()
        if a is None:
            return False
        if a[0] in ("list", "dict", "set", "comp"):
            return True
        if a[0] == "call" and a[1] in ("list", "dict", "set", "collections.deque", "collections.defaultdict", "collections.OrderedDict"):
            return True
        if a[0] in ("appended", "setitem"):
            t = a[1]
            continue
        if a[0] == "mutated" and not a[2]:
            t = a[1]
            continue
        if a[0] == "mutated" and len(a[2]) == 1 and a[3] == "setitem":
            t = a[1]
            continue
        if a[0] == "loopvar" and tr is not None and isinstance(a[2], str) and a[2].startswith("$") and a[1] in tr.loops:
            # the work list as it stands at the head of a loop: fresh before the loop, never rebound inside it
            nm = a[2][1:]
            inloop = lambda x: any((p_.cond.single_atom() or ("",))[:2] == ("inloop", a[1]) for p_ in x.pc)
            if any(x.name == nm and inloop(x) for x in tr.of("local")):
                return False
            t = tr.loops[a[1]]["pre"].locs.get(nm)
            if t is None:
                return False
            continue
        return False
    return False


def injector_state(ctx, cname, tr):
    """The container recorded by _preprocess is the one of this call (no state carried over between calls)."""
    site = cname + ".__call__"
    loads = [e for e in tr.loads("_columns") if e.func.name == "_postprocess"]
    if not loads and cname == "LabelDirichletInjector":
        ctx.ob("LIVE", site, "delegates to LabelProbabilityInjector (fresh instance)", bool([e for e in tr.calls() if e.callee == ("new", "LabelProbabilityInjector")]), "")
        return
    ctx.anchor(site, "result goes through _postprocess", bool(loads), "")
    for e in loads:
        ok = not T.mentions(e.value, lambda a: a == ("attr", "_columns"))
        ctx.ob("LIVE", site, "_postprocess restores the container type recorded for this call's input", ok,
               "the column labels read by _postprocess may stem from an earlier call (self._columns is not set on every path of _preprocess): "
               "an ndarray input after a DataFrame input comes back as a DataFrame", e)
        break
