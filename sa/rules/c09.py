"""C09 - kdq-tree detectors: bootstrap bound, decision, persistence, reference handling."""
from .. import terms as T
from ..terms import const, atom
from .. import q
from ..q import A, P, S, guards
from ..evalr import Evaluator
from . import c01, c08

DET = "KdqTreeDetector"


def run(ctx):
    ctx.explanation = (
        "quantile level of the bootstrap bound, bootstrap sample construction (2n draws split into complementary halves of size n), "
        "sample size per detector, decision test, persistence 'in a row' (increment / zero pairing), streaming silence until a full "
        "test window, fill mode per detector, reference construction, tree fill completeness")
    ctx.assumptions += ["values of the divergence and of the critical distance are runtime quantities (not decided)"]
    critical(ctx)
    for cname, it in (("KdqTreeStreaming", "stream"), ("KdqTreeBatch", "batch")):
        evaluate(ctx, cname, it)
        reference(ctx, cname, it)
    c08.fill(ctx)


def critical(ctx):
    site = DET + "._get_critical_kld"
    tr = ctx.trace("KdqTreeBatch", "_get_critical_kld")
    ra = tr.retval.single_atom() if tr.retval is not None else None
    ok = ra is not None and ra[0] == "call" and ra[1] == "numpy.quantile" and len(ra[2]) >= 2 and T.same(ra[2][1], const(1) - A("alpha"))
    ctx.ob("POL", site, "critical value is the (1 - alpha) quantile of the bootstrap divergences", ok, q.short(tr.retval, 160))
    ch = [e for e in tr.calls() if e.callee == ("lib", "numpy.random.choice")]
    ctx.anchor(site, "bootstrap draw", len(ch) == 1, "")
    n = P("sample_size")
    if ch:
        kw = dict(ch[0].kwargs)
        ok = T.same(kw.get("size", const(0)), const(2) * n)
        ctx.ob("FRM", site, "each bootstrap draws 2 * sample_size leaf indices", ok, q.short(kw.get("size"), 60) if kw.get("size") is not None else "", ch[0])
        pa = kw.get("p")
        dc = [e for e in tr.calls() if e.d.get("fi") is not None and e.fi.name == "_distn_from_counts"]
        ok = pa is not None and dc and dc[0].args[0] == P("ref_counts") and c08._is_ret(tr, dc[0], pa)
        ctx.ob("FRM", site, "drawn from the corrected reference leaf distribution", bool(ok), "", ch[0])
        un = [e for e in tr.calls() if e.callee == ("lib", "numpy.unique")]
        halves = []
        for e in un:
            a = e.args[0].single_atom()
            if a is not None and a[0] == "sub" and a[1] == ch[0].result:
                halves.append(a[2])
        lo = atom(("slice", T.NONE, n, T.NONE))
        hi = atom(("slice", n, T.NONE, T.NONE))
        ctx.ob("PARTITION", site, "the draw is split into the complementary halves [:n] and [n:]", sorted(map(T.akey, halves)) == sorted(map(T.akey, [lo, hi])),
               "; ".join(q.short(h, 40) for h in halves), ch[0])
    lp = [v for k, v in tr.loops.items() if k.endswith("#L1")]
    it = lp[0]["iter"].single_atom() if lp else None
    ctx.ob("FRM", site, "bootstrap_samples repetitions", it is not None and it[0] == "call" and it[1] == "range" and tuple(it[2]) == (A("bootstrap_samples"),), "")
    en = [e for e in tr.calls() if e.callee == ("lib", "scipy.stats.entropy")]
    ctx.ob("FRM", site, "divergence between the two halves' corrected distributions", len(en) == 1 and len([e for e in tr.calls() if e.d.get("fi") is not None and e.fi.name == "_distn_from_counts"]) == 3, "")


def evaluate(ctx, cname, it):
    site = DET + "._evaluate_kdqtree"
    tr = ctx.trace(cname, "update", assume={"_drift_state": None}, nonnull=("X",))
    kl = [e for e in tr.calls() if e.callee[0] == "foreign" and e.callee[2] == "kl_distance"]
    ctx.anchor(site, "divergence computed [%s]" % cname, len(kl) == 1, "")
    if not kl:
        return
    kw = dict(kl[0].kwargs)
    ok = (kw.get("tree_id1"), kw.get("tree_id2")) == (const("build"), const("test")) or tuple(kl[0].args) == (const("build"), const("test"))
    ctx.ob("FRM", site, "divergence of the test counts from the reference counts over the reference tree's leaves [%s]" % cname, ok, "", kl[0])
    td = kl[0].result
    crit = A("_critical_dist")
    above = T.mk_cmp(">", td, crit)
    ds = [e for e in tr.stores("_drift_state") if e.value == const("drift")]
    ctx.ob("ROLE", site, "drift store [%s]" % cname, len(ds) == 1, "")
    for e in ds:
        ctx.ob("GRD", site, "drift only when divergence > critical value [%s]" % cname, q.has_guard(e, above), "", c01._site_pc_ev(tr, e))
    fl = [e for e in tr.calls() if e.callee[0] == "foreign" and e.callee[2] == "fill"]
    ok = len(fl) == 1 and dict(fl[0].kwargs).get("tree_id") == const("test") and dict(fl[0].kwargs).get("reset") == const(it == "batch")
    ctx.ob("FRM", site, "test data filled under id 'test', %s [%s]" % ("replacing the previous batch" if it == "batch" else "accumulating the window", cname), ok, "", fl[0] if fl else None)
    if fl and kl:
        ctx.ob("ORD", site, "fill precedes the divergence [%s]" % cname, fl[0].seq < kl[0].seq, "")
    if it == "stream":
        n1 = A("_test_data_size") + const(1)
        full = S("n >= A_window_size", {"n": n1})
        ctx.ob("GRD", site, "streaming: silent until window_size test samples have arrived", q.has_guard(kl[0], full), "", kl[0])
        st = [e for e in tr.stores("_test_data_size") if e.func.qualname == site]
        ctx.ob("FRM", site, "streaming: test window size counts one per sample", len(st) == 1 and T.same(st[0].value, n1), "", st[0] if st else None)
        # persistence: consecutive samples above the bound
        cs = [e for e in tr.stores("_drift_counter") if e.func.qualname == site]
        inc = [e for e in cs if T.same(e.value, A("_drift_counter") + const(1))]
        zero = [e for e in cs if e.value == const(0)]
        ctx.ob("PAIR", site, "counter incremented when the divergence is above the bound", len(inc) == 1 and q.has_guard(inc[0], above), "", inc[0] if inc else None)
        okz = len(zero) == 1 and q.has_guard(zero[0], T.mk_not(above)) and q.has_guard(zero[0], full)
        ctx.ob("PAIR", site, "counter set back to 0 when the divergence is not above the bound ('in a row')", okz,
               "without the complementary store the detector alarms after non-consecutive exceedances", zero[0] if zero else None)
        others = [e for e in cs if e not in inc and e not in zero]
        ctx.ob("WR", site, "no other store to the persistence counter", not others, "", others[0] if others else None)
        for e in ds:
            c1 = A("_drift_counter") + const(1)
            ctx.ob("GRD", site, "drift iff more than persistence * window_size consecutive samples", q.has_guard(e, S("c > A_persistence * A_window_size", {"c": c1})), "", c01._site_pc_ev(tr, e))
        trr = ctx.trace(cname, "reset")
        ctx.ob("PAIR", cname + ".reset", "reset zeroes the persistence counter", trr.final.attrs.get("_drift_counter") == const(0), "")
        ctx.ob("PAIR", cname + ".reset", "reset clears the tree and the pending reference samples",
               trr.final.attrs.get("_kdqtree") == T.NONE and trr.final.attrs.get("_test_data_size") == const(0) and
               trr.final.attrs.get("_ref_data") == atom(("call", "numpy.array", (atom(("list", ())),), ())), "")
    else:
        for e in ds:
            same = [x for x in tr.stores("ref_data") if x.pc == c01._site_pc_ev(tr, e).pc]
            ctx.ob("PAIR", site, "batch: the drifted batch is kept as the next reference", len(same) == 1 and T.mentions(same[0].value, lambda a: a == ("param", "X")), "", e)


def reference(ctx, cname, it):
    site = DET + "._inner_set_reference"
    tr = ctx.trace(cname, "update", assume={"_drift_state": None, "_kdqtree": None}, nonnull=("X",))
    cs = q.find_calls(tr, site)
    ctx.anchor(DET + "._evaluate_kdqtree", "reference built when there is no tree [%s]" % cname, len(cs) == 1, "")
    if not cs:
        return
    if it == "stream":
        ok = any(q.is_cmp(g) is not None and q.is_cmp(g)[1] == "==" and T.mentions(g, lambda a: a == ("attr", "window_size")) and T.mentions(g, lambda a: a[0] == "call" and a[1] == "len") for g in guards(cs[0]))
        ctx.ob("GRD", DET + "._evaluate_kdqtree", "streaming: the tree is built from exactly the first window_size samples of an epoch", ok, "", cs[0])
    bd = [e for e in tr.calls() if e.callee[0] == "foreign" and e.callee[2] == "build"]
    ok = len(bd) == 1 and bd[0].args[0] == cs[0].args[0]
    ctx.ob("FRM", site, "tree built from the collected reference data [%s]" % cname, ok, "", bd[0] if bd else None)
    lc = [e for e in tr.calls() if e.callee[0] == "foreign" and e.callee[2] == "leaf_counts"]
    ck = q.find_calls(tr, DET + "._get_critical_kld")
    ok = len(lc) == 1 and lc[0].args == (const("build"),) and len(ck) == 1 and ck[0].args[0] == lc[0].result
    ctx.ob("FRM", site, "bound computed from the reference leaf counts [%s]" % cname, ok, "")
    if ck:
        want = A("window_size") if it == "stream" else atom(("call", "sum", (lc[0].result,), ())) if lc else None
        ctx.ob("FRM", site, "bootstrap sample size is %s [%s]" % ("window_size" if it == "stream" else "the reference size", cname), want is not None and ck[0].args[1] == want, q.short(ck[0].args[1], 80), ck[0])
        st = [e for e in tr.stores("_critical_dist") if e.func.qualname == site]
        ctx.ob("FRM", site, "bound stored as the critical distance [%s]" % cname, len(st) == 1, "")
    rs = [e for e in q.find_calls(tr, cname + ".reset") if q.stack_has(e, site) or e.func.qualname == site]
    ctx.ob("ORD", site, "detector state is reset before the new tree is installed [%s]" % cname, bool(rs) and bool(bd) and rs[0].seq < bd[0].seq, "")
    part = [e for e in tr.calls() if e.callee == ("new", "KDQTreePartitioner")]
    ok = len(part) == 1 and dict(part[0].kwargs).get("count_ubound") == A("count_ubound") and dict(part[0].kwargs).get("cutpoint_proportion_lbound") == A("cutpoint_proportion_lbound")
    ctx.ob("FWD", site, "partitioner gets the detector's count_ubound and cutpoint bound [%s]" % cname, ok, "")
