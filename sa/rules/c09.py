"""C09 - kdq-tree detectors: bootstrap bound, decision, persistence, reference handling."""
from .. import terms as T
from ..terms import const, atom
from .. import q
from ..q import A, P, S, guards
from ..evalr import Evaluator
from . import c01, c08

DET = "KdqTreeDetector"


def run(ctx):
    ctx.explanation = (
        "quantile level of the bootstrap bound, bootstrap sample construction (2n draws split into complementary halves of size n), "
        "sample size per detector, decision test, persistence 'in a row' (increment / zero pairing), streaming silence until a full "
        "test window, fill mode per detector, reference construction, tree fill completeness")
    ctx.assumptions += ["values of the divergence and of the critical distance are runtime quantities (not decided)"]
    critical(ctx)
    for cname, it in (("KdqTreeStreaming", "stream"), ("KdqTreeBatch", "batch")):
        evaluate(ctx, cname, it)
        reference(ctx, cname, it)
        accumulation(ctx, cname, it)
    # the divergence is taken over the leaves of the reference tree: the partitioner's build / fill / leaf distribution rules
    c08.build(ctx)
    c08.fill(ctx)
    c08.dist(ctx)
    c08.wrappers(ctx)
    bootstrap_chain(ctx)
    wrappers(ctx)
    lifecycle(ctx)


def critical(ctx):
    site = DET + "._get_critical_kld"
    tr = ctx.trace("KdqTreeBatch", "_get_critical_kld")
    ra = tr.retval.single_atom() if tr.retval is not None else None
    ok = ra is not None and ra[0] == "call" and ra[1] == "numpy.quantile" and len(ra[2]) >= 2 and T.same(ra[2][1], const(1) - A("alpha"))
    ctx.ob("POL", site, "critical value is the (1 - alpha) quantile of the bootstrap divergences", ok, q.short(tr.retval, 160))
    ch = [e for e in tr.calls() if e.callee == ("lib", "numpy.random.choice")]
    ctx.anchor(site, "bootstrap draw", len(ch) == 1, "")
    n = P("sample_size")
    if ch:
        kw = dict(ch[0].kwargs)
        ok = T.same(kw.get("size", const(0)), const(2) * n)
        ctx.ob("FRM", site, "each bootstrap draws 2 * sample_size leaf indices", ok, q.short(kw.get("size"), 60) if kw.get("size") is not None else "", ch[0])
        pa = kw.get("p")
        dc = [e for e in tr.calls() if e.d.get("fi") is not None and e.fi.name == "_distn_from_counts"]
        ok = pa is not None and dc and dc[0].args[0] == P("ref_counts") and c08._is_ret(tr, dc[0], pa)
        ctx.ob("FRM", site, "drawn from the corrected reference leaf distribution", bool(ok), "", ch[0])
        # the two halves are counted per leaf: np.unique(..., return_counts=True) or np.bincount(..., minlength=k)
        un = [e for e in tr.calls() if e.callee in (("lib", "numpy.unique"), ("lib", "numpy.bincount"))]
        halves = []
        for e in un:
            a = e.args[0].single_atom() if e.args else None
            if a is not None and a[0] == "sub" and a[1] == ch[0].result:
                halves.append(a[2])
        ctx.anchor(site, "the halves of the draw are counted per leaf (numpy.unique / numpy.bincount)", len(halves) >= 1, "")
        lo = atom(("slice", T.NONE, n, T.NONE))
        hi = atom(("slice", n, T.NONE, T.NONE))
        ctx.ob("PARTITION", site, "the draw is split into the complementary halves [:n] and [n:]", sorted(map(T.akey, halves)) == sorted(map(T.akey, [lo, hi])),
               "; ".join(q.short(h, 40) for h in halves), ch[0])
    col = q.collected(tr, ra[2][0]) if ra is not None and ra[0] == "call" and ra[2] else None
    if col is None:
        # the divergences are computed from a list of recorded pairs in a second pass: that list is what is built once per repetition
        lp = [v for k, v in tr.loops.items() if k.endswith("#L1")]
        it = lp[0]["iter"].single_atom() if lp else None
        cnt = it[2][0] if it is not None and it[0] == "call" and it[1] == "range" and len(it[2]) == 1 else None
    else:
        cnt = col[1]
    if ctx.anchor(site, "the bootstrap is a repetition over range(n)", cnt is not None, ""):
        ctx.ob("FRM", site, "bootstrap_samples repetitions", cnt == A("bootstrap_samples"), q.short(cnt, 60))
    en = [e for e in tr.calls() if e.callee == ("lib", "scipy.stats.entropy")]
    ctx.ob("FRM", site, "divergence between the two halves' corrected distributions", len(en) == 1 and len([e for e in tr.calls() if e.d.get("fi") is not None and e.fi.name == "_distn_from_counts"]) == 3, "")


def _eval_site(ctx, cname):
    """qualified name of the evaluation method as the class analysed resolves it (it may be defined in the shared base or
    separately in each of the two detectors)"""
    fi = ctx.prog.lookup(ctx.prog.cls(cname), "_evaluate_kdqtree")
    return fi.qualname if fi is not None else DET + "._evaluate_kdqtree"


def evaluate(ctx, cname, it):
    site = _eval_site(ctx, cname)
    tr = ctx.trace(cname, "update", assume={"_drift_state": None}, nonnull=("X",))
    kl = [e for e in tr.calls() if e.callee[0] == "foreign" and e.callee[2] == "kl_distance"]
    ctx.anchor(site, "divergence computed [%s]" % cname, len(kl) == 1, "")
    if not kl:
        return
    kw = dict(kl[0].kwargs)
    ok = (kw.get("tree_id1"), kw.get("tree_id2")) == (const("build"), const("test")) or tuple(kl[0].args) == (const("build"), const("test"))
    ctx.ob("FRM", site, "divergence of the test counts from the reference counts over the reference tree's leaves [%s]" % cname, ok, "", kl[0])
    td = kl[0].result
    crit = A("_critical_dist")
    above = T.mk_cmp(">", td, crit)
    ds = [e for e in tr.stores("_drift_state") if e.value == const("drift")]
    ctx.ob("ROLE", site, "drift store [%s]" % cname, len(ds) == 1, "")
    for e in ds:
        ctx.ob("GRD", site, "drift only when divergence > critical value [%s]" % cname, q.has_guard(e, above), "", c01._site_pc_ev(tr, e))
    fl = [e for e in tr.calls() if e.callee[0] == "foreign" and e.callee[2] == "fill"]
    ok = len(fl) == 1 and dict(fl[0].kwargs).get("tree_id") == const("test") and dict(fl[0].kwargs).get("reset") == const(it == "batch")
    ctx.ob("FRM", site, "test data filled under id 'test', %s [%s]" % ("replacing the previous batch" if it == "batch" else "accumulating the window", cname), ok, "", fl[0] if fl else None)
    if fl and kl:
        ctx.ob("ORD", site, "fill precedes the divergence [%s]" % cname, fl[0].seq < kl[0].seq, "")
    if it == "stream":
        n1 = A("_test_data_size") + const(1)
        full = S("n >= A_window_size", {"n": n1})
        ctx.ob("GRD", site, "streaming: silent until window_size test samples have arrived", q.has_guard(kl[0], full), "", kl[0])
        # the stores of the evaluation itself or of a helper it calls (not those of reset() / the reference set-up)
        own = lambda e: q.stack_has(e, site) and not any(f.name in ("reset", "_inner_set_reference", "set_reference") for f in e.stack)
        st = [e for e in tr.stores("_test_data_size") if own(e)]
        ctx.ob("FRM", site, "streaming: test window size counts one per sample", len(st) == 1 and T.same(st[0].value, n1), "", st[0] if st else None)
        # persistence: consecutive samples above the bound
        cs = [e for e in tr.stores("_drift_counter") if own(e)]
        inc = [e for e in cs if T.same(e.value, A("_drift_counter") + const(1))]
        zero = [e for e in cs if e.value == const(0)]
        ctx.ob("PAIR", site, "counter incremented when the divergence is above the bound", len(inc) == 1 and q.has_guard(inc[0], above), "", inc[0] if inc else None)
        okz = len(zero) == 1 and q.has_guard(zero[0], T.mk_not(above)) and q.has_guard(zero[0], full)
        ctx.ob("PAIR", site, "counter set back to 0 when the divergence is not above the bound ('in a row')", okz,
               "without the complementary store the detector alarms after non-consecutive exceedances", zero[0] if zero else None)
        others = [e for e in cs if e not in inc and e not in zero]
        ctx.ob("WR", site, "no other store to the persistence counter", not others, "", others[0] if others else None)
        for e in ds:
            c1 = A("_drift_counter") + const(1)
            ctx.ob("GRD", site, "drift iff more than persistence * window_size consecutive samples", q.has_guard(e, S("c > A_persistence * A_window_size", {"c": c1})), "", c01._site_pc_ev(tr, e))
        trr = ctx.trace(cname, "reset")
        ctx.ob("PAIR", cname + ".reset", "reset zeroes the persistence counter", trr.final.attrs.get("_drift_counter") == const(0), "")
        ctx.ob("PAIR", cname + ".reset", "reset clears the tree and the pending reference samples",
               trr.final.attrs.get("_kdqtree") == T.NONE and trr.final.attrs.get("_test_data_size") == const(0) and
               trr.final.attrs.get("_ref_data") == atom(("call", "numpy.array", (atom(("list", ())),), ())), "")
    else:
        for e in ds:
            same = [x for x in tr.stores("ref_data") if x.pc == c01._site_pc_ev(tr, e).pc]
            ctx.ob("PAIR", site, "batch: the drifted batch is kept as the next reference", len(same) == 1 and T.mentions(same[0].value, lambda a: a == ("param", "X")), "", e)


def reference(ctx, cname, it):
    site = DET + "._inner_set_reference"
    tr = ctx.trace(cname, "update", assume={"_drift_state": None, "_kdqtree": None}, nonnull=("X",))
    cs = q.find_calls(tr, site)
    ctx.anchor(DET + "._evaluate_kdqtree", "reference built when there is no tree [%s]" % cname, len(cs) == 1, "")
    if not cs:
        return
    if it == "stream":
        ok = any(q.is_cmp(g) is not None and q.is_cmp(g)[1] == "==" and T.mentions(g, lambda a: a == ("attr", "window_size")) and T.mentions(g, lambda a: a[0] == "call" and a[1] == "len") for g in guards(cs[0]))
        ctx.ob("GRD", DET + "._evaluate_kdqtree", "streaming: the tree is built from exactly the first window_size samples of an epoch", ok, "", cs[0])
    bd = [e for e in tr.calls() if e.callee[0] == "foreign" and e.callee[2] == "build"]
    ok = len(bd) == 1 and bd[0].args[0] == cs[0].args[0]
    ctx.ob("FRM", site, "tree built from the collected reference data [%s]" % cname, ok, "", bd[0] if bd else None)
    lc = [e for e in tr.calls() if e.callee[0] == "foreign" and e.callee[2] == "leaf_counts"]
    ck = q.find_calls(tr, DET + "._get_critical_kld")
    ok = len(lc) == 1 and lc[0].args == (const("build"),) and len(ck) == 1 and ck[0].args[0] == lc[0].result
    ctx.ob("FRM", site, "bound computed from the reference leaf counts [%s]" % cname, ok, "")
    if ck:
        want = A("window_size") if it == "stream" else atom(("call", "sum", (lc[0].result,), ())) if lc else None
        ctx.ob("FRM", site, "bootstrap sample size is %s [%s]" % ("window_size" if it == "stream" else "the reference size", cname), want is not None and ck[0].args[1] == want, q.short(ck[0].args[1], 80), ck[0])
        st = [e for e in tr.stores("_critical_dist") if q.within(e, site, ("reset",))]
        ctx.ob("FRM", site, "bound stored as the critical distance [%s]" % cname, len(st) == 1, "")
    rs = [e for e in q.find_calls(tr, cname + ".reset") if q.stack_has(e, site) or q.stack_has(e, site)]
    ctx.ob("ORD", site, "detector state is reset before the new tree is installed [%s]" % cname, bool(rs) and bool(bd) and rs[0].seq < bd[0].seq, "")
    part = [e for e in tr.calls() if e.callee == ("new", "KDQTreePartitioner")]
    ok = len(part) == 1 and dict(part[0].kwargs).get("count_ubound") == A("count_ubound") and dict(part[0].kwargs).get("cutpoint_proportion_lbound") == A("cutpoint_proportion_lbound")
    ctx.ob("FWD", site, "partitioner gets the detector's count_ubound and cutpoint bound [%s]" % cname, ok, "")


# ---------------------------------------------------------------------------
# reference accumulation, bookkeeping stores, bootstrap histogram chain, wrappers, lifecycle

def _mchain(t):
    """[(method, args, kwargs), ...] outermost first, and the innermost receiver, of a chain of method calls."""
    out = []
    a = t.single_atom() if t is not None else None
    while a is not None and a[0] == "mcall":
        out.append((a[2], a[3], dict(a[4])))
        t = a[1]
        a = t.single_atom()
    return out, t


def accumulation(ctx, cname, it):
    site = _eval_site(ctx, cname)
    tr = ctx.trace(cname, "update", assume={"_drift_state": None, "_kdqtree": None}, nonnull=("X",))
    inner = lambda e: q.stack_has(e, site) and not any(f.name in ("reset", "_inner_set_reference", "set_reference") for f in e.stack)
    st = [e for e in tr.stores("_ref_data") if inner(e)]
    ary = None
    cs = [e for e in tr.calls() if e.d.get("fi") is not None and e.fi.qualname == site]
    if cs:
        ary = cs[0].args[1] if len(cs[0].args) > 1 and cs[0].args[0].single_atom() == ("self",) else cs[0].args[0]
    ok = False
    if 1 <= len(st) <= 2 and ary is not None:
        rd = A("_ref_data")
        stacked = atom(("call", "numpy.vstack", (atom(("list", (rd, ary))),), ()))
        # one store of a conditional value, or one store per branch
        leaves = [(tuple(c_) + (tuple(q.guards(e)) if len(st) > 1 else ()), l) for e in st for c_, l in q.ite_leaves(e.value)]
        ok = len(leaves) == 2 and {T.akey(l) for _c, l in leaves} == {T.akey(stacked), T.akey(ary)}
        if ok:
            for c_, l in leaves:
                size = atom(("getattr", rd, "size"))
                pos = any(x == size or q.pred_equiv(x, T.mk_cmp("!=", size, const(0))) or (x.single_atom() or ("",))[0] in ("truth", "bool") and x.single_atom()[1] == size for x in c_)
                ok = ok and (pos == (l == stacked))
    ctx.ob("FRM", site, "reference samples are collected in arrival order (stacked below what is already held) [%s]" % cname, ok, q.short(st[0].value, 160) if st else "", st[0] if st else None)
    if cs:
        b_ = q.bind(cs[0])
        if "input_type" in b_ or len(cs[0].fi.params()) > 2:
            ctx.ob("FWD", cname + ".update", "the evaluation is told whether it runs on a stream or on batches [%s]" % cname, b_.get("input_type", cs[0].args[-1]) == const(it), q.short(cs[0].args[-1], 30), cs[0])
        # else: the evaluation method belongs to this class alone and takes no mode (its mode-specific steps are decided by the other obligations)
        xv = q.validated(tr, 0)
        ctx.ob("FWD", cname + ".update", "the data evaluated is a private copy of the validated input [%s]" % cname,
               xv is not None and ary == atom(("call", "copy.deepcopy", (xv,), ())), q.short(ary, 80) if ary is not None else "", cs[0])
    site2 = DET + "._inner_set_reference"
    clr = [e for e in tr.stores("_ref_data") if q.within(e, site2, ("reset",))]
    empty = atom(("call", "numpy.array", (atom(("list", ())),), ()))
    if it == "stream":
        ctx.ob("PAIR", site2, "streaming: the collected window is released once the tree is built", len(clr) == 1 and clr[0].value == empty, "", clr[0] if clr else None)
    else:
        ctx.ob("PAIR", site2, "batch: nothing else touches the collected reference", not clr, "", clr[0] if clr else None)
    # test path: the divergence of this update is what is published
    tr2 = ctx.trace(cname, "update", assume={"_drift_state": None}, nonnull=("X",))
    kl = [e for e in tr2.calls() if e.callee[0] == "foreign" and e.callee[2] == "kl_distance"]
    td = [e for e in tr2.stores("_test_dist") if inner(e)]
    ctx.ob("FRM", site, "the divergence computed is the one published as test distance [%s]" % cname, len(kl) == 1 and len(td) == 1 and td[0].value == kl[0].result, "", td[0] if td else None)
    fl = [e for e in tr2.calls() if e.callee[0] == "foreign" and e.callee[2] == "fill"]
    tree = A("_kdqtree")
    for e, what in ((fl[0] if fl else None, "test data is filled"), (kl[0] if kl else None, "the divergence is computed")):
        if e is None:
            continue
        ctx.ob("GRD", site, "%s only when a reference tree exists [%s]" % (what, cname), q.has_guard(e, T.mk_cmp("!=", tree, T.NONE)), "", e)
        ctx.ob("FWD", site, "%s on the detector's tree [%s]" % (what, cname), q.unmut(e.recv) == tree, q.short(e.recv, 60), e)
    if fl and cs:
        cs2 = [e for e in tr2.calls() if e.d.get("fi") is not None and e.fi.qualname == site]
        a2 = cs2[0].args[1] if cs2 and len(cs2[0].args) > 1 and cs2[0].args[0].single_atom() == ("self",) else (cs2[0].args[0] if cs2 else None)
        ctx.ob("FWD", site, "the data of this update is what is filled [%s]" % cname, a2 is not None and fl[0].args[:1] == (a2,), "", fl[0])


def bootstrap_chain(ctx):
    site = DET + "._get_critical_kld"
    tr = ctx.trace("KdqTreeBatch", "_get_critical_kld")
    ch = [e for e in tr.calls() if e.callee == ("lib", "numpy.random.choice")]
    dc = [e for e in tr.calls() if e.d.get("fi") is not None and e.fi.name == "_distn_from_counts"]
    if len(ch) != 1 or len(dc) != 3:
        return  # reported by critical()
    k_ = atom(("call", "len", (P("ref_counts"),), ()))
    bins = atom(("call", "list", (atom(("call", "range", (k_,), ())),), ()))
    ctx.ob("FRM", site, "the draw is over the leaf indices 0..k-1", ch[0].args[:1] in ((bins,), (atom(("call", "numpy.arange", (k_,), ())),), (k_,)), q.short(ch[0].args[0], 80) if ch[0].args else "", ch[0])
    n = P("sample_size")
    want_halves = [atom(("slice", T.NONE, n, T.NONE)), atom(("slice", n, T.NONE, T.NONE))]
    seen = []
    for e in dc[1:]:
        a = e.args[0].single_atom()
        if a is not None and a[0] == "call" and a[1] == "numpy.bincount":
            # counts per leaf index directly: bincount(half, minlength=k) is the histogram over all leaves in leaf order, missing leaves 0
            h = a[2][0].single_atom() if a[2] else None
            ok = h is not None and h[0] == "sub" and h[1] == ch[0].result and dict(a[3]).get("minlength") == k_
            seen.append(h[2] if ok else None)
            ctx.ob("FRM", site, "each half becomes a histogram over ALL leaves in leaf order (missing leaves 0) before the correction", ok,
                   "numpy.bincount(half, minlength=len(ref_counts)) expected; found %s" % q.short(e.args[0], 200), e)
            continue
        ok = a is not None and a[0] == "sub" and a[2] == const("count")
        chain, base = _mchain(a[1]) if ok else ([], None)
        names = [c_[0] for c_ in chain]
        ok = ok and names == ["sort_values", "fillna", "merge"]
        if ok:
            sv, fn, mg = chain
            ok = sv[2].get("by") == const("leaf") and fn[1] == (const(0),) and mg[2].get("on") == const("leaf") and mg[2].get("how") == const("outer")
            allbins = mg[1][0].single_atom() if mg[1] else None
            ok = ok and allbins is not None and allbins[0] == "call" and allbins[1] == "pandas.DataFrame" and q.sub(allbins[2][0], const("leaf")) == bins
            b = base.single_atom()
            ok = ok and b is not None and b[0] == "call" and b[1] == "pandas.DataFrame"
            if ok:
                lf, ct = q.sub(b[2][0], const("leaf")), q.sub(b[2][0], const("count"))
                la, ca = lf.single_atom(), ct.single_atom()
                ok = la is not None and ca is not None and la[0] == "sub" and ca[0] == "sub" and la[1] == ca[1] and la[2] == const(0) and ca[2] == const(1)
                if ok:
                    u = la[1].single_atom()
                    ok = u is not None and u[0] == "call" and u[1] == "numpy.unique" and dict(u[3]).get("return_counts") == T.TRUE
                    if ok:
                        h = u[2][0].single_atom()
                        ok = h is not None and h[0] == "sub" and h[1] == ch[0].result
                        seen.append(h[2] if ok else None)
        ctx.ob("FRM", site, "each half becomes a histogram over ALL leaves in leaf order (missing leaves 0) before the correction", ok,
               "merge(all leaves, on=leaf, how=outer) . fillna(0) . sort_values(by=leaf) . ['count'] expected; found %s" % q.short(e.args[0], 200), e)
    ctx.ob("PARTITION", site, "the two histograms come from the two halves of the same draw", sorted(map(T.akey, [s for s in seen if s is not None])) == sorted(map(T.akey, want_halves)), "")
    # the pair appended is (first half, second half) and the divergence is taken in that order
    en = [e for e in tr.calls() if e.callee == ("lib", "scipy.stats.entropy")]
    ap = [e for e in tr.of("localmut") if e.how == "method:append" and q.stack_has(e, site)]
    if ctx.anchor(site, "the pairs of distributions are recorded in a list, the divergences taken in a second pass", len(ap) == 1, ""):
        ok = len(en) == 1
        if ok:
            pr = ap[0].value.single_atom()[1][0].single_atom()
            pair = None
            if pr is not None and pr[0] in ("list", "tuple") and len(pr[1]) == 2:
                pair = pr[1]                       # the pair is recorded, the divergence taken in a second pass
            elif pr is not None and pr[0] == "call" and pr[1] == "scipy.stats.entropy" and len(pr[2]) == 2:
                pair = pr[2]                       # the divergence of the pair is recorded directly
            ok = pair is not None and q.call_value(tr, dc[1]) == pair[0] and q.call_value(tr, dc[2]) == pair[1]
        ctx.ob("FRM", site, "one pair of corrected distributions is recorded per bootstrap repetition", ok, "", ap[0] if ap else None)


def wrappers(ctx):
    for cname in ("KdqTreeStreaming", "KdqTreeBatch"):
        tr = ctx.trace(cname, "to_plotly_dataframe")
        fc = [e for e in tr.calls() if e.callee[0] == "foreign" and e.callee[2] == "to_plotly_dataframe"]
        ok = 1 <= len(fc) <= 2
        if ok:
            # one call per case, or one call with a conditional argument: the cases are the leaves of the argument under the call's guards
            given = T.mk_cmp("!=", P("input_cols"), T.NONE)
            cases = set()
            for e in fc:
                b = q.bind(e) if e.d.get("fi") is not None else {}
                cols = b.get("input_cols", e.args[3] if len(e.args) > 3 else dict(e.kwargs).get("input_cols"))
                if cols is None:
                    ok = False
                    continue
                for conds, l in q.ite_leaves(cols):
                    cs_ = [y for x in conds for y in q.conjuncts(x)] + q.guards(e)
                    if given in cs_:
                        cases.add("given")
                        ok = ok and l == P("input_cols")
                    elif T.mk_not(given) in cs_:
                        cases.add("absent")
                        ok = ok and l == A("_input_cols")
                    else:
                        ok = False
                three = (b.get("tree_id1"), b.get("tree_id2"), b.get("max_depth")) if b else tuple(e.args[:3])
                ok = ok and three == (P("tree_id1"), P("tree_id2"), P("max_depth"))
            ok = ok and cases == {"given", "absent"}
        ctx.ob("FWD", DET + ".to_plotly_dataframe", "column names given by the caller are used, else those seen at validation [%s]" % cname, ok, "")
    ti = ctx.trace("KdqTreeStreaming", "__init__")
    rs = [e for e in ti.raises() if e.exc == "ValueError" and q.stack_has(e, "KdqTreeStreaming.__init__")]
    ws = P("window_size")
    bad = T.mk_or([T.mk_not(atom(("call", "isinstance", (ws, atom(("global", "builtins.int"))), ()))), T.mk_cmp("<", ws, const(1))])
    ok = len(rs) == 1 and any(g == bad or q.pred_equiv(g, bad) for g in [T.mk_and(guards(rs[0]))] + guards(rs[0]))
    ctx.ob("GRD", "KdqTreeStreaming.__init__", "window_size must be an integer >= 1", ok, "guards: %s" % "; ".join(q.short(g, 80) for e in rs for g in guards(e)), rs[0] if rs else None)
    tb = ctx.trace("KdqTreeBatch", "set_reference", nonnull=("X",))
    xv = q.validated(tb, 0)
    cs = q.find_calls(tb, DET + "._inner_set_reference")
    ok = len(cs) == 1 and xv is not None and cs[0].args[:1] == (atom(("call", "copy.deepcopy", (xv,), ())),) and dict(cs[0].kwargs).get("input_type", cs[0].args[1] if len(cs[0].args) > 1 else None) == const("batch")
    ctx.ob("FWD", "KdqTreeBatch.set_reference", "the reference tree is built from a private copy of the validated batch, in batch mode", ok, "")


def lifecycle(ctx):
    from . import common
    common.lifecycle(ctx, ["KdqTreeStreaming", "KdqTreeBatch"])
    for cname in ("KdqTreeStreaming", "KdqTreeBatch"):
        tab = {"_test_data_size": 0, "_kdqtree": T.NONE, "_critical_dist": T.NONE, "_test_dist": T.NONE,
               "_ref_data": atom(("call", "numpy.array", (atom(("list", ())),), ()))}
        if cname == "KdqTreeStreaming":
            tab["_drift_counter"] = 0
        common.init_table(ctx, cname, tab)
