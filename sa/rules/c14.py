"""C14 - uniform validation, harmless rejections, containers."""
from .. import terms as T
from ..terms import const, atom
from .. import q
from ..q import A, P, S, guards
from ..evalr import Evaluator
from .c01 import NONNULL

BASES2 = ("StreamingDetector", "BatchDetector")
DETS = [d for d in q.PUBLIC_DETECTORS if d != "MD3"]
UNIVARIATE = ("ADWIN", "CUSUM", "PageHinkley", "CDBD")
DATA = ("X", "y_true", "y_pred")


def run(ctx):
    ctx.explanation = (
        "validate-first (raw arguments reach nothing but the validation helpers; afterwards only the validated value is used), "
        "normal forms of the row-count / column / label-shape / univariate guards and their exception type, commit-after-check "
        "(no state write on a path to a validation raise), width established once, who may write the validation state. MD3 is "
        "excluded (it requires DataFrames by documentation and has its own checks, C19)")
    ctx.assumptions += ["equality of outputs for equivalent containers is decided as 'only the validated value is used'; numpy's coercion of equivalent containers to equal arrays is library behaviour"]
    guards_rules(ctx)
    validators(ctx)
    writers(ctx)
    once(ctx)
    for cname in DETS:
        for meth in ("update", "set_reference"):
            if ctx.prog.lookup(ctx.prog.cls(cname), meth) is None or ctx.prog.lookup(ctx.prog.cls(cname), meth).cls.name in BASES2:
                continue
            validate_first(ctx, cname, meth)
            commit_after_check(ctx, cname, meth)
            if meth == "update":
                commit_after_restart(ctx, cname)
    for cname in UNIVARIATE:
        univariate(ctx, cname)


# ---------------------------------------------------------------------------
def vtrace(ctx, base, name, **kw):
    key = ("c14", base, name, repr(sorted(kw.items(), key=repr)))
    if key not in ctx._traces:
        ci = ctx.prog.cls(base)
        ctx._traces[key] = Evaluator(ctx.prog, ci, **kw).run(ctx.prog.lookup(ci, name))
    return ctx._traces[key]


def raise_with(tr, pred):
    return [e for e in tr.raises() if any(pred(g) for g in guards(e))]


def guards_rules(ctx):
    for base in BASES2:
        site = base + "._validate_X"
        tr = vtrace(ctx, base, "_validate_X", nonnull=("X",))
        for e in tr.raises():
            ctx.ob("EXC-type", site, "rejections raise ValueError", e.exc == "ValueError", "raises %s" % e.exc, e, nontrivial=False)
        # row count
        rows = [e for e in tr.raises() if any(_is_rowcount(g, base) for g in guards(e))]
        ctx.ob("GRD", site, "row count: %s" % ("exactly one observation" if base.startswith("Stream") else "at least two observations"), len(rows) == 1,
               "expected a raise under %s" % ("shape[0] != 1" if base.startswith("Stream") else "shape[0] <= 1"), rows[0] if rows else None)
        # every return path has passed the row-count test
        for e in tr.returns():
            if len(e.stack) == 1:
                ok = any(_is_rowcount(_neg(g), base) for g in guards(e))
                ctx.ob("GRD", site, "accepted input passed the row-count test", ok, "", e, nontrivial=False)
        # DataFrame: names must match once established
        df = atom(("call", "isinstance", (P("X"), atom(("global", "pandas.DataFrame"))), ()))
        eq = atom(("mcall", atom(("getattr", P("X"), "columns")), "equals", (A("_input_cols"),), ()))
        names = [e for e in tr.raises() if q.has_guard(e, T.mk_not(eq)) and q.has_guard(e, df) and q.has_guard(e, T.mk_cmp("!=", A("_input_cols"), T.NONE))]
        ctx.ob("GRD", site, "DataFrame whose columns differ from the established names (Index.equals: same labels, same order) is rejected", len(names) == 1,
               "expected: raise under isinstance(X, DataFrame) and _input_cols is not None and not X.columns.equals(_input_cols)", names[0] if names else None)
        # array: width must match once established
        wid = [e for e in tr.raises() if q.has_guard(e, T.mk_not(df)) and q.has_guard(e, T.mk_cmp("!=", A("_input_col_dim"), T.NONE))
               and any(_is_width_cmp(g) for g in guards(e))]
        ctx.ob("GRD", site, "array whose number of columns differs from the established width is rejected", len(wid) == 1, "", wid[0] if wid else None)
        # coercion of 1-d input
        rs = [e for e in tr.of("local") if T.mentions(e.value, lambda a: a[0] == "mcall" and a[2] == "reshape") and (e.value.single_atom() or ("",))[0] == "mcall"]
        want = (const(1), const(-1)) if base.startswith("Stream") else (const(-1), const(1))
        ok = len(rs) == 1 and rs[0].value.single_atom()[3] == want   # reshape((1, -1)) is normalised to reshape(1, -1)
        ctx.ob("FRM", site, "1-d input is coerced to %s" % ("one row" if base.startswith("Stream") else "one column"), ok, "", rs[0] if rs else None)
        # y
        ty = vtrace(ctx, base, "_validate_y", nonnull=("y",))
        for e in ty.raises():
            ctx.ob("EXC-type", base + "._validate_y", "rejections raise ValueError", e.exc == "ValueError", "raises %s" % e.exc, e, nontrivial=False)
        if base.startswith("Stream"):
            arr = atom(("mcall", atom(("call", "numpy.array", (P("y"),), ())), "ravel", (), ()))
            want = T.mk_cmp("!=", atom(("getattr", arr, "shape")), atom(("tuple", (const(1),))))
            want_size = T.mk_cmp("!=", atom(("getattr", arr, "size")), const(1))   # for the flattened array the same test
            r = [e for e in ty.raises() if q.has_guard(e, want) or q.has_guard(e, want_size)]
            ctx.ob("GRD", base + "._validate_y", "labels: exactly one observation", len(r) == 1 and len(ty.raises()) == 1, "", r[0] if r else None)
        else:
            def leafcmp(g, op, k):
                a = g.single_atom()
                if a is not None and a[0] == "ite":
                    return all(leafcmp(l, op, k) for _c, l in q.ite_leaves(g))
                c_ = q.is_cmp(g)
                return c_ is not None and c_[1] == op and _shape_idx(g) == k
            r1 = [e for e in ty.raises() if any(leafcmp(g, "==", 0) for g in guards(e))]
            r2 = [e for e in ty.raises() if any(leafcmp(g, "!=", 1) for g in guards(e))]
            ctx.ob("GRD", base + "._validate_y", "labels: more than one observation", len(r1) == 1, "", r1[0] if r1 else None)
            ctx.ob("GRD", base + "._validate_y", "labels: exactly one column", len(r2) == 1, "", r2[0] if r2 else None)
        # _validate_input applies the validators to exactly the non-None arguments
        ti = vtrace(ctx, base, "_validate_input")
        cx = q.find_calls(ti, base + "._validate_X")
        cy = q.find_calls(ti, base + "._validate_y")
        ok = len(cx) == 1 and cx[0].args == (P("X"),) and q.has_guard(cx[0], T.mk_cmp("!=", P("X"), T.NONE)) and len(cy) == 2 and \
            {c.args[0] for c in cy} == {P("y_true"), P("y_pred")}
        ctx.ob("FWD", base + "._validate_input", "X through _validate_X, each label through _validate_y, None passed through", ok, "")


def _rows_as_shape0(g):
    """len(x) written as x.shape[0] (the number of rows, whichever way it is spelt) - only where x is not itself a shape"""
    def f(z):
        if z[0] == "call" and z[1] == "len" and len(z[2]) == 1:
            b = z[2][0].single_atom()
            if b is not None and ((b[0] == "getattr" and b[2] == "shape") or (b[0] == "call" and b[1] == "numpy.shape")):
                return None
            return q.sub(_g(z[2][0], "shape"), 0)   # distributed over the cases of a conditional value
        return None
    return T.subst(g, f)


def _is_rowcount(g, base):
    g = _rows_as_shape0(_push_not(g))
    a = g.single_atom()
    if a is not None and a[0] == "ite":
        return all(_is_rowcount(l, base) for _c, l in q.ite_leaves(g))
    if a is not None and a[0] == "not":
        return False
    c = q.is_cmp(g)
    if c is not None and any(x[0] == "ite" for x in c[2].atoms()):
        # a comparison of a conditional value: the comparison of each of its cases
        return all(_is_rowcount(atom(("cmp", c[1], l)), base) for _cs, l in q.ite_leaves(c[2]))
    if c is None or _shape_idx(g) != 0:
        return False
    d = c[2]
    sh = [a for a in d.atoms() if a[0] == "sub"]
    if len(sh) != 1:
        return False
    s = atom(sh[0])
    if base.startswith("Stream"):
        return c[1] == "!=" and (T.same(d, s - const(1)) or T.same(d, const(1) - s))
    # shape[0] <= 1   ->  1 - shape[0] >= 0
    return c[1] == ">=" and T.same(d, const(1) - s) or (c[1] == ">" and T.same(d, const(2) - s))


def _is_multicol(g):
    g = _push_not(g)
    """<validated or raw X>.shape[1] != 1 (possibly distributed over the container cases)."""
    a = g.single_atom()
    if a is not None and a[0] == "ite":
        return all(_is_multicol(l) for _c, l in q.ite_leaves(g))
    c = q.is_cmp(g)
    if c is None or c[1] != "!=" or _shape_idx(g) != 1 or T.mentions(g, lambda z: z[0] == "attr"):
        return False
    sh = [x for x in c[2].atoms() if x[0] == "sub"]
    if len(sh) != 1:
        return False
    s = atom(sh[0])
    return T.same(c[2], s - const(1)) or T.same(c[2], const(1) - s)


def _push_not(x):
    """`not ite(c, A, B)` as `ite(c, not A, not B)` (negation pushed to the leaves, where comparisons absorb it)."""
    a = x.single_atom()
    if a is not None and a[0] == "not":
        inner = a[1].single_atom()
        if inner is not None and inner[0] == "ite":
            return T.mk_ite(inner[1], _push_not(T.mk_not(inner[2])), _push_not(T.mk_not(inner[3])))
    return x


def _holds_for_2d(g, ndim=2):
    """A side condition of the univariate guard that is true of every validated (2-D) batch: a comparison of
    len(<X>.shape) / <X>.ndim with constants, decided by folding with the value 2."""
    def f(z, const=lambda v: T.const(ndim)):
        if z[0] == "call" and z[1] == "len" and len(z[2]) == 1:
            if all((b.single_atom() or ("",))[0] == "getattr" and b.single_atom()[2] == "shape" or
                   ((b.single_atom() or ("",))[0] == "call" and b.single_atom()[1] == "numpy.shape") for _c, b in q.ite_leaves(z[2][0])):
                return const(2)
        if z[0] == "getattr" and z[2] == "ndim":
            return const(2)
        if z[0] == "call" and z[1] == "numpy.ndim":
            return const(2)
        return None
    # the truthiness of shape[k:] ("is there a k-th axis?") is ndim > k
    ga = g.single_atom()
    if ga is not None and ga[0] == "sub":
        b, sl = ga[1].single_atom(), ga[2].single_atom()
        if b is not None and ((b[0] == "getattr" and b[2] == "shape") or (b[0] == "call" and b[1] == "numpy.shape")) and sl is not None and sl[0] == "slice" \
                and sl[1].is_const() and sl[2] == T.NONE and sl[3] == T.NONE:
            return ndim > int(sl[1].const_value())
    return T.subst(g, f) == T.TRUE


def _neg(g):
    """Negation pushed through gated phis."""
    a = g.single_atom()
    if a is not None and a[0] == "not":
        return a[1]
    if a is not None and a[0] == "ite":
        return T.mk_ite(a[1], _neg(a[2]), _neg(a[3]))
    return T.mk_not(g)


def _shape_idx(g):
    """Index k if the comparison is about <something>.shape[k] (all leaves), else None."""
    ks = set()
    for a in T.walk(g):
        if a[0] == "sub":
            b = a[1].single_atom()
            if b is not None and ((b[0] == "getattr" and b[2] == "shape") or (b[0] == "call" and b[1] == "numpy.shape")) and a[2].is_const():
                ks.add(int(a[2].const_value()))
    return ks.pop() if len(ks) == 1 else None


def _is_width_cmp(g):
    c = q.is_cmp(g)
    return c is not None and c[1] == "!=" and _shape_idx(g) == 1 and T.mentions(g, lambda a: a == ("attr", "_input_col_dim"))


def writers(ctx):
    """_input_cols / _input_col_dim are written only by the base __init__ (None) and _validate_X."""
    seen = set()
    n = 0
    for cname in DETS + q.ENSEMBLES:
        ci = ctx.prog.cls(cname)
        names = []
        for c in ci.mro:
            names += [m for m in c.methods if m not in names]
        for m in names:
            tr = ctx.trace_member(cname, m)
            if tr is None:
                continue
            for e in tr.stores():
                if e.attr not in ("_input_cols", "_input_col_dim"):
                    continue
                k = (e.func.qualname, e.line)
                if k in seen:
                    continue
                seen.add(k)
                n += 1
                fn = e.func
                in_validation = any(f.name == "_validate_X" and f.cls is not None and f.cls.name in BASES2 for f in e.stack)
                ok = (fn.cls is not None and fn.cls.name in BASES2 and fn.name == "__init__" and e.value == T.NONE) or in_validation
                ctx.ob("WR", fn.qualname, "store %s" % e.attr, ok,
                       "the established column names / width may only be set by validation (a later reset must not forget them)", e)
    ctx.floor("stores to the validation state", n, 4)


def once(ctx):
    """Width established once; an established width is always compared."""
    for base in BASES2:
        site = base + "._validate_X"
        tr = vtrace(ctx, base, "_validate_X", nonnull=("X",))
        for e in tr.stores("_input_col_dim"):
            ok = q.has_guard(e, T.mk_cmp("==", A("_input_col_dim"), T.NONE))
            br = "DataFrame branch" if any(T.mentions(g, lambda a: a[0] == "call" and a[1] == "isinstance") and (g.single_atom() or ("",))[0] != "not" for g in guards(e)) else "array branch"
            ctx.ob("WR-once", site, "width stored only while none is established (%s)" % br, ok,
                   "a width established by an earlier input must not be overwritten unchecked", e)
        tre = vtrace(ctx, base, "_validate_X", nonnull=("X", ("attr", "_input_col_dim")))
        for e in tre.returns():
            if len(e.stack) != 1:
                continue
            dfa = atom(("call", "isinstance", (P("X"), atom(("global", "pandas.DataFrame"))), ()))
            # the accepting path by cases (the guards may carry what the earlier refusals left behind as a disjunction)
            by_branch = {}
            for case in q.dnf([p.cond for p in e.pc]):
                if not q.feasible(case):
                    continue
                chk = any(_is_width_cmp(T.mk_not(g)) for g in case) or any(T.mentions(g, lambda a: a[0] == "mcall" and a[2] == "equals") for g in case)
                if dfa in case:
                    b_ = "DataFrame input"
                elif T.mk_not(dfa) in case:
                    b_ = "array input"
                else:
                    b_ = "DataFrame input" if not chk and any(
                        T.mentions(l, lambda z: z[0] == "mcall" and z[2] == "copy" and (z[1].single_atom() or ("", "", ""))[0] == "getattr") for _c, l in q.ite_leaves(e.value)) else "array input"
                by_branch[b_] = by_branch.get(b_, True) and chk
            for br, checked in sorted(by_branch.items()):
                ctx.ob("WR-once", site, "an established width is compared on every accepting path (%s)" % br, checked,
                       "with a width established by an array, a DataFrame of another width is accepted without comparison", e)


# ---------------------------------------------------------------------------
def _validated_symbols(tr):
    """Atoms that stand for validated values: leaves and conditions of the terms returned by _validate_X/_validate_y."""
    syms = set()
    for e in tr.events:
        if e.kind == "store" and (e.func.name.startswith("_validate") or any(f.name.startswith("_validate") for f in e.stack)):
            # what validation records (column names, width) is validated state
            for _c, leaf in q.ite_leaves(e.value):
                la = leaf.single_atom()
                if la is not None:
                    syms.add(la)
        if e.kind == "return" and e.func.name in ("_validate_X", "_validate_y"):
            for conds, leaf in q.ite_leaves(e.value):
                a = leaf.single_atom()
                if a is not None:
                    syms.add(a)
                for c in conds:
                    for x in q.conjuncts(c):
                        xa = x.single_atom()
                        if xa is not None:
                            syms.add(xa)
                            if xa[0] == "not":
                                ya = xa[1].single_atom()
                                if ya is not None:
                                    syms.add(ya)
    return syms


def validate_first(ctx, cname, meth):
    site = "%s.%s" % (cname, meth)
    tr = ctx.trace(cname, meth, assume={"_drift_state": None}, nonnull=NONNULL.get(cname, ("X",)))
    syms = _validated_symbols(tr)
    vsym = atom(("sym", "validated"))

    def agnostic(a):
        # numpy.shape / numpy.ndim are defined alike for every array-like container
        return a[0] == "call" and a[1] in ("numpy.shape", "numpy.ndim") and len(a[2]) == 1 and (a[2][0].single_atom() or ("",))[0] == "param"

    def raw_left(t):
        t2 = T.subst(t, lambda a: vsym if (a in syms or agnostic(a)) else None)
        return {a[1] for a in T.atoms_of(t2, "param") if a[1] in DATA}

    vcalls = [e for e in tr.calls() if e.d.get("fi") is not None and e.fi.name == "_validate_input"]
    ctx.ob("ROLE", site, "validates its input", len(vcalls) >= 1, "")
    seen = set()
    for e in tr.events:
        fn = e.func
        if fn is None or fn.name.startswith("_validate") or any(f.name.startswith("_validate") for f in e.stack):
            continue  # inside validation (or a helper validation calls): that is where raw arguments are allowed
        terms = []
        if e.kind == "call":
            fi = e.d.get("fi")
            if fi is not None and (fi.name.startswith("_validate") or fi.name in ("update", "set_reference")) and e.callee[0] in ("super", "explicit", "self"):
                # forwarding the raw arguments to validation / the base implementation / a sibling that validates
                continue
            if e.callee in (("lib", "numpy.shape"), ("lib", "numpy.ndim")):
                continue
            if fi is not None and e.callee[0] in ("self", "static", "classmethod", "function", "closure", "explicit", "super"):
                # an inlined function of the repository: handing it the raw argument is not a use; what its body does with
                # the argument is in this trace too and judged there
                continue
            terms = list(e.args) + [v for _k, v in e.kwargs]
            if "recv" in e.d:
                terms.append(e.recv)
        elif e.kind in ("store", "mutate", "local", "localmut", "return"):
            terms = [e.value]
        elif e.kind == "test":
            terms = [e.cond]
        for t in terms:
            if not isinstance(t, T.R):
                continue
            left = raw_left(t)
            if not left:
                continue
            k = (fn.qualname, e.line, tuple(sorted(left)))
            if k in seen:
                continue
            seen.add(k)
            import ast as _ast
            cons = "raw %s used in %s" % ("/".join(sorted(left)), _norm_src(e))
            ctx.ob("TNT-validate-first", fn.qualname, cons, False,
                   "the argument is used before / without validation: behaviour then depends on the container type (e.g. .shape of a list)", e)
    ctx.ob("TNT-validate-first", site, "only validated values are used", True, "", nontrivial=True)
    # validation precedes counting
    tot, _since = q.counters(ctx.prog, ctx.prog.cls(cname))
    cnt = [e for e in tr.stores(tot)]
    if meth == "update":
        ok = bool(vcalls) and bool(cnt) and vcalls[0].seq < cnt[0].seq
        ctx.ob("ORD", site, "validation precedes counting", ok, "", vcalls[0] if vcalls else None)


def _norm_src(e):
    import ast
    n = e.node
    try:
        if isinstance(n, ast.If):
            return "`if %s`" % ast.unparse(n.test)
        if isinstance(n, ast.stmt):
            return "`%s`" % ast.unparse(n).split("\n")[0][:80]
        return "`%s`" % ast.unparse(n)[:80]
    except Exception:
        return "line"


def commit_after_check(ctx, cname, meth):
    site = "%s.%s" % (cname, meth)
    tr = ctx.trace(cname, meth, assume={"_drift_state": None}, nonnull=NONNULL.get(cname, ("X",)))
    tot, _since = q.counters(ctx.prog, ctx.prog.cls(cname))
    cnt = [e for e in tr.stores(tot)]
    limit = cnt[0].seq if cnt else 10 ** 9
    seen = set()
    for e in tr.raises():
        if e.seq > limit and meth == "update":
            continue
        if e.func.is_setter or any(f.name == "reset" for f in e.stack):
            # re-entrant update on the detector's own proxy batch (HDM detect_batch=1): not the caller's input
            continue
        written = sorted(k for k, v in e.attrs.items() if not k.startswith("__") and v != A(k) and k != "_drift_state")
        k = (e.func.qualname, e.line)
        if k in seen:
            continue
        seen.add(k)
        cons = "state written before `raise %s` under %s" % (e.exc, _raise_kind(e))
        where = e.func.qualname
        if len(e.stack) >= 2 and e.stack[-2].name == meth and e.func.cls is not None and e.func.cls.name not in BASES2 and e.func.name != meth:
            where = e.stack[-2].qualname  # a private helper of the detector that update() calls directly: the rejection is update()'s
        ctx.ob("EXC-commit", where, cons if written else "no state written before `raise %s` under %s" % (e.exc, _raise_kind(e)), not written,
               "a rejected call has already stored %s: later accepted inputs are then judged against a rejected one" % ", ".join(written), e, nontrivial=bool(written) or True)
        # what was written: either (a part of) the rejected input - the known shape of this defect - or something else.  A value
        # that is neither the entry value nor derived from the call's arguments (a constant, another attribute) *replaces* what
        # earlier accepted inputs established; that is a different harm and gets its own obligation (and its own construct).
        foreign = sorted(k for k in written if any(not _entry_or_input(k, lf) for lf in _ite_leaves(e.attrs[k])))
        if written:
            ctx.ob("EXC-commit", where, "what a call rejected by `raise %s` under %s has stored is the entry value or taken from its own input" % (e.exc, _raise_kind(e)),
                   not foreign, "a rejected call overwrites %s with a value that is neither what was there nor taken from the rejected input "
                   "(e.g. clears what earlier accepted inputs established): %s" % (", ".join(foreign), "; ".join("%s := %s" % (k, T.pretty(e.attrs[k])[:160]) for k in foreign)), e)


def _ite_leaves(t, depth=0):
    a = t.single_atom() if isinstance(t, T.R) else None
    if a is not None and a[0] == "ite" and depth < 12:
        return _ite_leaves(a[2], depth + 1) + _ite_leaves(a[3], depth + 1)
    return [t]


def _entry_or_input(k, leaf):
    if not isinstance(leaf, T.R):
        return True
    if leaf == A(k):
        return True
    return T.mentions(leaf, lambda a: a[0] == "param")


def commit_after_restart(ctx, cname):
    """The same obligation in the entry states in which update() first restarts the epoch (after a reported drift): a call that
    is rejected there may leave the *completed* restart behind (the next accepted call would have performed it anyway and will
    not repeat it, because the state is cleared), but nothing that the next accepted call performs a second time."""
    from . import c01
    site = cname + ".update"
    tot, _since = q.counters(ctx.prog, ctx.prog.cls(cname))
    seen = set()
    for cell in c01.cells(cname):
        ds = cell["_drift_state"]
        if ds is None:
            continue
        tr = ctx.trace(cname, "update", assume=cell, nonnull=NONNULL.get(cname, ("X",)))
        cnt = [e for e in tr.stores(tot)]
        limit = cnt[0].seq if cnt else 10 ** 9
        for e in tr.raises():
            if e.seq > limit or e.func.is_setter or any(f.name == "reset" for f in e.stack) or e.exc != "ValueError":
                continue
            written = sorted(k for k, v in e.attrs.items() if not k.startswith("__") and v != A(k) and not (k in cell and v == const(cell[k])) and k != "_drift_state"
                             and k not in ("_input_cols", "_input_col_dim"))  # the validators' own early stores are judged (and recorded: KF-1..3) in the plain entry state
            now = e.attrs.get("_drift_state", const(ds))
            lab = ",".join("%s=%r" % kv for kv in sorted(cell.items()))
            k = (e.func.qualname, e.line, lab)
            if k in seen or not written:
                continue
            seen.add(k)
            ok = now == T.NONE
            ctx.ob("EXC-commit", site, "a call rejected right after a reported state leaves at most the completed restart behind [%s; refusal in %s]" % (lab, e.func.qualname), ok,
                   "the rejected call has already stored %s while drift_state still is %s: the next accepted update repeats that step on the changed state"
                   % (", ".join(written), q.short(now, 20)), e)


def _raise_kind(e):
    """What a validation raise rejects, classified from its guard terms (not from source text)."""
    gs = guards(e)
    base = "Stream" if any(f.cls is not None and f.cls.name.startswith("Stream") for f in e.stack) or \
        any(f.cls is not None and "StreamingDetector" in [c.name for c in f.cls.mro] for f in e.stack[:1]) else "Batch"
    for g in gs:
        if _is_rowcount(g, "Stream") or _is_rowcount(g, "Batch"):
            return "the row-count test"
    for g in gs:
        if _is_multicol(_push_not(g)):
            return "the univariate test"
    for g in gs:
        if _is_width_cmp(g):
            return "the column-width test"
    for g in gs:
        if T.mentions(g, lambda a: a[0] == "mcall" and a[2] == "equals") or T.mentions(g, lambda a: a[0] == "getattr" and a[2] == "columns"):
            return "the column-names test"
    for g in reversed(gs):
        if T.mentions(g, lambda a: a[0] == "getattr" and a[2] == "shape"):
            return "a shape test"
    return "its guard"


def univariate(ctx, cname):
    meths = ["update"] + (["set_reference"] if cname == "CDBD" else [])
    for meth in meths:
        site = "%s.%s" % (cname, meth)
        tr = ctx.trace(cname, meth, assume={"_drift_state": None}, nonnull=("X",))
        # the rejection may sit in update() itself or in a helper it calls (but not in the shared validators, whose
        # column test compares with the established width)
        rs = [e for e in tr.raises() if e.exc == "ValueError" and (e.func.qualname == site or q.stack_has(e, site)) and
              not e.func.name.startswith("_validate_X") and not e.func.name.startswith("_validate_y") and e.func.name != "_validate_input" and
              any(_is_multicol(_push_not(x)) for g in guards(e) for x in q.conjuncts(g))]
        ctx.ob("GRD", site, "multi-column data is rejected with ValueError (univariate detector)", len(rs) == 1, "", rs[0] if rs else None)
        for e in rs[:1]:
            side = [x for g in guards(e) for x in q.conjuncts(g) if not _is_multicol(_push_not(x))]
            bad = [x for x in side if not _holds_for_2d(x)]
            # when the guard looks at the caller's raw argument (before validation) a 1-D input must not reach shape[1]
            raw = [x for x in side if T.mentions(x, lambda z: z[0] == "call" and z[1] == "numpy.shape" and z[2] and z[2][0] == P("X"))]
            bad += [x for x in raw if _holds_for_2d(x, 1)]
            ctx.ob("GRD", site, "the univariate guard depends on the column count only", not bad,
                   "further condition(s) on the rejection that a validated 2-D batch need not satisfy: %s" % "; ".join(q.short(x, 80) for x in bad[:2]), e)
        tot = q.counters(ctx.prog, ctx.prog.cls(cname))[0]
        cnt = tr.stores(tot)
        if rs and cnt and meth == "update":
            ctx.ob("ORD", site, "the univariate guard precedes counting", rs[0].seq < cnt[0].seq, "", rs[0])


# ---------------------------------------------------------------------------
# the four validators as complete case tables (final validation state, value returned, refusals)

def _cases(t):
    """{(frozenset of condition keys), leaf key)} of a gated-phi term: order-insensitive view of its case split."""
    out = set()
    for conds, l in q.ite_leaves(t):
        out.add((frozenset(T.akey(c) for c in conds), T.akey(l)))
    return out


def _same_cases(a, b, tr=None):
    return a is not None and b is not None and (a == b or _cases(a) == _cases(b) or _same_function(a, b, tr))


def _same_function(found, want, tr=None):
    """Two case splits denote the same function when, wherever a case of one can hold together with a case of the other, the two
    leaves agree.  Conditions are compared by q.feasible after expansion into cases (q.dnf), so extra conditions on the found
    side that merely refine a case (what earlier refusals left on the path, a helper's early returns) do not matter."""
    fl = list(q.ite_leaves(found))
    wl = list(q.ite_leaves(want))
    if len(fl) > 64 or len(wl) > 64:
        return False
    # inputs that end in a refusal have no value: a combination of cases that implies the whole guard set of a `raise` is not a case
    refusals = [[y for g in guards(e) for y in q.conjuncts(g)] for e in tr.raises() if len(e.stack) <= 2] if tr is not None else []
    seen_want = set()
    for cf, lf in fl:
        for case in q.dnf(list(cf)):
            if not q.feasible(case):
                continue
            for i, (cw, lw) in enumerate(wl):
                both = list(case) + [y for x in cw for y in q.conjuncts(x)]
                if q.feasible(both):
                    if any(r and all(any(g == b_ for b_ in both) or not q.feasible(both + [T.mk_not(g)]) for g in r) for r in refusals):
                        continue
                    if not (lf == lw or T.same(lf, lw)):
                        return False
                    seen_want.add(i)
    return len(seen_want) == len(wl)


def _g(t, name):
    """getattr distributed over gated phis"""
    a = t.single_atom()
    if a is not None and a[0] == "ite":
        return T.mk_ite(a[1], _g(a[2], name), _g(a[3], name))
    return atom(("getattr", t, name))


def validators(ctx):
    X = P("X")
    isdf = atom(("call", "isinstance", (X, atom(("global", "pandas.DataFrame"))), ()))
    cols, dim = A("_input_cols"), A("_input_col_dim")
    a0 = atom(("call", "numpy.array", (atom(("call", "copy.copy", (X,), ())),), ()))
    nd = atom(("call", "len", (atom(("getattr", a0, "shape")),), ()))
    frame_vals = atom(("mcall", atom(("getattr", X, "values")), "copy", (), ()))
    xcols = atom(("getattr", X, "columns"))
    for base, shape_args, rows_bad in (("StreamingDetector", (const(1), const(-1)), lambda r: T.mk_cmp("!=", r, const(1))),
                                       ("BatchDetector", (const(-1), const(1)), lambda r: T.mk_cmp("<=", r, const(1)))):
        site = base + "._validate_X"
        tr = vtrace(ctx, base, "_validate_X", nonnull=("X",))
        coerced = T.mk_ite(T.mk_cmp("<=", nd, const(1)), atom(("mcall", a0, "reshape", shape_args, ())), a0)
        want_ret = T.mk_ite(isdf, frame_vals, coerced)
        width = q.sub(_g(coerced, "shape"), 1)
        want_cols = T.mk_ite(isdf, T.mk_ite(T.mk_cmp("==", cols, T.NONE), xcols, cols), cols)
        want_dim = T.mk_ite(isdf, T.mk_ite(T.mk_cmp("==", cols, T.NONE), atom(("call", "len", (xcols,), ())), dim),
                            T.mk_ite(T.mk_cmp("==", dim, T.NONE), width, dim))
        fin = tr.final.attrs if tr.final is not None else {}
        ctx.ob("TAB-validate", site, "value returned: a copy of the frame's values, or the array coerced to two dimensions (%s)" % ("one row" if base.startswith("Stream") else "one column"),
               _same_cases(tr.retval, want_ret, tr), "returned %s" % (q.short(tr.retval, 200) if tr.retval is not None else None))
        ctx.ob("TAB-validate", site, "column names: adopted from the first frame, kept afterwards, untouched by arrays", _same_cases(fin.get("_input_cols", cols), want_cols, tr),
               q.short(fin.get("_input_cols", cols), 200))
        ctx.ob("TAB-validate", site, "width: number of columns of the first frame / second dimension of the first (coerced) array, kept afterwards",
               _same_cases(fin.get("_input_col_dim", dim), want_dim, tr), q.short(fin.get("_input_col_dim", dim), 240))
        rows = q.sub(_g(want_ret, "shape"), 0)
        want_raises = [
            ("columns differ from those of earlier frames", {isdf, T.mk_cmp("!=", cols, T.NONE), T.mk_not(atom(("mcall", xcols, "equals", (cols,), ())))}),
            ("width differs from the established width", {T.mk_not(isdf), T.mk_cmp("!=", dim, T.NONE), T.mk_cmp("!=", width, dim)}),
            ("wrong number of rows", None),
        ]
        rs = [e for e in tr.raises() if e.exc == "ValueError"]
        ctx.ob("TAB-validate", site, "exactly three refusals, all ValueError", len(rs) == 3 and len(tr.raises()) == 3, "found %d" % len(tr.raises()))
        got = [set(T.akey(g) for g in guards(e)) for e in rs]
        for what, gs in want_raises[:2]:
            ctx.ob("TAB-validate", site, "refusal: " + what, {T.akey(g) for g in gs} in got, "guard sets found: %s" % "; ".join(q.short(g, 70) for e in rs for g in guards(e))[:400])
        # the row-count refusal, distributed over the container cases
        rowg = None
        for e in rs:
            gl = [_lift_cmp(_rows_as_shape0(_push_not(g))) for g in guards(e)]
            rc_ = [g for g in gl if _is_rowcount(g, base)]   # the row-count test itself (the path may also carry what earlier refusals left behind)
            if len(rc_) == 1 and all(g is rc_[0] or (g.single_atom() or ("",))[0] == "or" for g in gl):
                rowg = rc_[0]
        want_rowg = _distribute(rows, rows_bad)
        ctx.ob("TAB-validate", site, "refusal: " + ("anything but exactly one row" if base.startswith("Stream") else "one row or fewer"),
               rowg is not None and (_same_cases(rowg, want_rowg, tr) or _row_subjects(rowg) == _row_subjects(want_rowg)), q.short(rowg, 200) if rowg is not None else "not found")
    for base in ("StreamingDetector", "BatchDetector"):
        ti = vtrace(ctx, base, "__init__")
        at = ti.final.attrs if ti.final is not None else {}
        for k in ("_input_cols", "_input_col_dim"):
            ctx.ob("FRM-init", base + ".__init__", "%s starts as None (nothing established yet)" % k, at.get(k) == T.NONE, q.short(at.get(k), 40) if at.get(k) is not None else "unset")
    # label validators
    y = P("y")
    tr = vtrace(ctx, "StreamingDetector", "_validate_y")
    ary = atom(("mcall", atom(("call", "numpy.array", (y,), ())), "ravel", (), ()))
    ctx.ob("TAB-validate", "StreamingDetector._validate_y", "a label is flattened and returned", tr.retval == ary, q.short(tr.retval, 100) if tr.retval is not None else "")
    rs = tr.raises()
    okr = len(rs) == 1 and rs[0].exc == "ValueError" and guards(rs[0]) in (
        [T.mk_cmp("!=", atom(("getattr", ary, "shape")), atom(("tuple", (const(1),))))],
        [T.mk_cmp("!=", atom(("getattr", ary, "size")), const(1))],                       # the flattened array has shape (size,)
        [T.mk_cmp("!=", atom(("call", "len", (ary,), ())), const(1))])
    ctx.ob("TAB-validate", "StreamingDetector._validate_y", "refused exactly when it is not a single value", okr, "; ".join(q.short(g, 80) for e in rs for g in guards(e)))
    tr = vtrace(ctx, "BatchDetector", "_validate_y")
    b0 = atom(("call", "numpy.array", (y,), ()))
    ndy = atom(("call", "len", (atom(("getattr", b0, "shape")),), ()))
    cy = T.mk_ite(T.mk_cmp("<=", ndy, const(1)), atom(("mcall", b0, "reshape", (const(1), const(-1)), ())), b0)
    ctx.ob("TAB-validate", "BatchDetector._validate_y", "labels are coerced to two dimensions and returned", _same_cases(tr.retval, cy), q.short(tr.retval, 160) if tr.retval is not None else "")
    rs = [e for e in tr.raises() if e.exc == "ValueError"]
    sh = _g(cy, "shape")
    g_rows = _distribute(q.sub(sh, 0), lambda r: T.mk_cmp("==", r, const(1)))
    g_cols = _distribute(q.sub(sh, 1), lambda r: T.mk_cmp("!=", r, const(1)))
    found = [guards(e) for e in rs]
    ok1 = any(len(gl) == 1 and _same_cases(gl[0], g_rows) for gl in found)
    ok2 = any(len(gl) == 2 and _same_cases(gl[1], g_cols) and (_same_cases(gl[0], _neg(g_rows)) or gl[0] == T.mk_not(g_rows) or _same_cases(_neg(gl[0]), g_rows) or _same_cases(gl[0], _distribute(q.sub(sh, 0), lambda r: T.mk_cmp("!=", r, const(1))))) for gl in found)
    ctx.ob("TAB-validate", "BatchDetector._validate_y", "refused when there is a single row", len(rs) == 2 and ok1, "; ".join(q.short(g, 80) for gl in found for g in gl)[:300])
    ctx.ob("TAB-validate", "BatchDetector._validate_y", "refused when there is not exactly one column", len(rs) == 2 and ok2, "; ".join(q.short(g, 80) for gl in found for g in gl)[:300])
    # dispatch: every argument that is given is validated by its own validator, None passes through
    for base in ("StreamingDetector", "BatchDetector"):
        tr = vtrace(ctx, base, "_validate_input")
        a = tr.retval.single_atom() if tr.retval is not None else None
        ok = a is not None and a[0] == "tuple" and len(a[1]) == 3
        if ok:
            for i, (p, fn) in enumerate((("X", "_validate_X"), ("y_true", "_validate_y"), ("y_pred", "_validate_y"))):
                el = a[1][i]
                leaves = list(q.ite_leaves(el))
                given = T.mk_cmp("!=", P(p), T.NONE)
                ok = ok and len(leaves) >= 2
                for conds, l in leaves:
                    if given in conds:
                        ok = ok and T.mentions(l, lambda z: z == ("param", p)) and l != P(p)
                    else:
                        ok = ok and l == P(p)
            cs = {(e.fi.name, q.short(e.args[0], 20)) for e in tr.calls() if e.d.get("fi") is not None and e.fi.name in ("_validate_X", "_validate_y") and not any(f.name in ("_validate_X", "_validate_y") for f in e.stack)}   # from _validate_input or a helper it delegates to
            ok = ok and cs == {("_validate_X", "X"), ("_validate_y", "y_true"), ("_validate_y", "y_pred")}
        ctx.ob("TAB-validate", base + "._validate_input", "each given argument goes through its own validator, None passes through, result order (X, y_true, y_pred)", ok,
               q.short(tr.retval, 200) if tr.retval is not None else "")


def _row_subjects(g):
    """the arrays whose first dimension a (case-wise) row-count test looks at"""
    out = set()
    for _c, l in q.ite_leaves(g):
        for a in T.walk(l):
            if a[0] == "sub" and a[2] == const(0):
                b = a[1].single_atom()
                if b is not None and b[0] == "getattr" and b[2] == "shape":
                    x = b[1]
                    xa = x.single_atom()
                    while xa is not None and xa[0] == "call" and xa[1] in ("numpy.array", "numpy.asarray") and len(xa[2]) == 1 and not xa[3]:
                        x = xa[2][0]   # the number of rows of np.array(x) is that of x
                        xa = x.single_atom()
                    out.add(T.akey(x))
    return out


def _lift_cmp(g):
    """a comparison of a conditional value as the conditional of the comparisons: (c ? a : b) != 1  ->  c ? a != 1 : b != 1"""
    c = q.is_cmp(g)
    if c is None or not any(x[0] == "ite" for x in c[2].atoms()):
        return g
    leaves = list(q.ite_leaves(c[2]))
    if len(leaves) > 16:
        return g

    def build(t):
        inner = sorted((x for x in t.atoms() if x[0] == "ite"), key=T.akey) if t.single_atom() is None else ([t.single_atom()] if t.single_atom()[0] == "ite" else [])
        if not inner:
            return T.mk_cmp(c[1], t, const(0))
        it = inner[0]
        return T.mk_ite(it[1], build(T.subst(t, lambda z: it[2] if z == it else None)), build(T.subst(t, lambda z: it[3] if z == it else None)))
    return build(c[2])


def _distribute(t, f):
    a = t.single_atom()
    if a is not None and a[0] == "ite":
        return T.mk_ite(a[1], _distribute(a[2], f), _distribute(a[3], f))
    return f(t)
