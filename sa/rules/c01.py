"""C01 - lifecycle contract: drift_state domain, counters, automatic restart,
warm-up guards, retraining_recs.  See DESIGN.md section 5 (C01)."""
from .. import terms as T
from ..terms import const, atom
from .. import q
from ..q import A, P, S, guards, ite_leaves, pred_equiv, cmp_equiv
from ..loader import AnalysisError

DOMAIN = {"drift", "warning", None}

# data parameters that a caller must supply (never None) per update signature
NONNULL = {
    "ADWIN": ("X",), "CUSUM": ("X",), "PageHinkley": ("X",), "KdqTreeStreaming": ("X",),
    "KdqTreeBatch": ("X",), "HDDDM": ("X",), "CDBD": ("X",), "NNDVI": ("X",), "PCACD": ("X",),
    "MD3": ("X",), "DDM": ("y_true", "y_pred"), "EDDM": ("y_true", "y_pred"),
    "STEPD": ("y_true", "y_pred"), "LinearFourRates": ("y_true", "y_pred"),
    "ADWINAccuracy": ("y_true", "y_pred"),
}

# states in which the next update restarts the epoch (prologue test)
# warm-up quantities that intentionally are not restarted by reset(), one reason each
EPOCH_LOCAL_EXEMPT = {
    "PCACD": {"_build_reference_and_test": "set to True together with every store of 'drift' (PAIR rule), cleared when the windows are full again"},
}
RESTART_STATES = {"ADWIN": ("drift", "warning"), "ADWINAccuracy": ("drift", "warning"), "PCACD": ("drift", "warning")}

HDM = ("HDDDM", "CDBD")


def cells(cname):
    """Assumption cells over which update() is evaluated."""
    out = []
    for ds in (None, "warning", "drift"):
        base = {"_drift_state": ds}
        if cname in HDM:
            for db in (1, 2, 3):
                out.append(dict(base, detect_batch=db))
        elif cname == "PCACD":
            for b in (True, False):
                out.append(dict(base, _build_reference_and_test=b))
        elif cname == "MD3":
            out.append(dict(base, waiting_for_oracle=False))
        else:
            out.append(base)
    return out


def expected_restart(cname, cell):
    """(allowed leaves of since_reset, allowed leaves of total) as increments
    over the entry value; 'abs' leaves are absolute values."""
    ds = cell["_drift_state"]
    restart = ds in RESTART_STATES.get(cname, ("drift",))
    tot = {("rel", 1)}
    if cname == "PCACD":
        if ds is not None and cell["_build_reference_and_test"]:
            return {("abs", 0)}, tot
        # drift stored while the flag is false is excluded by the PAIR rule
        return {("rel", 1)}, tot
    if cname in HDM:
        if restart and cell["detect_batch"] == 1:
            return {("abs", 2)}, {("rel", 2)}
        return ({("abs", 1)} if restart else {("rel", 1)}), tot
    if cname == "KdqTreeStreaming":
        # additionally restarts when the reference window completes
        return ({("abs", 1), ("abs", 0)} if restart else {("rel", 1), ("abs", 0)}), tot
    if cname == "KdqTreeBatch":
        # a first update without set_reference adopts the batch as reference
        return ({("abs", 1)} if restart else {("rel", 1), ("abs", 0)}), tot
    return ({("abs", 1)} if restart else {("rel", 1)}), tot


def after_count_raise_tabled(cname, ev):
    """Raises that may legitimately follow the count (not input rejections)."""
    # CUSUM: 'standard deviation is 0' once past burn-in (documented error, the
    # sample has been consumed)
    if cname == "CUSUM" and ev.func.qualname.startswith("CUSUM.") and q.stack_has(ev, "CUSUM.update") and any(
            T.mentions(g, lambda a: a == ("attr", "burn_in")) for g in guards(ev)):
        return True
    # NNDVI: on drift the already validated test batch is passed through
    # set_reference, which validates it again; those raises cannot reject the
    # caller's input (it was accepted by the first validation)
    if cname == "NNDVI" and q.stack_has(ev, "NNDVI.set_reference") and q.stack_has(ev, "NNDVI.update"):
        return True
    return False


def classify(leaf, entry):
    if leaf.is_const():
        v = leaf.const_value()
        if v.denominator == 1:
            return ("abs", int(v))
    d = leaf - entry
    if d.is_const() and d.const_value().denominator == 1:
        return ("rel", int(d.const_value()))
    return ("other", T.pretty(leaf)[:80])


def run(ctx):
    prog = ctx.prog
    dets, extra = q.public_detectors(ctx)
    ctx.explanation = (
        "lifecycle contract decided on the abstract evaluation of every detector's methods: drift_state domain (all stores), "
        "who-may-write the counters, exactly-once counting and automatic restart per entry-state cell, warm-up guards of every "
        "drift/warning store in normal form, retraining_recs bookkeeping")
    ctx.assumptions += [
        "the documented minimum of each detector is the threshold named in its docstring (tabled in sa/rules/c01.py)",
        "data parameters documented as required are not None",
    ]
    for n in extra:
        ctx.notes.append("undocumented detector class %s is not in the table" % n)
    clause_domain(ctx, dets)
    clause_counters(ctx, dets)
    clause_cells(ctx, dets)
    clause_warmup(ctx, dets)
    clause_recs(ctx)


# ---------------------------------------------------------------------------
def all_method_names(ci):
    names = []
    for c in ci.mro:
        for m in c.methods:
            if m not in names:
                names.append(m)
    return names


def clause_domain(ctx, dets):
    prog = ctx.prog
    # 1a. the three setters
    nset = 0
    for bn in q.BASES:
        b = prog.cls(bn)
        setter = b.setters.get("drift_state")
        ctx.require(setter is not None, "%s.drift_state setter" % bn)
        from ..evalr import Evaluator
        tr = Evaluator(prog, b).run(setter)
        stores = tr.stores("_drift_state")
        ctx.require(stores, "%s.drift_state setter stores the backing field" % bn)
        for ev in stores:
            nset += 1
            ok = False
            msg = ""
            if T.is_pure_const(ev.value):
                ok = T.const_py(ev.value) in DOMAIN
                msg = "constant %r" % (T.const_py(ev.value),)
            else:
                vals = _validated_domain(ev)
                if vals is not None:
                    ok = vals == DOMAIN
                    msg = "guarded by membership in %r" % (sorted(map(repr, vals)),)
                if not msg:
                    msg = "store of an unvalidated value"
            ctx.ob("WR-domain", setter.qualname, "store _drift_state in setter", ok, msg, ev)
    ctx.floor("drift_state setters", nset, 3)
    # 1b. every store anywhere in a detector class
    seen = set()
    n = 0
    for ci in dets + [prog.cls(x) for x in q.ENSEMBLES]:
        for m in all_method_names(ci):
            tr = ctx.trace_member(ci.name, m)
            if tr is None:
                continue
            for ev in tr.stores("_drift_state"):
                k = (ev.func.qualname, ev.line)
                if ev.func.is_setter or k in seen:
                    if ev.func.is_setter:
                        # value must be validated constant or guarded
                        k2 = ("setter", ev.stack[-2].qualname if len(ev.stack) > 1 else "", ev.stack and ev.pc and 0)
                    continue
                seen.add(k)
                n += 1
                ok = T.is_pure_const(ev.value) and T.const_py(ev.value) in DOMAIN
                ctx.ob("WR-domain", ev.func.qualname, "direct store _drift_state := %s" % q.short(ev.value, 40), ok,
                       "direct store to the backing field must be a constant of the domain", ev)
            # stores through the property: the setter is inlined; the value
            # stored there is what the caller passed
            for ev in tr.stores("_drift_state"):
                if not ev.func.is_setter or len(ev.stack) < 2:
                    continue
                caller = ev.stack[-2]
                # the call site statement
                cs = [e for e in tr.events[: ev.seq] if e.kind == "call" and e.callee[0] == "setter"]
                site = cs[-1] if cs else ev
                k = (caller.qualname, site.line)
                if k in seen:
                    continue
                seen.add(k)
                n += 1
                if T.is_pure_const(ev.value):
                    ok = T.const_py(ev.value) in DOMAIN
                    msg = "constant %r" % (T.const_py(ev.value),)
                else:
                    ok = _validated_domain(ev) == DOMAIN
                    msg = "non-constant value validated by the setter" if ok else "unvalidated value"
                ctx.ob("WR-domain", caller.qualname, "property store drift_state := %s" % q.short(ev.value, 40), ok, msg, site)
    ctx.floor("stores to drift_state", n, 25)


def _validated_domain(ev):
    """The set of constants a guard of the store restricts the stored value to: `v in (k1, k2, ...)` in any spelling that
    amounts to a disjunction of equalities of v with constants.  None when no guard does."""
    v = ev.value
    for g in guards(ev):
        a = g.single_atom()
        if a is not None and a[0] == "in" and a[1] == v:
            tup = a[2].single_atom()
            if tup is not None and tup[0] in ("tuple", "list", "set") and all(T.is_pure_const(x) for x in tup[1]):
                return {T.const_py(x) for x in tup[1]}
        vals = set()
        ok = True
        for d in q.disjuncts(g):
            c = q.is_cmp(d)
            hit = None
            if c is not None and c[1] == "==":
                for k in list(DOMAIN) + ["<other>"]:
                    if k != "<other>" and (T.same(c[2], v - const(k)) or T.same(c[2], const(k) - v)):
                        hit = k
            if hit is None and not (c is not None and c[1] == "==" and T.mentions(d, lambda z: z == v.single_atom())):
                ok = False
                break
            if hit is None:
                # an equality of v with something that is not a constant of the domain
                rest = c[2] - v if not T.mentions(c[2] - v, lambda z: z == v.single_atom()) else c[2] + v
                if T.is_pure_const(-rest) or T.is_pure_const(rest):
                    vals.add(T.const_py(-rest) if T.is_pure_const(-rest) else T.const_py(rest))
                else:
                    ok = False
                    break
            else:
                vals.add(hit)
        if ok and vals:
            return vals
    return None


def clause_counters(ctx, dets):
    prog = ctx.prog
    seen = set()
    n = 0
    for ci in dets + [prog.cls(x) for x in q.ENSEMBLES]:
        base = q.base_of(prog, ci)
        tot, since = q.COUNTERS[base.name]
        for m in all_method_names(ci):
            tr = ctx.trace_member(ci.name, m)
            if tr is None:
                continue
            for ev in tr.stores():
                if ev.attr not in (tot, since):
                    continue
                k = (ev.func.qualname, ev.line, ev.attr)
                if k in seen:
                    continue
                seen.add(k)
                n += 1
                fn = ev.func
                ok = False
                why = "counter written outside the base class"
                if fn.cls is base and fn.name == "__init__":
                    ok = ev.value == const(0)
                    why = "base __init__ must initialise to 0"
                elif fn.cls is base and fn.name == "update":
                    ok = T.same(ev.value, ev.old + const(1))
                    why = "base update must add exactly 1"
                elif fn.cls is base and fn.name == "reset":
                    ok = ev.attr == since and ev.value == const(0)
                    why = "base reset may only zero the since-reset counter"
                elif fn.is_setter and fn.cls is base:
                    ok = True
                ctx.ob("WR-counter", fn.qualname, "store %s := %s" % (ev.attr, q.short(ev.value, 50)), ok, why, ev)
    ctx.floor("counter stores", n, 15)
    # each base update increments each counter exactly once on its single path
    for bn in q.BASES:
        tr = ctx.trace(bn, "update")
        tot, since = q.COUNTERS[bn]
        for c in (tot, since):
            fin = tr.final.attrs.get(c)
            ctx.ob("MC-count", bn + ".update", "final %s" % c, fin is not None and T.same(fin, A(c) + const(1)),
                   "base update must leave %s = old + 1 on every path" % c)
        trr = ctx.trace(bn, "reset")
        fin = trr.final.attrs
        ctx.ob("MC-count", bn + ".reset", "final %s" % since, fin.get(since) == const(0) and tot not in fin,
               "base reset zeroes the since-reset counter and leaves the total alone")
        ctx.ob("MC-count", bn + ".reset", "final _drift_state", fin.get("_drift_state") == T.NONE,
               "base reset clears drift_state")


def clause_cells(ctx, dets):
    """Exactly-once counting and automatic restart, per entry-state cell."""
    for ci in dets:
        tot, since = q.counters(ctx.prog, ci)
        for cell in cells(ci.name):
            tr = ctx.trace(ci.name, "update", assume=cell, nonnull=NONNULL.get(ci.name, ()))
            label = ",".join("%s=%r" % kv for kv in sorted(cell.items()))
            if tr.cuts:
                raise AnalysisError("recursion cut while evaluating %s.update: %s" % (ci.name, tr.cuts))
            if tr.final is None:
                ctx.ob("MC-count", ci.name + ".update", "cell " + label, False, "update never returns normally in this cell")
                continue
            exp_since, exp_tot = expected_restart(ci.name, cell)
            ftot = tr.final.attrs.get(tot, A(tot))
            fsince = tr.final.attrs.get(since, A(since))
            got_tot = {classify(l, A(tot)) for _, l in ite_leaves(ftot)}
            got_since = {classify(l, A(since)) for _, l in ite_leaves(fsince)}
            ctx.ob("MC-count", ci.name + ".update", "total counter, cell " + label, got_tot <= exp_tot and bool(got_tot),
                   "total after update is %s, expected %s (counted exactly once on every normal path)" % (sorted(got_tot), sorted(exp_tot)))
            ctx.ob("RESTART", ci.name + ".update", "since-reset counter, cell " + label, got_since <= exp_since,
                   "since-reset after update is %s, allowed %s" % (sorted(got_since), sorted(exp_since)))
            # the ordinary outcome (this update is the k-th of its epoch) must be among the outcomes, not only the tabled special cases
            main = [x for x in exp_since if x != ("abs", 0)] or list(exp_since)
            ctx.ob("RESTART", ci.name + ".update", "the ordinary path counts this update into its epoch, cell " + label, any(x in got_since for x in main),
                   "since-reset after update is %s on every path; the ordinary value is %s" % (sorted(got_since), sorted(main)))
            restart = cell["_drift_state"] in RESTART_STATES.get(ci.name, ("drift",))
            if restart and not (ci.name == "PCACD" and not cell["_build_reference_and_test"]):
                # the restart must actually happen: no leaf may continue the old epoch
                ctx.ob("RESTART", ci.name + ".update", "automatic restart, cell " + label,
                       not any(k == "rel" for k, _ in got_since),
                       "after a reported drift the next update must restart the epoch without a user reset()")
            # rejected inputs are not counted
            for ev in tr.raises():
                at = ev.attrs.get(tot)
                counted = at is not None and not T.same(at, A(tot))
                allowed_after = after_count_raise_tabled(ci.name, ev)
                if (ci.name in HDM and cell.get("detect_batch") == 1 and cell["_drift_state"] == "drift"
                        and not q.stack_has(ev, "HistogramDensityMethod.reset") and at is not None and T.same(at, A(tot) + const(1))):
                    # the prologue already consumed the proxy batch split off the
                    # reference (documented, counted); the rejected batch itself is not counted
                    allowed_after = True
                if ev.func.is_setter:
                    continue
                ctx.ob("MC-count", ev.func.qualname, "raise %s in cell %s" % (ev.exc, label), (not counted) or allowed_after,
                       "an update that is rejected must not be counted", ev, nontrivial=False)
    if any(ci.name == "PCACD" for ci in dets):
        pcacd_pair(ctx)


def pcacd_pair(ctx):
    # PCACD: drift is only ever stored together with the rebuild flag
    tr = ctx.trace("PCACD", "update", assume={"_drift_state": None}, nonnull=("X",))
    n = 0
    for ev in tr.stores("_drift_state"):
        if ev.value != const("drift"):
            continue
        n += 1
        after = [e for e in tr.events[ev.seq:] if e.kind == "store" and e.attr == "_build_reference_and_test"
                 and e.pc[: len(ev.pc)] == ev.pc or False]
        before = [e for e in tr.events[: ev.seq] if e.kind == "store" and e.attr == "_build_reference_and_test"
                  and e.value == T.TRUE and set(id(p) for p in e.pc) == set(id(p) for p in _site_pc(tr, ev))]
        flag = tr.final.attrs.get("_build_reference_and_test")
        dsf = tr.final.attrs.get("_drift_state")
        # PAIR on the final state: wherever drift_state is 'drift', the flag is True
        ok = _implies_pair(dsf, flag)
        ctx.ob("PAIR", "PCACD.update", "drift_state='drift' with _build_reference_and_test=True", ok,
               "every store of 'drift' must be paired with _build_reference_and_test = True (otherwise the next update does not restart)", ev)
    ctx.floor("PCACD drift stores", n, 1)


def _site_pc(tr, ev):
    cs = [e for e in tr.events[: ev.seq] if e.kind == "call" and e.callee[0] == "setter"]
    return cs[-1].pc if cs else ev.pc


def _implies_pair(dsf, flag):
    """For every leaf of dsf that is 'drift', the flag term restricted to
    the same conditions must be True."""
    if dsf is None or flag is None:
        return False
    for conds, leaf in ite_leaves(dsf):
        if leaf == const("drift"):
            f = flag
            # specialise the flag under the leaf's conditions
            f = _restrict(f, conds)
            if f != T.TRUE:
                return False
    return True


def _restrict(t, conds):
    a = t.single_atom()
    while a is not None and a[0] == "ite":
        c = a[1]
        if any(c == x for x in conds):
            t = a[2]
        elif any(T.mk_not(c) == x for x in conds):
            t = a[3]
        else:
            break
        a = t.single_atom()
    return t


# ---------------------------------------------------------------------------
def state_stores(tr, value):
    return [ev for ev in tr.stores("_drift_state") if ev.value == const(value)]


def clause_warmup(ctx, dets):
    nstores = 0
    def need(cname, tr, value, specs, nmin=1, label=""):
        nonlocal nstores
        evs = state_stores(tr, value)
        ctx.ob("ROLE", cname + ".update", "store of %r%s exists" % (value, label), len(evs) >= nmin,
               "%s.update must be able to report %r (found %d store(s), expected at least %d)" % (cname, value, len(evs), nmin))
        for ev in evs:
            nstores += 1
            missing = q.guard_set_implies(ev, specs)
            site = _site_pc_ev(tr, ev)
            ctx.ob("GRD-warmup", cname + ".update", "guard of store %r%s" % (value, label), not missing,
                   "missing warm-up guard(s): %s" % "; ".join(q.short(m, 120) for m in missing) if missing else
                   "guards include " + "; ".join(q.short(s, 80) for s in specs), site)
        epoch_local(ctx, cname, specs)

    seen_local = set()

    def epoch_local(ctx, cname, specs):
        """The minimum is a minimum *of the current epoch*: whatever the warm-up guard counts restarts in reset()."""
        from . import c02
        conf, _state = c02.config_attrs(ctx, cname)
        tot, since = q.counters(ctx.prog, ctx.prog.cls(cname))
        trr = ctx.trace(cname, "reset", assume={"detect_batch": 3} if cname in HDM else None)
        fin = trr.final.attrs if trr.final is not None else {}
        for s_ in specs:
            for a in T.walk(s_):
                if a[0] != "attr" or a[1] in conf or a[1] in (tot, since) or (cname, a[1]) in seen_local:
                    continue
                if a[1] in EPOCH_LOCAL_EXEMPT.get(cname, {}):
                    continue
                seen_local.add((cname, a[1]))
                v = fin.get(a[1])
                ok = v is not None and not T.mentions(v, lambda z, n=a[1]: z == ("attr", n))
                ctx.ob("GRD-warmup", cname + ".reset", "the quantity %s the warm-up guard counts restarts with the epoch" % a[1], ok,
                       "reset() leaves self.%s %s: after a drift the minimum would be measured from the previous epoch" % (a[1], "untouched" if v is None else "depending on its old value"))

    base = {"_drift_state": None}
    # PageHinkley / CUSUM: ssr > burn_in
    for cname, nmin in (("PageHinkley", 1), ("CUSUM", 1)):  # (one store per direction branch today; the direction table itself is C04's)
        tr = ctx.trace(cname, "update", assume=base, nonnull=("X",))
        ssr = A("_samples_since_reset") + const(1)
        need(cname, tr, "drift", [S("ssr > A_burn_in", {"ssr": ssr})], nmin)
    # DDM
    tr = ctx.trace("DDM", "update", assume=base, nonnull=NONNULL["DDM"])
    ssr = A("_samples_since_reset") + const(1)
    for v in ("drift", "warning"):
        need("DDM", tr, v, [S("ssr >= A_n_threshold", {"ssr": ssr})])
    # EDDM: n_errors (after counting this error) >= n_threshold
    tr = ctx.trace("EDDM", "update", assume=base, nonnull=NONNULL["EDDM"])
    for v in ("drift", "warning"):
        need("EDDM", tr, v, [S("ne >= A_n_threshold", {"ne": A("_n_errors") + const(1)})])
    # STEPD
    tr = ctx.trace("STEPD", "update", assume=base, nonnull=NONNULL["STEPD"])
    for v in ("drift", "warning"):
        need("STEPD", tr, v, [S("ssr >= 2 * A_window_size", {"ssr": ssr})])
    # ADWIN (+Accuracy): schedule, minimum window, minimum sub-windows
    for cname in ("ADWIN", "ADWINAccuracy"):
        tr = ctx.trace(cname, "update", assume=base, nonnull=NONNULL[cname])
        tot = A("_total_samples") + const(1)
        w = A("_window_size") + const(1)
        specs = [S("mod == 0", {"mod": atom(("mod", tot, A("new_sample_thresh")))}),
                 S("w > A_window_size_thresh", {"w": w})]
        evs = state_stores(tr, "drift")
        ctx.ob("ROLE", cname + ".update", "store of 'drift' exists", len(evs) >= 1, "ADWIN must be able to report drift")
        for ev in evs:
            nstores += 1
            missing = q.guard_set_implies(ev, specs)
            # sub-window guards: n0 >= thresh and n1 >= thresh on two different loop variables
            subs = []
            # a helper's verdict `(a and b) or (a and b and c)` guards with what holds in each of its cases
            flat = []
            for g0 in guards(ev):
                cases = q.dnf([g0])
                common = [x for x in cases[0] if all(any(x == y for y in k) for k in cases[1:])] if cases else []
                flat.extend(common if len(cases) > 1 else q.conjuncts(g0))
            for g in flat:
                c = q.is_cmp(g)
                if c is None:
                    continue
                op, d = q.norm_cmp(g)
                if op not in (">", ">="):
                    continue
                rest = d + A("subwindow_size_thresh") - (const(1) if op == ">" else const(0))
                if T.mentions(rest, lambda x: x == ("attr", "subwindow_size_thresh")):
                    continue
                lv = {x[2] for x in T.atoms_of(rest, "loopvar") if x[2].startswith("$")}
                # the running size of one of the two sub-windows (a loop variable, possibly with this step's increment)
                big = [n for n in lv if T.mentions(rest, lambda z: z[0] == "loopvar" and z[2] == n) and not T.mentions(rest, lambda z: z[0] == "pow" and T.mentions(z[2], lambda y: y[0] == "loopvar" and y[2] == n))]
                if len(big) == 1:
                    subs.append(big[0])
            ok = not missing and len(set(subs)) >= 2
            ctx.ob("GRD-warmup", cname + ".update", "guard of store 'drift'", ok,
                   ("missing: %s; sub-window guards on %s" % ("; ".join(q.short(m, 100) for m in missing), sorted(set(subs)))),
                   _site_pc_ev(tr, ev))
            eps = [g for g in flat if T.mentions(g, lambda a: a[0] == "call" and a[1] == "abs")]
            ctx.ob("GRD-warmup", cname + ".update", "drift store is under the epsilon-cut test", bool(eps), "", _site_pc_ev(tr, ev))
    # LinearFourRates
    nstores += lfr_cadence(ctx)
    # kdq-tree streaming
    tr = ctx.trace("KdqTreeStreaming", "update", assume=base, nonnull=("X",))
    specs = [S("A__kdqtree is not None"),
             S("n >= A_window_size", {"n": A("_test_data_size") + const(1)}),
             S("c > A_persistence * A_window_size", {"c": A("_drift_counter") + const(1)})]
    need("KdqTreeStreaming", tr, "drift", specs)
    tr = ctx.trace("KdqTreeBatch", "update", assume=base, nonnull=("X",))
    need("KdqTreeBatch", tr, "drift", [S("A__kdqtree is not None")])
    # HDM per detect_batch
    for cname in HDM:
        for db in (1, 2, 3):
            tr = ctx.trace(cname, "update", assume={"_drift_state": None, "detect_batch": db}, nonnull=("X",))
            bsr = A("_batches_since_reset") + const(1)
            k = 3 if db == 3 else 2
            need(cname, tr, "drift", [S("bsr >= %d" % k, {"bsr": bsr})], label=" (detect_batch=%d)" % db)
            # no store of drift under a weaker count guard: the *strongest* count guard is the tabled one
            for ev in state_stores(tr, "drift"):
                for g in guards(ev):
                    n = q.norm_cmp(g)
                    if n and n[0] == ">" and set(n[1].atoms()) == {("attr", "_batches_since_reset")}:
                        pass
    # PCACD
    tr = ctx.trace("PCACD", "update", assume=base, nonnull=("X",))
    tot = A("_total_samples") + const(1)
    specs = [S("not A__build_reference_and_test"),
             S("m == 0", {"m": atom(("mod", tot - const(1), A("step")))}),
             S("t != 0", {"t": tot - const(1)})]
    need("PCACD", tr, "drift", specs)
    # fill phase: windows are filled only while the flag is set, and the flag is
    # cleared only when the test window holds window_size samples
    evs = [e for e in tr.stores("_build_reference_and_test") if e.value == T.FALSE]
    ctx.ob("ROLE", "PCACD.update", "fill phase ends", len(evs) >= 1, "")
    for ev in evs:
        ok = any(T.mentions(g, lambda a: a == ("attr", "window_size")) and (q.is_cmp(g) or ("", ""))[1] == "==" for g in guards(ev))
        ctx.ob("GRD-warmup", "PCACD.update", "fill phase ends when len(test window) == window_size", ok, "", ev)
    # NNDVI / MD3 have no warm-up beyond their reference; MD3's protocol is C19
    ctx.floor("drift/warning stores with warm-up guards", nstores, 20)


def lfr_cadence(ctx):
    """LinearFourRates: flags can become true only after burn_in and on every subsample-th sample of the epoch;
    the reported state is read from the flags of the current step."""
    base = {"_drift_state": None}
    ssr = A("_samples_since_reset") + const(1)
    nstores = 0
    tr = ctx.trace("LinearFourRates", "update", assume=base, nonnull=NONNULL["LinearFourRates"])
    specs = [S("ssr > A_burn_in", {"ssr": ssr}), S("m == 0", {"m": atom(("mod", ssr, A("subsample")))})]
    nm = 0
    for ev in tr.mutations():
        if ev.attr not in ("_alarm_states", "_warning_states"):
            continue
        if _only_false(ev.value):
            continue
        nm += 1
        missing = q.guard_set_implies(ev, specs)
        ctx.ob("GRD-warmup", "LinearFourRates.update", "possibly-true store into %s" % ev.attr, not missing,
               "missing: " + "; ".join(q.short(m, 100) for m in missing), ev)
    ctx.floor("LFR flag stores", nm, 2)
    for v, attr in (("drift", "_alarm_states"), ("warning", "_warning_states")):
        evs = state_stores(tr, v)
        ctx.ob("ROLE", "LinearFourRates.update", "store of %r exists" % v, len(evs) >= 1, "")
        for ev in evs:
            nstores += 1
            ok = False
            for g in guards(ev):
                a = g.single_atom()
                if a is not None and a[0] == "call" and a[1] == "any":
                    # the flags read are those of the current index
                    arg = a[2][0].single_atom()
                    if arg is not None and arg[0] == "mcall" and arg[2] == "values":
                        leaves = [l for _c, l in ite_leaves(arg[1])]
                        ok = bool(leaves)
                        for l in leaves:
                            sub = l.single_atom()
                            if sub is not None and sub[0] == "dict" and _only_false(l):
                                continue  # the freshly created all-False entry of this index: any() of it is False
                            if not (sub is not None and sub[0] == "sub" and T.same(sub[2], ssr) and _rooted(sub[1], attr)):
                                ok = False
            ctx.ob("GRD-warmup", "LinearFourRates.update", "store %r is under any(%s[ssr].values())" % (v, attr), ok, "", _site_pc_ev(tr, ev))
    return nstores


def _only_false(v):
    """Is the stored value False, or (for dict.update) a dict literal whose
    values are dict literals of only False?"""
    a = v.single_atom()
    if a is None:
        return False
    if a == ("const", False):
        return True
    if a[0] == "tuple" and len(a[1]) == 1:
        return _only_false(a[1][0])
    if a[0] == "dict":
        return all(_only_false(val) for _k, val in a[1])
    return False


def _rooted(t, attr):
    """Is term t derived (through setitem/mutated/appended) from attribute attr?"""
    a = t.single_atom()
    while a is not None:
        if a == ("attr", attr):
            return True
        if a[0] == "loopvar" and a[2] == attr:
            return True
        if a[0] in ("setitem", "mutated", "appended", "objstate"):
            t = a[1] if a[0] != "objstate" else a[2]
            a = t.single_atom()
            continue
        if a[0] == "dict":
            return True
        return False
    return False


def _site_pc_ev(tr, ev):
    """The statement in the detector that performs a property store."""
    if ev.func.is_setter:
        cs = [e for e in tr.events[: ev.seq] if e.kind == "call" and e.callee[0] == "setter"]
        if cs:
            if ev.d.get("phi_conds"):
                from ..evalr import virtual
                return virtual(cs[-1], ev.phi_conds)
            return cs[-1]
    return ev


# ---------------------------------------------------------------------------
RECS = ["DDM", "EDDM", "LinearFourRates", "STEPD", "ADWIN", "ADWINAccuracy"]


def clause_recs(ctx):
    clause_recs_for(ctx, RECS)
    from . import common
    for n in ("DDM", "EDDM", "LinearFourRates"):
        common.recs_table(ctx, n, NONNULL[n])
    common.recs_table_stepd(ctx, NONNULL["STEPD"])
    for ci in q.public_detectors(ctx)[0]:
        common.init_base(ctx, ci.name)


def clause_recs_for(ctx, names):
    prog = ctx.prog
    for cname in names:
        # reset clears the recommendation
        tr = ctx.trace(cname, "reset")
        v = tr.final.attrs.get("_retraining_recs")
        ok = v is not None and _is_none_pair(v)
        ctx.ob("MC-recs", cname + ".reset", "reset re-initialises retraining_recs", ok,
               "reset() must set retraining_recs to [None, None] so that the update after a drift clears it")
        tr = ctx.trace(cname, "update", assume={"_drift_state": None}, nonnull=NONNULL[cname])
        cur = A("_total_samples")  # index of the current sample = total' - 1
        if cname in ("ADWIN", "ADWINAccuracy"):
            evs = [e for e in tr.stores("_retraining_recs")]
            ctx.ob("ROLE", cname + ".update", "recs store on drift", len(evs) >= 1, "")
            for ev in evs:
                a = ev.value.single_atom()
                ok = a is not None and a[0] in ("tuple", "list") and len(a[1]) == 2
                wnow = None
                for e in reversed(tr.events[: ev.seq]):
                    if e.kind == "store" and e.attr == "_window_size":
                        wnow = e
                        break
                ok2 = ok and T.same(a[1][1], cur)
                ok3 = ok and wnow is not None and q.in_func(wnow, "ADWIN._remove_last") and T.same(a[1][0], cur + const(1) - wnow.value)
                ctx.ob("FRM-recs", cname + ".update", "recs end index == total_samples - 1", ok2, q.short(ev.value, 120), ev)
                ctx.ob("FRM-recs", cname + ".update", "recs start == total_samples - W after the removal", ok3, q.short(ev.value, 160), ev)
                # same block as a drift store
                dr = [e for e in state_stores(tr, "drift")]
                same = any(set(map(id, _site_pc_ev(tr, d).pc)) <= set(map(id, ev.pc)) for d in dr)
                ctx.ob("PAIR", cname + ".update", "recs stored where drift is stored", same, "", ev)
            continue
        if cname in ("DDM", "EDDM", "LinearFourRates", "STEPD"):
            # the bookkeeping of these classes is decided as a final-state table (common.recs_table / recs_table_stepd, run by every
            # caller of this clause); the former statement-level pattern rules raised false alarms on behaviour-preserving rewrites
            continue
        muts = tr.mutations("_retraining_recs")
        ctx.ob("ROLE", cname + ".update", "recs bookkeeping exists", len(muts) >= 2, "found %d" % len(muts))
        for ev in muts:
            if ev.aug:
                # STEPD idiom: recs[1] += 1 in the else branch of 'recs[0] is None'
                ok = cname == "STEPD" and ev.aug[0] == "Add" and ev.aug[1] == const(1) and ev.path == (("item", const(1)),)
                ctx.ob("FRM-recs", cname + ".update", "recs[1] += 1 (uninterrupted run idiom)", ok, "", ev)
                continue
            ok = T.same(ev.value, cur)
            ctx.ob("FRM-recs", cname + ".update", "recs%s := total_samples - 1" % q.short(ev.path[0][1] if ev.path else const(0), 10), ok,
                   "stored %s" % q.short(ev.value, 80), ev)
        # the end index is written whenever drift is stored
        dr = state_stores(tr, "drift")
        for d in dr:
            site = _site_pc_ev(tr, d)
            dg = guards(site)
            hit = False
            for ev in muts:
                if ev.path and ev.path[0][1] in (const(1),) or (cname == "STEPD"):
                    eg = guards(ev)
                    if all(any(pred_equiv(x, y) for y in eg) or _covered(x, eg) for x in dg):
                        hit = True
            ctx.ob("MC-recs", cname + ".update", "drift store is followed by the end-index update", hit,
                   "every path that stores 'drift' must update retraining_recs[1]", site)
        if cname != "STEPD":
            # the first-warning index is that of the EPOCH: only reset() may forget it
            re_init = [e for e in tr.stores("_retraining_recs")]
            ctx.ob("WR-recs", cname + ".update", "the recommendation is re-initialised only by reset(), not while the epoch runs", not re_init,
                   "re-initialising retraining_recs inside update() loses the index at which the detector first entered the warning zone in this epoch",
                   re_init[0] if re_init else None)
        # STEPD: "every way of returning to state None re-initialises the recommendation" is decided on the final state by
        # common.recs_table_stepd (state' None -> [None, None] in every cell), which every caller of this clause also runs;
        # the former pattern rule on the position of the re-initialising statement raised false alarms on refactored code.


def _covered(x, eg):
    """x is a guard of the drift store; it is covered if some guard in eg is a
    condition on the resulting drift_state that mentions x's atoms (the
    `drift_state == 'drift'` test after the chain distributes into x)."""
    for y in eg:
        for c in q.conjuncts(y) + q.disjuncts(y):
            if pred_equiv(c, x):
                return True
        if T.mentions(y, lambda a: a == x.single_atom()):
            return True
    return False


def _is_none_pair(v):
    a = v.single_atom()
    if a is None:
        return False
    if a[0] in ("list", "tuple"):
        return len(a[1]) == 2 and all(x == T.NONE for x in a[1])
    if a[0] == "call" and a[1] == "numpy.array" and a[2]:
        return _is_none_pair(a[2][0])
    return False
