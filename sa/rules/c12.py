"""C12 - ensembles: members run as if alone; election after every update; fan-out."""
from .. import terms as T
from ..terms import const, atom
from .. import q
from ..q import A, P, S, guards
from ..evalr import Evaluator

ENS = ["StreamingEnsemble", "BatchEnsemble"]
DATA = ("X", "y_true", "y_pred")


def member_calls(tr):
    """Calls whose receiver is an element of self.detectors."""
    out = []
    for e in tr.calls():
        if e.callee[0] in ("mcall", "foreign") and "recv" in e.d and _is_member(e.recv):
            out.append(e)
    return out


def _is_member(t):
    a = t.single_atom()
    if a is None:
        return False
    if a[0] == "sub" and _is_detectors(a[1]):
        return True
    if a[0] == "iter" and (_is_values(a[1]) or _is_list_of_values(a[1])):
        return True
    if a[0] == "sub" and _is_list_of_values(a[1]):
        return True
    return False


def _is_list_of_values(t):
    a = t.single_atom()
    return a is not None and a[0] == "call" and a[1] in ("list", "tuple", "sorted") and a[2] and _is_values(a[2][0])


def _is_detectors(t):
    u = q.unmut(t)
    a = u.single_atom()
    return u == A("detectors") or (a is not None and a[0] == "loopvar" and a[2] == "detectors")


def _is_values(t):
    a = t.single_atom()
    return a is not None and a[0] == "mcall" and a[2] in ("values",) and _is_detectors(a[1])


def _over_members(it):
    """does a loop over `it` visit every member once?  the dict itself, its keys / values / items, or a list of one of those"""
    a = it.single_atom() if it is not None else None
    if a is not None and a[0] == "call" and a[1] in ("list", "tuple") and len(a[2]) == 1 and not a[3]:
        return _over_members(a[2][0])
    if _is_detectors(it):
        return True
    return a is not None and a[0] == "mcall" and a[2] in ("keys", "values", "items") and not a[3] and _is_detectors(a[1])


def member_loop(tr, calls):
    """the loop the member calls sit in (innermost), when it is one unbroken loop over all members"""
    lids = {loop_of(tr, e) for e in calls}
    if len(lids) != 1 or None in lids:
        return None
    L = tr.loops.get(next(iter(lids)))
    return L if L is not None and _over_members(L["iter"]) and not L["break"] else None


def loop_of(tr, ev):
    ls = [p.cond.single_atom()[1] for p in ev.pc if (p.cond.single_atom() or ("",))[0] == "inloop"]
    return ls[-1] if ls else None


def run(ctx):
    ctx.explanation = (
        "on the value-numbered update / set_reference / reset of both ensembles: every member is called exactly once per iteration of a "
        "loop over all members, with the selector applied to the caller's X and the caller's labels; nothing else is called on or stored "
        "into a member (FOREIGN); the election is applied unconditionally after the loop to all members in insertion order and its result "
        "stored; reset / set_reference fan out; drift_states / retraining_recs report the members' values; the ensemble's own counters count")
    ctx.assumptions += ["members share no state with each other (they are distinct objects)", "interleaving of global-RNG draws between members is outside source analysis"]
    for cname in ENS:
        fanout(ctx, cname, "update")
        if cname == "BatchEnsemble":
            fanout(ctx, cname, "set_reference")
        reset(ctx, cname)
        views(ctx, cname)
        own_counters(ctx, cname)
        foreign(ctx, cname)
        construction(ctx, cname)
    # "its election applied to the members": the four documented elections themselves (the rules of C13)
    from . import c13
    c13.majority(ctx)
    c13.minimum(ctx)
    c13.ordered(ctx)
    c13.confirmed(ctx)


def fanout(ctx, cname, meth):
    site = "%s.%s" % (cname, meth)
    tr = ctx.trace(cname, meth)
    mc = member_calls(tr)
    calls = [e for e in mc if e.callee[-1] == meth]
    ctx.ob("MC", site, "one loop over the members", member_loop(tr, calls) is not None,
           "loops: %s" % [q.short(l["iter"], 40) for l in tr.loops.values()])
    ctx.ob("MC", site, "each member's %s is called exactly once per iteration" % meth, len(calls) == 1 and loop_of(tr, calls[0]) is not None
           and sum(1 for p in calls[0].pc if (p.cond.single_atom() or ("",))[0] != "inloop") == 0,
           "found %d call(s); guards: %s" % (len(calls), [q.short(p.cond, 50) for e in calls for p in e.pc]), calls[0] if calls else None)
    others = [e for e in mc if e.callee[-1] != meth]
    ctx.ob("FOREIGN", site, "nothing but %s is called on a member during %s" % (meth, meth), not others,
           "a member must receive exactly the calls it would receive alone; found %s" % sorted({e.callee[-1] for e in others}), others[0] if others else None)
    if not calls:
        return
    e = calls[0]
    kw = dict(e.kwargs)
    pos = list(e.args)
    x = kw.get("X", pos[0] if pos else None)
    yt = kw.get("y_true", pos[1] if len(pos) > 1 else None)
    yp = kw.get("y_pred", pos[2] if len(pos) > 2 else None)
    ctx.ob("FWD", site, "members receive the caller's y_true and y_pred", yt == P("y_true") and yp == P("y_pred"), "y_true=%s y_pred=%s" % (q.short(yt, 30) if yt is not None else None, q.short(yp, 30) if yp is not None else None), e)
    xa = x.single_atom() if x is not None else None
    key = e.recv.single_atom()[2] if e.recv.single_atom()[0] == "sub" else None
    ok = xa is not None and xa[0] == "call" and xa[1] == "<dynamic>" and len(xa[2]) == 2 and xa[2][1] == P("X")
    if ok:
        sel = xa[2][0].single_atom()
        ok = sel is not None and sel[0] == "sub" and q.unmut(sel[1]) == A("column_selectors") and sel[2] == key
    ctx.ob("FWD", site, "a member receives its own selector applied to the caller's X", ok,
           "X=%s" % (q.short(x, 100) if x is not None else None), e)
    # the parameter X is not rebound inside the loop (no column leak between members)
    reb = [l for l in tr.of("local") if l.name in DATA and (q.stack_has(l, "Ensemble." + meth) or q.stack_has(l, site))]
    ctx.ob("FWD", site, "X / y_true / y_pred are not reassigned (no leak of one member's columns to the next)", not reb, "", reb[0] if reb else None)


def reset(ctx, cname):
    site = cname + ".reset"
    tr = ctx.trace(cname, "reset")
    mc = member_calls(tr)
    calls = [e for e in mc if e.callee[-1] == "reset"]
    ok = member_loop(tr, calls) is not None and len(calls) == 1 and not calls[0].args and \
        sum(1 for p in calls[0].pc if (p.cond.single_atom() or ("",))[0] != "inloop") == 0
    ctx.ob("MC", site, "reset reaches every member", ok, "", calls[0] if calls else None)
    ctx.ob("FOREIGN", site, "only reset is called on members", len(mc) == len(calls), "")


def views(ctx, cname):
    tr = ctx.trace(cname, "drift_states") if ctx.prog.lookup(ctx.prog.cls(cname), "drift_states") else None
    ci = ctx.prog.cls(cname)
    g = ctx.prog.find_property(ci, "drift_states")
    ctx.require(g is not None, cname + ".drift_states property")
    t = Evaluator(ctx.prog, ci).run(g[0])
    a = t.retval.single_atom() if t.retval is not None else None
    ok = a is not None and a[0] == "comp" and a[1] == "dict" and not a[4]
    if ok:
        it = a[3][0].single_atom()
        k, v = a[2]
        va = v.single_atom()
        ok = it is not None and it[0] == "mcall" and it[2] == "items" and it[1] == A("detectors") and (k.single_atom() or ("",))[0] == "iterkey" and \
            va is not None and va[0] == "getattr" and va[2] == "drift_state" and va[1] == q.sub(A("detectors"), k)
    ctx.ob("FRM", cname + ".drift_states", "reports every member's drift_state under its key", ok, q.short(t.retval, 120))
    g = ctx.prog.find_property(ci, "retraining_recs")
    ctx.require(g is not None, cname + ".retraining_recs property")
    t = Evaluator(ctx.prog, ci).run(g[0])
    db = q.dict_build(t, t.retval) if t.retval is not None else None
    ok = db is not None
    if ok:
        key, val, conds, it = db
        va = val.single_atom()
        ita = it.single_atom()
        ok = ita is not None and ita[0] == "mcall" and ita[2] == "items" and _is_detectors(ita[1]) and \
            (key.single_atom() or ("",))[0] == "iterkey" and va is not None and va[0] == "getattr" and va[2] == "retraining_recs" and va[1] == q.sub(A("detectors"), key)
        ok = ok and len(conds) == 1 and (conds[0].single_atom() or ("", ""))[:2] == ("call", "hasattr") and conds[0].single_atom()[2] == (va[1], const("retraining_recs"))
    ctx.ob("FRM", cname + ".retraining_recs", "reports the retraining_recs of every member that has them", ok, "")


def own_counters(ctx, cname):
    base = "StreamingDetector" if cname.startswith("Streaming") else "BatchDetector"
    for meth in ("update", "reset"):
        tr = ctx.trace(cname, meth)
        a = [e for e in q.find_calls(tr, "Ensemble." + meth) if len(e.stack) == 1]
        b = [e for e in q.find_calls(tr, "%s.%s" % (base, meth)) if len(e.stack) == 1]
        ok = len(a) == 1 and len(b) == 1 and not a[0].pc and not b[0].pc
        ctx.ob("MC", "%s.%s" % (cname, meth), "calls Ensemble.%s and %s.%s exactly once, unconditionally" % (meth, base, meth), ok, "")
        if meth == "update" and a:
            kw = dict(a[0].kwargs)
            ok = (kw.get("X", a[0].args[0] if a[0].args else None), kw.get("y_true"), kw.get("y_pred")) == (P("X"), P("y_true"), P("y_pred")) or tuple(a[0].args) == (P("X"), P("y_true"), P("y_pred"))
            ctx.ob("FWD", cname + ".update", "the caller's arguments are passed to Ensemble.update unchanged", ok, "", a[0])
    tr = ctx.trace(cname, "update")
    from ..q import counters
    tot, since = counters(ctx.prog, ctx.prog.cls(cname))
    fin = tr.final.attrs
    ctx.ob("MC", cname + ".update", "the ensemble's own counters advance by one per update",
           fin.get(tot) is not None and T.same(fin[tot], A(tot) + const(1)) and T.same(fin[since], A(since) + const(1)), "")
    # election
    dyn = [e for e in tr.calls() if e.callee[0] == "dynamic" and e.callee[1] == A("election")]
    ctx.ob("MC", cname + ".update", "the election is evaluated exactly once, unconditionally", len(dyn) == 1 and not dyn[0].pc,
           "guards: %s" % [q.short(p.cond, 60) for e in dyn for p in e.pc], dyn[0] if dyn else None)
    if dyn:
        arg = dyn[0].args[0].single_atom() if dyn[0].args else None
        ok = arg is not None and arg[0] == "call" and arg[1] == "list" and _is_values(arg[2][0])
        ctx.ob("FRM", cname + ".update", "the election sees all members in insertion order", ok, q.short(dyn[0].args[0], 80) if dyn[0].args else "", dyn[0])
        mc = [e for e in member_calls(tr) if e.callee[-1] == "update"]
        ctx.ob("ORD", cname + ".update", "the election is evaluated after the members were updated", bool(mc) and mc[-1].seq < dyn[0].seq and loop_of(tr, dyn[0]) is None, "", dyn[0])
        ds = fin.get("_drift_state")
        ctx.ob("FRM", cname + ".update", "the ensemble's drift_state is the election's verdict on every path", ds is not None and ds == dyn[0].result,
               "drift_state after update = %s" % (q.short(ds, 120) if ds is not None else None))
    # the members are the constructor's detectors
    ti = ctx.trace(cname, "__init__")
    d = ti.final.attrs.get("detectors")
    ctx.ob("FRM", cname + ".__init__", "members are a copy of the given dict (insertion order kept)", d == atom(("mcall", P("detectors"), "copy", (), ())), q.short(d, 60) if d is not None else "")
    ctx.ob("FRM", cname + ".__init__", "the election is the one given", ti.final.attrs.get("election") == P("election"), "")


def foreign(ctx, cname):
    """No method of the ensemble stores into a member or touches anything but
    update / reset / set_reference / drift_state / retraining_recs."""
    ci = ctx.prog.cls(cname)
    names = []
    for c in ci.mro:
        if c.name in ("Ensemble", cname):
            names += [m for m in c.methods if m not in names]
    allowed_calls = {"update", "reset", "set_reference"}
    allowed_reads = {"drift_state", "retraining_recs", "update", "reset", "set_reference"}   # the last three: the bound method taken in order to call it (the calls themselves are checked above)
    for m in names:
        tr = ctx.trace(cname, m)
        for e in member_calls(tr):
            ctx.ob("FOREIGN", "%s.%s" % (cname, m), "call %s on a member" % e.callee[-1], e.callee[-1] in allowed_calls, "", e, nontrivial=False)
        for e in tr.of("mutate"):
            if e.attr == "detectors" and any(p[0] == "attr" for p in e.path):
                ctx.ob("FOREIGN", "%s.%s" % (cname, m), "store into a member's attribute", False, "ensemble code must not write member state", e)
        for e in tr.of("localmut"):
            old = e.d.get("old")
            if isinstance(old, T.R) and _is_member(q.unmut(old)) and e.how in ("setattr", "setitem"):
                ctx.ob("FOREIGN", "%s.%s" % (cname, m), "store into a member's attribute", False, "ensemble code must not write member state", e)
        for e in tr.events:
            for k in ("value", "cond"):
                t = e.d.get(k)
                if isinstance(t, T.R):
                    for a in T.atoms_of(t, "getattr"):
                        if _is_member(a[1]) and a[2] not in allowed_reads:
                            ctx.ob("FOREIGN", "%s.%s" % (cname, m), "read of member attribute %s" % a[2], False, "", e)
    ctx.ob("FOREIGN", cname, "members are touched only through update / reset / set_reference / drift_state / retraining_recs", True, "", nontrivial=False)


def _probe_default(ctx, cname, fa):
    """value of factory()(probe) for the default-selector factory (a nested function of Ensemble.__init__ or a module function)"""
    import ast as _ast
    probe = atom(("sym", "probe data"))
    if fa[0] == "closure":
        fi = ctx.prog.method("Ensemble", "__init__").nested.get(fa[1].rsplit(".", 1)[-1])
    else:
        mod, _, name = fa[1].rpartition(".")
        mi = ctx.prog.modules.get(mod)
        fi = mi.functions.get(name) if mi is not None else None
    if fi is None:
        return None
    body = [s for s in fi.node.body if not (isinstance(s, _ast.Expr) and isinstance(s.value, _ast.Constant))]
    if len(body) != 1 or not isinstance(body[0], _ast.Return):
        return None
    v = body[0].value
    if isinstance(v, _ast.Lambda):
        if len(v.args.args) == 1 and isinstance(v.body, _ast.Name) and v.body.id == v.args.args[0].arg:
            return probe
        return None
    if isinstance(v, _ast.Name):
        # a module-level function returned by name: it must return its only argument
        g = fi.module.functions.get(v.id) if hasattr(fi, "module") else None
        if g is not None:
            gb = [s for s in g.node.body if not (isinstance(s, _ast.Expr) and isinstance(s.value, _ast.Constant))]
            if len(gb) == 1 and isinstance(gb[0], _ast.Return) and isinstance(gb[0].value, _ast.Name) and len(g.node.args.args) == 1 and gb[0].value.id == g.node.args.args[0].arg:
                return probe
    return None


def construction(ctx, cname):
    """Selectors: the caller's selectors on top of an identity default; base state of the ensemble's own counters."""
    from . import common
    site = cname + ".__init__"
    ti = ctx.trace(cname, "__init__")
    at = ti.final.attrs if ti.final is not None else {}
    cs = at.get("column_selectors")
    a = cs.single_atom() if cs is not None else None
    # defaultdict(factory) updated with the caller's selectors, or defaultdict(factory, caller's selectors)
    fac = None
    if a is not None and a[0] == "mutated" and a[3] == "method:update" and a[4] == atom(("tuple", (P("column_selectors"),))):
        b = a[1].single_atom()
        if b is not None and b[0] == "call" and b[1] == "collections.defaultdict" and len(b[2]) == 1:
            fac = b[2][0]
    elif a is not None and a[0] == "call" and a[1] == "collections.defaultdict" and len(a[2]) == 2 and a[2][1] == P("column_selectors"):
        fac = a[2][0]
    fa = fac.single_atom() if fac is not None else None
    ok = fa is not None and fa[0] in ("closure", "global")
    ctx.ob("FRM", site, "selectors = the given ones on top of a default for every other member", ok, q.short(cs, 120) if cs is not None else "unset")
    if ok:
        # what the factory returns must hand the data through: evaluate factory()(data)
        okd = _probe_default(ctx, cname, fa) == atom(("sym", "probe data"))
        ctx.ob("FRM", site, "the default selector passes the data through unchanged", okd, "")
    common.init_base(ctx, cname)
    # views start from an empty result
    g = ctx.prog.find_property(ctx.prog.cls(cname), "retraining_recs")
    ctx.require(g is not None, cname + ".retraining_recs property")
    tv = Evaluator(ctx.prog, ctx.prog.cls(cname)).run(g[0])
    rv = tv.retval
    base = q.unmut(rv) if rv is not None else None
    ctx.ob("FRM", cname + ".retraining_recs", "the report starts empty and gains one entry per member that has a recommendation",
           rv is not None and q.dict_build(tv, rv) is not None, q.short(rv, 100) if rv is not None else "")
