"""C18 - batch detectors ignore the order of rows inside a batch."""
from .. import terms as T
from ..terms import const, atom, R
from .. import q
from ..q import A, P, guards
from ..evalr import Evaluator
from .. import libtable as L
from ..loader import AnalysisError
from .c16 import event_terms

# attributes that hold row-ordered batch data between calls
ORDERED_ATTRS = {"reference", "reference_batch", "ref_data", "_ref_data"}
# positional operations that are admitted, one reason each: (function qualname, kind) -> reason
ALLOWED = {
    ("HistogramDensityMethod.reset", "*"): "detect_batch = 1 splits the reference by position (excluded by the property's wording)",
    ("HistogramDensityMethod._estimate_initial_epsilon", "*"): "bootstrap estimate of the first epsilon (detect_batch 1 / 2 thresholds; excluded by the property)",
    ("NNSpacePartitioner.build", "split-at-len(sample1)"): "the pooled inverse index is cut at len(sample1): separates the two samples, order-free as sets",
}


class Order:
    def __init__(self, sources, attrs=ORDERED_ATTRS):
        self.sources = set(sources)
        self.attrs = set(attrs)
        self.memo = {}

    def ordered(self, t):
        if isinstance(t, R):
            return any(self.atom(a) for a in t.atoms())
        if isinstance(t, tuple):
            return any(self.ordered(x) for x in t if isinstance(x, (R, tuple)))
        return False

    def atom(self, a):
        if a in self.memo:
            return self.memo[a]
        self.memo[a] = False
        r = self._atom(a)
        self.memo[a] = r
        return r

    def _atom(self, a):
        k = a[0]
        if k == "param":
            return a[1] in self.sources
        if k == "attr":
            return a[1] in self.attrs
        if k == "loopvar":
            nm = a[2]
            return nm in self.attrs or (nm.startswith("$") and nm[1:] in self.sources)
        if k in ("const", "global", "cmp", "and", "or", "not", "idx", "slice", "self", "inloop", "sym", "opaque", "new", "closure", "undef", "iterkey", "lambda"):
            # a comparison / mask of ordered data is itself row-aligned, but it only ever selects rows (handled at 'sub')
            return False
        if k == "ite":
            return self.ordered(a[2]) or self.ordered(a[3])
        if k in ("tuple", "list", "set"):
            return self.ordered(a[1])
        if k == "dict":
            return any(self.ordered(v) for _k, v in a[1])
        if k in ("setitem", "mutated", "appended"):
            return self.ordered(a[1])
        if k == "objstate":
            return False  # a repository object; its own methods are analysed separately
        if k == "getattr":
            if a[2] in L.INVARIANT_ATTRS:
                return False
            return self.ordered(a[1])
        if k == "sub":
            b = a[1].single_atom()
            if b is not None and b[0] == "call" and b[1] == "numpy.unique" and a[2].is_const() and a[2].const_value() >= 1 and \
                    any(n in ("return_inverse", "return_index") for n, _v in b[3]):
                # the inverse / first-occurrence index of np.unique is aligned with the input rows
                return any(self.ordered(x) for x in b[2])
            return self.ordered(a[1])
        if k == "iter":
            return self.ordered(a[1])
        if k == "comp":
            return self.ordered(a[2])
        if k == "concat":
            return self.ordered(a[1]) or self.ordered(a[2])
        if k == "call":
            if a[1] in L.INVARIANT_REDUCERS:
                return False
            return any(self.ordered(x) for x in a[2]) or any(self.ordered(v) for _n, v in a[3])
        if k == "mcall":
            if a[2] in L.INVARIANT_METHODS:
                return False
            return self.ordered(a[1]) or any(self.ordered(x) for x in a[3])
        if k in ("mod", "floordiv", "pow", "matmul", "bitand", "bitor"):
            return any(self.ordered(x) for x in a[1:] if isinstance(x, R))
        return False


def row_axis(order, t):
    """Does the outermost axis of t follow the rows of the batch?  A list with one entry per element of an order-free
    domain ([f(X, j) for j in range(d)], [a, b]) holds row-ordered things but is itself indexed by that domain."""
    a = t.single_atom() if isinstance(t, R) else None
    if a is not None and a[0] == "comp":
        return any(order.ordered(it) and row_axis(order, it) for it in a[3])
    if a is not None and a[0] in ("list", "tuple"):
        return False
    if a is not None and a[0] == "iter":
        # an element of such a list is whatever the list holds
        b = a[1].single_atom()
        if b is not None and b[0] == "comp" and not row_axis(order, a[1]):
            return order.ordered(b[2])
    return order.ordered(t)


def full_slice(t):
    a = t.single_atom()
    return a is not None and a[0] == "slice" and all(x == T.NONE for x in a[1:])


def row_positional(idx):
    """Does the index pick rows by position (integer or partial slice in the first axis)?"""
    a = idx.single_atom() if isinstance(idx, R) else None
    if idx.is_const():
        return True
    if a is None:
        return True  # arithmetic index
    if a[0] == "slice":
        return not full_slice(idx)
    if a[0] == "tuple":
        if not a[1]:
            return False
        return row_positional(a[1][0]) if not full_slice(a[1][0]) else False
    if a[0] in ("cmp", "and", "or", "not"):
        return False  # boolean mask
    if a[0] in ("idx", "loopvar", "param", "attr", "call", "mod", "floordiv"):
        return True
    return False


def scan(ctx, site, tr, order, cell_label="", allowed_extra=()):
    n = 0
    seen = set()
    for e in tr.events:
        if e.func is None:
            continue
        ts = event_terms(e)
        if e.kind == "loop" and isinstance(e.d.get("iter"), R):
            ts = ts + [atom(("iter", e.iter, "loop"))]
        for pc in e.pc[-1:]:
            ts.append(pc.cond)
        for t in ts:
            for a in T.walk(t):
                kind = None
                what = None
                if a[0] == "sub" and order.ordered(a[1]) and row_axis(order, a[1]) and row_positional(a[2]):
                    base_a = a[1].single_atom()
                    # subscripting an invariant-length tuple such as X.shape is not positional on rows
                    kind, what = "positional subscript", "%s[%s]" % (q.short(a[1], 40), q.short(a[2], 40))
                elif a[0] == "call" and a[1] in L.POSITIONAL_CALLS and (order.ordered(a[2]) or any(order.ordered(v) for _n, v in a[3])):
                    kind, what = "positional call", a[1]
                elif a[0] == "mcall" and a[2] in L.POSITIONAL_METHODS and order.ordered(a[1]):
                    kind, what = "positional method", "." + a[2]
                elif a[0] == "iter" and order.ordered(a[1]) and row_axis(order, a[1]):
                    kind, what = "iteration over rows", q.short(a[1], 40)
                if kind is None:
                    continue
                n += 1
                k = (e.func.qualname, kind, what)
                if k in seen:
                    continue
                seen.add(k)
                reason = None
                for f in e.stack:
                    reason = reason or ALLOWED.get((f.qualname, "*"))
                if reason is None and any(f.qualname == "NNSpacePartitioner.build" for f in e.stack) and a[0] == "sub":
                    # only the split at len(sample1) / its complement
                    i = a[2].single_atom()
                    n1 = atom(("call", "len", (P("sample1"),), ()))
                    if i is not None and i[0] == "slice" and (tuple(i[1:]) == (T.NONE, n1, T.NONE) or tuple(i[1:]) == (n1, T.NONE, T.NONE)):
                        reason = ALLOWED[("NNSpacePartitioner.build", "split-at-len(sample1)")]
                ctx.ob("TNT-order", e.func.qualname, "%s %s on row-ordered data%s" % (kind, what, cell_label), reason is not None,
                       reason or "the result then depends on the order of the rows inside the batch", e)
    return n


def run(ctx):
    ctx.trusted.append("row-order facet of sa/libtable.py (%s)" % L.VERSIONS)
    ctx.explanation = (
        "row-order taint on the value-numbered update / set_reference of HDDDM, CDBD, KdqTreeBatch, NNDVI and on the partitioner "
        "functions: row-ordered values (the batch, stored reference batches and everything derived equivariantly) may flow into "
        "permutation-invariant reducers but not into positional operations (row subscripts and slices, array_split, sample, "
        "head/tail, choice/permutation over rows, iteration over rows); admitted sites are tabled with a reason")
    ctx.assumptions += ["library table: which operations are permutation-invariant / equivariant (" + L.VERSIONS + ")",
                        "np.unique(axis=0) returns the sorted set of rows (order-free); k-NN on that set is order-free"]
    total = 0
    for cname in ("HDDDM", "CDBD"):
        for db in (2, 3):
            for ds in (None, "drift"):
                for meth in ("update", "set_reference"):
                    tr = ctx.trace(cname, meth, assume={"_drift_state": ds, "detect_batch": db}, nonnull=("X",))
                    total += scan(ctx, "%s.%s" % (cname, meth), tr, Order({"X"}), " [detect_batch=%d]" % db)
    for cname in ("KdqTreeBatch", "NNDVI"):
        for ds in (None, "drift"):
            for meth in ("update", "set_reference"):
                tr = ctx.trace(cname, meth, assume={"_drift_state": ds}, nonnull=("X",))
                total += scan(ctx, "%s.%s" % (cname, meth), tr, Order({"X"}))
    # partitioners: every function that receives batch rows
    for cls, fn, srcs in (("KDQTreeNode", "build", {"data"}), ("KDQTreeNode", "fill", {"data"}), ("KDQTreePartitioner", "build", {"data"}),
                          ("KDQTreePartitioner", "fill", {"data"}), ("NNSpacePartitioner", "build", {"sample1", "sample2"})):
        tr = Evaluator(ctx.prog, ctx.prog.cls(cls), max_reentry=1).run(ctx.prog.method(cls, fn))
        ctx._traces[("c18", cls, fn)] = tr
        total += scan(ctx, "%s.%s" % (cls, fn), tr, Order(srcs, attrs=()))
        order_sensitive_inputs(ctx, cls, fn, tr, Order(srcs, attrs=()))
    ctx.ob("TNT-order", "batch detectors", "positional operations on row-ordered data: %d site(s), all tabled" % total, True, "", nontrivial=False)
    # histogramming and leaf counting are the only consumers of the rows
    hdm_consumers(ctx)


def order_sensitive_inputs(ctx, cls, fn, tr, order):
    """Library routines whose result depends on the order of their input rows must be fed order-free values."""
    for e in tr.calls():
        name = e.callee[1] if e.callee[0] in ("lib", "mcall") else None
        if name in ("kneighbors_graph", "fit") and e.callee[0] == "mcall" and "NearestNeighbors" in T.pretty(e.recv):
            ok = not any(order.ordered(x) for x in e.args)
            ctx.ob("TNT-order", "%s.%s" % (cls, fn), "the k-NN structure is computed on an order-free set of points", ok,
                   "argument %s depends on the order of the rows (use the sorted unique set)" % (q.short(e.args[0], 80) if e.args else ""), e)
        if e.callee == ("lib", "numpy.unique") and any(order.ordered(x) for x in e.args):
            ok = True  # invariant reducer (sorted unique); its inverse index is row-aligned by construction
            ctx.ob("TNT-order", "%s.%s" % (cls, fn), "rows are pooled through np.unique (sorted, order-free)", ok, "", e, nontrivial=True)


def hdm_consumers(ctx):
    tr = ctx.trace("HDDDM", "_build_histograms")
    # what the returned list holds per feature (loop or comprehension): it must come out of np.histogram
    hv = q.seq_view(tr, tr.retval) if tr.retval is not None else None
    src = hv[0] if hv is not None else tr.retval
    hs = {a for a in T.walk(src) if a[0] == "call" and a[1] == "numpy.histogram"} if src is not None else set()
    if ctx.anchor("HistogramDensityMethod._build_histograms", "the histograms are a list built once per feature", hv is not None or bool(hs), ""):
        ctx.ob("TNT-order", "HistogramDensityMethod._build_histograms", "batch rows are consumed by np.histogram (order-free)", len(hs) == 1, "")
