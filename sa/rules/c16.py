"""C16 - only agreement between label and prediction matters; unused arguments are dead."""
from .. import terms as T
from ..terms import const, atom
from .. import q
from ..q import A, P, guards
from ..loader import AnalysisError
from .c01 import NONNULL

ERROR_BASED = ["DDM", "EDDM", "STEPD", "ADWINAccuracy"]
UNUSED = {
    "DDM": ("X",), "EDDM": ("X",), "STEPD": ("X",), "LinearFourRates": ("X",), "ADWINAccuracy": ("X",),
    "ADWIN": ("y_true", "y_pred"), "CUSUM": ("y_true", "y_pred"), "PageHinkley": ("y_true", "y_pred"),
    "KdqTreeStreaming": ("y_true", "y_pred"), "KdqTreeBatch": ("y_true", "y_pred"), "HDDDM": ("y_true", "y_pred"),
    "CDBD": ("y_true", "y_pred"), "NNDVI": ("y_true", "y_pred"), "PCACD": ("y_true", "y_pred"), "MD3": ("y_true", "y_pred"),
}
LABELS = ("y_true", "y_pred")


def run(ctx):
    ctx.explanation = (
        "non-interference by term inspection: in DDM, EDDM, STEPD and ADWINAccuracy every occurrence of a label in any value, "
        "condition or argument of the value-numbered update() lies inside the single equality test between the two extracted labels "
        "(or inside validation, which only looks at shapes and keeps the two labels apart); LinearFourRates uses the labels only as "
        "coerced 0/1 indices of the confusion matrix and in the equality; arguments documented as unused occur nowhere")
    ctx.assumptions += ["== on two validated one-element values means 'same label' for the encodings in scope"]
    validation_separates(ctx)
    for cname in ERROR_BASED:
        labels_only_through_equality(ctx, cname)
    lfr(ctx)
    for cname, ps in UNUSED.items():
        for meth in ("update", "set_reference"):
            fi = ctx.prog.lookup(ctx.prog.cls(cname), meth)
            if fi is None or fi.cls.name in q.BASES:
                continue
            unused(ctx, cname, meth, [p for p in ps if p in fi.params()])


def event_terms(e):
    ts = []
    if e.kind == "call":
        ts += list(e.args) + [v for _k, v in e.kwargs]
        if "recv" in e.d:
            ts.append(e.recv)
    elif e.kind in ("store", "mutate", "localmut", "return", "coerce"):
        ts.append(e.value)
        for p in e.d.get("path", ()) or ():
            if isinstance(p[1], T.R):
                ts.append(p[1])
    elif e.kind == "test":
        ts.append(e.cond)
    return [t for t in ts if isinstance(t, T.R)]


def validation_separates(ctx):
    for base in ("StreamingDetector", "BatchDetector"):
        tr = ctx.trace(base, "_validate_input")
        a = tr.retval.single_atom() if tr.retval is not None else None
        ok = a is not None and a[0] == "tuple" and len(a[1]) == 3
        if ok:
            for i, own in ((0, "X"), (1, "y_true"), (2, "y_pred")):
                ps = {x[1] for x in T.atoms_of(a[1][i], "param")}
                ok = ok and ps <= {own}
        ctx.ob("TNT-label", base + "._validate_input", "each validated value depends on its own argument only", ok,
               "validation must not mix the label with the prediction (or either with X): %s" % (q.short(tr.retval, 200) if tr.retval is not None else None))
        ty = ctx.trace(base, "_validate_y")
        bad = []
        for e in ty.events:
            if e.kind in ("test",):
                # conditions may look at shapes only
                for x in T.atoms_of(e.cond, "param"):
                    if not _only_through_shape(e.cond, ("param", "y")):
                        bad.append(q.short(e.cond, 80))
        ctx.ob("TNT-label", base + "._validate_y", "validation decisions look at the shape of the label only", not bad, "; ".join(bad[:2]))


def _only_through_shape(t, patom):
    """Every occurrence of patom in t is below a `.shape` attribute (or len())."""
    def strip(a):
        if a[0] == "getattr" and a[2] in ("shape", "ndim", "size"):
            return atom(("sym", "shape"))
        if a[0] == "call" and a[1] in ("len", "numpy.shape", "numpy.ndim"):
            return atom(("sym", "shape"))
        return None
    t2 = T.subst(t, strip)
    return not T.mentions(t2, lambda a: a == patom)


def extracted_labels(ctx, tr, site):
    """Terms of the two extracted scalar labels: <validated y>[0]."""
    vals = {}
    for e in tr.events:
        if e.kind == "return" and e.func.name == "_validate_input":
            a = e.value.single_atom()
            if a is not None and a[0] == "tuple" and len(a[1]) == 3:
                vals = {"y_true": a[1][1], "y_pred": a[1][2]}
                break
    if len(vals) != 2:
        raise AnalysisError("%s: labels are not validated through _validate_input (anchor vanished)" % site)
    return {k: q.sub(v, 0) for k, v in vals.items()}, vals


def agree_atoms(tr, ext):
    """cmp atoms that are exactly ext(y_pred) ==/!= ext(y_true)."""
    out = set()
    d = ext["y_pred"] - ext["y_true"]
    for e in tr.events:
        for t in event_terms(e):
            for a in T.atoms_of(t, "cmp"):
                if a[1] in ("==", "!=") and (T.same(a[2], d) or T.same(a[2], -d)):
                    out.add(a)
    return out


def labels_only_through_equality(ctx, cname):
    site = cname + ".update"
    tr = ctx.trace(cname, "update", assume={"_drift_state": None}, nonnull=NONNULL[cname])
    ext, vals = extracted_labels(ctx, tr, site)
    agree = agree_atoms(tr, ext)
    ctx.ob("ROLE", site, "the labels are compared for equality", len(agree) >= 1, "no equality test between the two extracted labels found")
    sym = atom(("sym", "agree"))
    n = 0
    seen = set()
    for e in tr.events:
        if e.func is None or e.func.name.startswith("_validate"):
            continue
        if e.kind == "call":
            fi = e.d.get("fi")
            if fi is not None and e.callee[0] in ("super", "self", "explicit"):
                continue  # forwarded: the callee's own events are inspected
            if e.callee == ("lib", "int") and e.args and e.args[0].single_atom() in agree:
                continue
        for t in event_terms(e):
            t2 = T.subst(t, lambda a: sym if a in agree else None)
            left = {x[1] for x in T.atoms_of(t2, "param") if x[1] in LABELS}
            if e.kind == "local" and e.func.qualname == site and e.name in LABELS:
                # y_true, y_pred = y_true[0], y_pred[0]: the extraction itself
                if t in ext.values() or t in vals.values():
                    continue
            if not left:
                continue
            k = (e.func.qualname, e.line, tuple(sorted(left)))
            if k in seen:
                continue
            seen.add(k)
            n += 1
            from .c14 import _norm_src
            ctx.ob("TNT-label", e.func.qualname, "%s used other than through `y_pred == y_true` in %s" % ("/".join(sorted(left)), _norm_src(e)), False,
                   "the detector's outputs must depend on the labels only through their agreement (re-encoding the labels must change nothing)", e)
    ctx.ob("TNT-label", site, "labels reach arithmetic and state only through the agreement indicator", n == 0, "", nontrivial=True)


def lfr(ctx):
    site = "LinearFourRates.update"
    tr = ctx.trace("LinearFourRates", "update", assume={"_drift_state": None, "parallelize": False}, nonnull=NONNULL["LinearFourRates"])
    ext, vals = extracted_labels(ctx, tr, site)
    agree = agree_atoms(tr, ext)
    ctx.ob("ROLE", site, "the labels are compared for equality", len(agree) >= 1, "")
    coerced = {T.akey(e.value) for e in tr.of("coerce")} | {T.akey(e.result) for e in tr.calls() if e.callee == ("lib", "int")}
    mu = [e for e in tr.mutations("_confusion")]
    ctx.anchor(site, "confusion matrix incremented", len(mu) == 1, "")
    allowed_idx = set()
    for e in mu:
        idx = [p[1] for p in e.path if p[0] == "item"]
        if len(idx) == 1 and (idx[0].single_atom() or ("",))[0] == "tuple":
            idx = list(idx[0].single_atom()[1])   # confusion[y_p, y_t]: the cell named by one index pair
        ok = len(idx) == 2 and all(T.akey(i) in coerced for i in idx) and {T.akey(i) for i in idx} == {T.akey(ext["y_true"]), T.akey(ext["y_pred"])}
        ctx.ob("TNT-label", site, "labels index the confusion matrix as coerced 0/1 integers (1 * y)", ok,
               "a boolean label used directly as an index selects by mask instead of by position: coerce with 1 * y / int(y)", e)
        allowed_idx |= {i.single_atom() for i in idx}
    sym = atom(("sym", "agree"))
    seen = set()
    n = 0
    for e in tr.events:
        if e.func is None or e.func.name.startswith("_validate"):
            continue
        if e.kind == "call" and e.d.get("fi") is not None and e.callee[0] in ("super", "self", "explicit", "closure", "static"):
            continue
        if e.kind == "coerce":
            continue
        for t in event_terms(e):
            def f(a):
                if a in agree:
                    return sym
                # the confusion matrix after the increment, and everything read from it
                if a[0] in ("mutated", "setitem") and a[1] == A("_confusion"):
                    return atom(("sym", "confusion"))
                return None
            t2 = T.subst(t, f)
            if e.kind == "mutate" and e.attr == "_confusion":
                continue
            if e.kind == "local" and e.func.qualname == site and e.name in LABELS + ("y_p", "y_t"):
                continue
            left = {x[1] for x in T.atoms_of(t2, "param") if x[1] in LABELS}
            if not left:
                continue
            k = (e.func.qualname, e.line)
            if k in seen:
                continue
            seen.add(k)
            n += 1
            from .c14 import _norm_src
            ctx.ob("TNT-label", e.func.qualname, "%s used other than as confusion-matrix index or in the equality, in %s" % ("/".join(sorted(left)), _norm_src(e)), False, "", e)
    ctx.ob("TNT-label", site, "labels reach the statistics only through the confusion-matrix cell and the equality", n == 0, "")


def unused(ctx, cname, meth, params):
    if not params:
        return
    site = "%s.%s" % (cname, meth)
    cell = {"_drift_state": None}
    if cname == "MD3":
        cell["waiting_for_oracle"] = False
    tr = ctx.trace(cname, meth, assume=cell, nonnull=NONNULL.get(cname, ()))
    for p in params:
        bad = []
        for e in tr.events:
            if e.kind == "call" and e.d.get("fi") is not None and e.callee[0] in ("super", "self", "explicit", "static", "closure"):
                continue  # forwarded to repository code whose own events are inspected
            for t in event_terms(e):
                if T.mentions(t, lambda a: a == ("param", p)):
                    bad.append(e)
                    break
            if any(T.mentions(g.cond, lambda a: a == ("param", p)) for g in e.pc):
                bad.append(e)
        from .c14 import _norm_src
        ctx.ob("TNT-unused", site, "argument %s (documented as not used) influences nothing" % p, not bad,
               "used in %s" % (_norm_src(bad[0]) if bad else ""), bad[0] if bad else None)
