"""C11 - PCA-CD."""
from .. import terms as T
from ..terms import const, atom
from .. import q
from ..q import A, P, S, guards
from ..evalr import Evaluator
from . import c01

PC = "PCACD"
U = "PCACD.update"


def cells():
    out = []
    for metric in ("kl", "intersection"):
        for sc in (True, False):
            out.append({"divergence_metric": metric, "online_scaling": sc})
    return out


def run(ctx):
    ctx.explanation = (
        "definite assignment of every local on both values of online_scaling, per-component storage of the histogram support, "
        "constructor formulas (step, Page-Hinkley threshold, bins, monitor wiring), window filling and rebuild block (former test "
        "window becomes the reference, inverse transform before refit, monitor reset), projection of scaled or raw data, aligned "
        "histogram supports, winsorising, max of the component scores fed to the monitor, intersection divergence, drift pairing")
    ctx.assumptions += ["values of the scores / KDE details are not decided", "step > 0 (window_size >= 10 with the default sample period) is a runtime quantity, not decided"]
    init(ctx)
    for cell in cells():
        scoring(ctx, cell)
    rebuild(ctx)
    divergences(ctx)
    init_table(ctx)
    fit_block(ctx)
    kde(ctx)
    lifecycle(ctx)


def init(ctx):
    tr = ctx.trace(PC, "__init__")
    fin = tr.final.attrs
    w = P("window_size")
    ctx.ob("FRM", PC + ".__init__", "step = min(100, round(sample_period * window_size))",
           fin.get("step") == atom(("call", "min", tuple(sorted((const(100), atom(("call", "round", (P("sample_period") * w,), ()))), key=T.akey)), ())), q.short(fin.get("step"), 80))
    ctx.ob("FRM", PC + ".__init__", "Page-Hinkley threshold = round(1% of the window)", fin.get("ph_threshold") == atom(("call", "round", (const(0.01) * w,), ())), q.short(fin.get("ph_threshold"), 60))
    ctx.ob("FRM", PC + ".__init__", "bins = floor(sqrt(window_size))",
           fin.get("bins") == atom(("call", "int", (atom(("call", "floor", (atom(("call", "sqrt", (w,), ())),), ())),), ())), q.short(fin.get("bins"), 60))
    new = [e for e in tr.calls() if e.callee == ("new", "PageHinkley")]
    kw = q.bind(new[0]) if new else {}
    ok = len(new) == 1 and kw.get("delta") == P("delta") and kw.get("threshold") == fin.get("ph_threshold") and kw.get("burn_in") == const(0)
    ctx.ob("FWD", PC + ".__init__", "monitor = PageHinkley(delta, threshold = 1% of window, burn_in = 0)", ok, "", new[0] if new else None)
    ctx.ob("FWD", PC + ".__init__", "monitor direction is the Page-Hinkley default (positive)", "direction" not in kw and len(new[0].args) == 0 if new else False, "")


def upd(ctx, cell, **extra):
    a = {"_drift_state": None}
    a.update(cell)
    a.update(extra)
    return ctx.trace(PC, "update", assume=a, nonnull=("X",))


def lab(cell):
    return "metric=%s,scaling=%s" % (cell["divergence_metric"], cell["online_scaling"])


def scoring(ctx, cell):
    L = lab(cell)
    tr = upd(ctx, cell, _build_reference_and_test=False)
    # definite assignment
    bad = tr.of("undefread", "maybeundef")
    ctx.ob("DA", U, "every local is assigned before use [%s]" % L, not bad,
           "read of possibly unassigned %s" % ", ".join(sorted({e.name for e in bad})), bad[0] if bad else None)
    xv = q.validated(tr, 0)
    scaler = A("_reference_scaler")
    if cell["online_scaling"]:
        want_obs = atom(("call", "pandas.DataFrame", (atom(("mcall", scaler, "transform", (xv,), ())),), ()))
    else:
        want_obs = atom(("call", "pandas.DataFrame", (xv,), ()))
    def appended_to(attr):
        """(store event, element appended) of `self.attr = pd.concat([self.attr.iloc[1:, :], <element>])`"""
        for e_ in tr.stores(attr):
            a_ = e_.value.single_atom()
            if a_ is not None and a_[0] == "call" and a_[1] == "pandas.concat" and a_[2]:
                lst = a_[2][0].single_atom()
                if lst is not None and lst[0] == "list" and len(lst[1]) == 2 and _drop_first(lst[1][0], A(attr)):
                    return e_, lst[1][1]
        return None, None

    tw_ev, obs = appended_to("_test_window")
    ctx.ob("FRM", U, "test window slides by one (oldest row dropped, new observation appended) [%s]" % L, tw_ev is not None, "", tw_ev)
    ctx.ob("FRM", U, "new observation is %s [%s]" % ("scaled with the reference scaler" if cell["online_scaling"] else "the raw data", L),
           obs is not None and obs == want_obs, q.short(obs, 100) if obs is not None else "", tw_ev)
    tp_ev, proj = appended_to("_test_pca_projection")
    proj_name = None
    if proj is not None:
        pa_ = proj.single_atom()
        if pa_ is not None and pa_[0] == "loopvar" and pa_[1] in tr.loops and pa_[2].startswith("$"):
            # clipped in a per-component loop: the value before the loop is the projection itself
            proj_name = pa_[2][1:]
            proj = tr.loops[pa_[1]]["pre"].locs.get(proj_name)
    proj0 = q.unmut(proj) if proj is not None else None
    okp = False
    shaped = False
    if proj0 is not None and obs is not None:
        a = proj0.single_atom()
        if a is not None and a[0] == "call" and a[1] == "pandas.DataFrame":
            t = a[2][0].single_atom() if a[2] else None
            shaped = t is not None and t[0] == "mcall"
            okp = t is not None and t[0] == "mcall" and t[2] == "transform" and t[1] == A("_pca") and T.mentions(t[3][0], lambda z: z == obs.single_atom())
    # the row appended is DataFrame(<projection call>), possibly clipped afterwards; any other way of building the row is not followed
    if ctx.anchor(U, "the appended score row is a frame built from one projection call [%s]" % L, shaped or proj0 is None or obs is None, q.short(proj0, 120) if proj0 is not None else "", tp_ev):
        ctx.ob("FRM", U, "new observation projected on the reference components and appended to the test scores [%s]" % L, okp, "", tp_ev)

    class _NP:
        value = proj0
        name = proj_name
    np_ = _NP() if proj0 is not None else None
    # scheduled scoring
    mon = [e for e in tr.calls() if e.callee[0] == "foreign" and e.callee[1] == "PageHinkley" and e.callee[2] == "update"]
    ctx.ob("ROLE", U, "monitor updated [%s]" % L, len(mon) == 1, "")
    if not mon:
        return
    score = dict(mon[0].kwargs).get("X", mon[0].args[0] if mon[0].args else None)
    sa = score.single_atom() if score is not None else None
    seq = sa[2][0].single_atom() if sa is not None and sa[0] == "call" and sa[1] == "max" and len(sa[2]) == 1 else None
    # the per-component scores: a list filled in a loop, or a comprehension
    ok = seq is not None and (seq[0] == "loopvar" or (seq[0] == "comp" and seq[1] in ("list", "gen") and len(seq[2]) == 1 and not seq[4]))
    ctx.ob("FRM", U, "the maximum of the per-component scores is fed to the Page-Hinkley monitor [%s]" % L, ok, q.short(score, 80) if score is not None else "", mon[0])
    tot = A("_total_samples") + const(1)
    sched = [S("m == 0", {"m": atom(("mod", tot - const(1), A("step")))}), S("t != 0", {"t": tot - const(1)})]
    ctx.ob("GRD", U, "scored every `step` samples [%s]" % L, not q.guard_set_implies(mon[0], sched), "", mon[0])
    want_fn = "_jensen_shannon_distance" if cell["divergence_metric"] == "kl" else "_intersection_divergence"
    dv = [e for e in tr.calls() if e.d.get("fi") is not None and e.fi.qualname == PC + "." + want_fn and q.stack_has(e, U)]
    other = [e for e in tr.calls() if e.d.get("fi") is not None and e.fi.name in ("_jensen_shannon_distance", "_intersection_divergence") and e.fi.name != want_fn and q.stack_has(e, U)]
    ok = len(dv) == 1 and not other
    if ok:
        a0, a1 = q.unmut(dv[0].args[0]).single_atom(), q.unmut(dv[0].args[1]).single_atom()
        ok = a0 is not None and a1 is not None and a0[0] == "sub" and a1[0] == "sub" and a0[2] == a1[2] and \
            _rooted_in(a0[1], "_density_reference") and _is_fresh_dict_rooted(a1[1], tr)
        if seq is not None and seq[0] == "comp":
            ok = ok and len(seq[2]) == 1 and seq[2][0] == q.call_value(tr, dv[0])
        else:
            sname = seq[2][1:] if seq is not None and seq[0] == "loopvar" else None
            ap = [e for e in tr.of("localmut") if e.name == sname and e.name is not None and e.how == "method:append" and e.pc == dv[0].pc]
            ok = ok and len(ap) == 1
    ctx.ob("FRM", U, "per-component score = %s(reference density, test density) of the same component [%s]" % (want_fn, L), ok, "", dv[0] if dv else None)
    # drift pairing
    ds = [e for e in tr.stores("_drift_state") if e.value == const("drift")]
    ctx.ob("ROLE", U, "drift store [%s]" % L, len(ds) == 1, "")
    for e in ds:
        site = c01._site_pc_ev(tr, e)
        ok = any(q.is_cmp(g) is not None and q.is_cmp(g)[1] == "!=" and T.mentions(g, lambda z: z[0] == "getattr" and z[2] in ("drift_state", "_drift_state")) and T.mentions(g, lambda z: z == ("const", None)) for g in guards(site))
        ctx.ob("GRD", U, "drift exactly when the monitor alarms [%s]" % L, ok and mon[0].seq < site.seq, "", site)
    if cell["divergence_metric"] == "intersection":
        intersection(ctx, cell, tr, np_)


def _drop_first(t, base):
    a = t.single_atom()
    if a is None or a[0] != "sub":
        return False
    b = a[1].single_atom()
    if b is None or b[0] != "getattr" or b[2] != "iloc" or b[1] != base:
        return False
    i = a[2].single_atom()
    if i is None:
        return False
    if i[0] == "tuple":
        i = i[1][0].single_atom()
    return i is not None and i[0] == "slice" and i[1] == const(1) and i[2] == T.NONE


def _rooted_in(t, attr):
    from .c02 import _root_attr
    return _root_attr(t) == attr


def _is_fresh_dict_rooted(t, tr):
    a = t.single_atom()
    return a is not None and a[0] in ("loopvar", "setitem", "mutated", "dict")


def intersection(ctx, cell, tr, np_):
    L = lab(cell)
    # histograms of the test scores use the stored per-component support
    bh = [e for e in tr.calls() if e.d.get("fi") is not None and e.fi.name == "_build_histograms" and q.stack_has(e, U)]
    ctx.anchor(U, "test histograms built [%s]" % L, len(bh) == 1, "")
    for e in bh:
        kw = dict(e.kwargs)
        rng = kw.get("bin_range")
        ra = rng.single_atom() if rng is not None else None
        ci = _col_index(e.args[0]) if e.args else None
        ok = ra is not None and ra[0] == "tuple" and ci is not None and ra[1][0] == q.sub(A("lower"), ci) and ra[1][1] == q.sub(A("upper"), ci) and kw.get("bins") == A("bins")
        ctx.ob("AGREE-support", U, "test histogram of component i uses the support (lower[i], upper[i]) stored for component i and self.bins [%s]" % L, ok,
               "bin_range=%s" % (q.short(rng, 100) if rng is not None else None), e)
    # winsorising of the new projection
    wm = [e for e in tr.of("localmut") if np_ is not None and e.name == np_.name and e.name is not None and e.how == "setitem"]
    ok = len(wm) == 2
    if ok:
        for e in wm:
            cell_ = q.sub(atom(("getattr", np_.value, "iloc")), e.path[-1][1]) if np_ is not None else None
            ii = e.path[-1][1].single_atom()
            comp = ii[1][1] if ii is not None and ii[0] == "tuple" and len(ii[1]) == 2 else None
            isl = e.value == q.sub(A("lower"), comp) if comp is not None else False
            isu = e.value == q.sub(A("upper"), comp) if comp is not None else False
            gs = guards(e)
            if isl:
                ok = ok and any(q.is_cmp(g) and T.mentions(g, lambda z: z == ("attr", "lower")) for g in gs)
            elif isu:
                ok = ok and any(q.is_cmp(g) and T.mentions(g, lambda z: z == ("attr", "upper")) for g in gs)
            else:
                ok = False
    ctx.ob("FRM", U, "new scores are winsorised to the stored support of their component [%s]" % L, ok,
           "out-of-range scores must be clamped onto (lower[i], upper[i]) so that they stay inside the shared bin edges", wm[0] if wm else None)


def _col_index(t):
    a = t.single_atom()
    if a is not None and a[0] == "sub":
        i = a[2].single_atom()
        if i is not None and i[0] == "tuple" and len(i[1]) == 2:
            return i[1][1]
    return None


def rebuild(ctx):
    """Fill phase and the block that starts a new epoch after a drift."""
    for sc in (True, False):
        cell = {"divergence_metric": "intersection", "online_scaling": sc}
        L = "scaling=%s" % sc
        tr = ctx.trace(PC, "update", assume=dict(cell, _drift_state="drift", _build_reference_and_test=True), nonnull=("X",))
        rw = [e for e in tr.stores("_reference_window")]
        ctx.ob("ROLE", U, "rebuild block stores the reference window [%s]" % L, len(rw) >= 1, "")
        if not rw:
            continue
        first = rw[0]
        ok = first.value == atom(("mcall", A("_test_window"), "copy", (), ()))
        ctx.ob("PAIR", U, "after a drift the former test window becomes the reference window [%s]" % L, ok, q.short(first.value, 100), first)
        if sc:
            inv = [e for e in rw if T.mentions(e.value, lambda z: z[0] == "mcall" and z[2] == "inverse_transform")]
            ok = len(inv) >= 1 and inv[0].value == atom(("call", "pandas.DataFrame", (atom(("mcall", A("_reference_scaler"), "inverse_transform", (first.value,), ())),), ()))
            ctx.ob("PAIR", U, "with scaling, the promoted window is mapped back to raw units before the scaler is refitted [%s]" % L, ok,
                   "the test window holds scaled data; refitting the scaler on it without inverse_transform leaves it in the old z-score space", inv[0] if inv else first)
        else:
            ctx.ob("PAIR", U, "without scaling no inverse transform is applied [%s]" % L, not any(T.mentions(e.value, lambda z: z[0] == "mcall" and z[2] == "inverse_transform") for e in rw), "")
        tw = [e for e in tr.stores("_test_window")]
        ctx.ob("PAIR", U, "the test window is emptied [%s]" % L, bool(tw) and tw[0].value == atom(("call", "pandas.DataFrame", (), ())), "", tw[0] if tw else None)
        mr = [e for e in tr.calls() if e.callee[0] == "foreign" and e.callee[1] == "PageHinkley" and e.callee[2] == "reset"]
        rs = q.find_calls(tr, "PCACD.reset")
        ctx.ob("MC", U, "the detector and its monitor are reset [%s]" % L, len(mr) == 1 and len(rs) == 1, "")
    # fill phase and fit
    for sc in (True, False):
        for metric in ("intersection", "kl"):
            cell = {"divergence_metric": metric, "online_scaling": sc}
            L = lab(cell)
            tr = ctx.trace(PC, "update", assume=dict(cell, _drift_state=None, _build_reference_and_test=True), nonnull=("X",))
            xv = q.validated(tr, 0)
            w = A("window_size")
            rwl = atom(("call", "len", (A("_reference_window"),), ()))
            rw = [e for e in tr.stores("_reference_window") if q.has_guard(e, T.mk_cmp("<", rwl, w))]
            ok = len(rw) == 1 and rw[0].value == atom(("call", "pandas.concat", (atom(("list", (A("_reference_window"), atom(("call", "pandas.DataFrame", (xv,), ()))))),), ()))
            ctx.ob("FRM", U, "reference window filled first, with the raw observations [%s]" % L, ok, "", rw[0] if rw else None)
            tw = [e for e in tr.stores("_test_window") if q.has_guard(e, T.mk_not(T.mk_cmp("<", rwl, w)))]
            twl = atom(("call", "len", (A("_test_window"),), ()))
            ok = len(tw) >= 1 and tw[0].value == atom(("call", "pandas.concat", (atom(("list", (A("_test_window"), atom(("call", "pandas.DataFrame", (xv,), ()))))),), ())) and q.has_guard(tw[0], T.mk_cmp("<", twl, w))
            ctx.ob("FRM", U, "then the test window, up to window_size [%s]" % L, ok, "", tw[0] if tw else None)
            fl = [e for e in tr.stores("_build_reference_and_test") if e.value == T.FALSE]
            ctx.ob("GRD", U, "scoring starts when the test window holds window_size samples [%s]" % L,
                   len(fl) == 1 and any(q.is_cmp(g) and q.is_cmp(g)[1] == "==" and T.mentions(g, lambda z: z == ("attr", "window_size")) for g in guards(fl[0])), "", fl[0] if fl else None)
            pca = [e for e in tr.calls() if e.callee == ("lib", "sklearn.decomposition.PCA")]
            fit = [e for e in tr.calls() if e.callee[0] == "mcall" and e.callee[1] == "fit" and _rooted_pca(e.recv)]
            ok = len(pca) == 1 and pca[0].args == (A("ev_threshold"),) and len(fit) == 1 and _is_window(fit[0].args[0], "_reference_window", sc)
            ctx.ob("FRM", U, "components = PCA(ev_threshold) fitted on the %s reference window [%s]" % ("scaled" if sc else "raw", L), ok, q.short(fit[0].args[0], 100) if fit else "", fit[0] if fit else None)
            if sc:
                ft = [e for e in tr.calls() if e.callee[0] == "mcall" and e.callee[1] == "fit_transform"]
                ctx.ob("FRM", U, "scaler fitted on the reference window [%s]" % L, len(ft) == 1 and _rooted_in(ft[0].recv, "_reference_scaler"), "")
            if metric == "intersection":
                lo = [e for e in tr.mutations("lower") if e.how == "setitem"]
                up = [e for e in tr.mutations("upper") if e.how == "setitem"]
                sclr = [e for e in tr.stores() if e.attr in ("lower", "upper")]
                ok = len(lo) == 1 and len(up) == 1 and not sclr and (lo[0].path[0][1].single_atom() or ("",))[0] == "idx" and lo[0].path == up[0].path
                ctx.ob("PER-COMPONENT", U, "histogram support is stored per component (indexed by the component), not in a scalar overwritten by the loop [%s]" % L, ok,
                       "scalar stores: %s" % [e.attr for e in sclr], (sclr or lo or [None])[0])
                if ok:
                    i = lo[0].path[0][1]
                    def mm(fn, e):
                        a = e.value.single_atom()
                        if a is None or a[0] != "call" or a[1] != fn or len(a[2]) != 2:
                            return False
                        roots = set()
                        for x in a[2]:
                            m = q.reduction_of(x, fn)
                            if m is None or _col_index(m) != i:
                                return False
                            roots.add(_proj_root(m))
                        return roots == {"_reference_pca_projection", "_test_pca_projection"}
                    ctx.ob("AGREE-support", U, "support of component i spans the reference and the test scores of component i [%s]" % L, mm("min", lo[0]) and mm("max", up[0]), "", lo[0])
                    bh = [e for e in tr.calls() if e.d.get("fi") is not None and e.fi.name == "_build_histograms" and q.stack_has(e, U)]
                    okb = len(bh) == 1 and _col_index(bh[0].args[0]) == i
                    if okb:
                        rng = dict(bh[0].kwargs).get("bin_range").single_atom()
                        okb = rng is not None and rng[0] == "tuple" and q.unmut(rng[1][0]) == q.sub(A("lower"), i) or (rng[1][0] == lo[0].value and rng[1][1] == up[0].value)
                    ctx.ob("AGREE-support", U, "reference histogram of component i is built on that support [%s]" % L, okb, "", bh[0] if bh else None)


def _rooted_pca(t):
    a = t.single_atom()
    return a is not None and (a == ("attr", "_pca") or (a[0] == "call" and a[1] == "sklearn.decomposition.PCA") or a[0] == "objstate")


def _is_window(t, attr, scaled):
    if scaled:
        a = t.single_atom()
        return a is not None and a[0] == "call" and a[1] == "pandas.DataFrame" and T.mentions(t, lambda z: z[0] == "mcall" and z[2] == "fit_transform") and T.mentions(t, lambda z: z == ("attr", attr))
    return T.mentions(t, lambda z: z == ("attr", attr)) and not T.mentions(t, lambda z: z[0] == "attr" and z[1] in ("_test_window",)) \
        and not T.mentions(t, lambda z: z[0] == "mcall" and z[2] in ("transform", "fit_transform"))


def _proj_root(t):
    from .c02 import _root_attr
    a = t.single_atom()
    while a is not None and a[0] == "sub":
        t = a[1]
        a = t.single_atom()
    if a is not None and a[0] == "getattr" and a[2] == "iloc":
        t = a[1]
    for nm in ("_reference_pca_projection", "_test_pca_projection"):
        pass
    # the projections are stored just before; identify them by the transform argument
    if T.mentions(t, lambda z: z == ("attr", "_reference_window")) and not T.mentions(t, lambda z: z == ("attr", "_test_window")):
        return "_reference_pca_projection"
    if T.mentions(t, lambda z: z == ("attr", "_test_window")):
        return "_test_pca_projection"
    return _root_attr(t)


def divergences(ctx):
    tr = ctx.trace(PC, "_intersection_divergence")
    r, t = P("density_reference"), P("density_test")
    want = const(1) - atom(("call", "numpy.sum", (atom(("call", "numpy.minimum", tuple(sorted((q.sub(r, const("density")), q.sub(t, const("density"))), key=T.akey)), ())),), ()))
    ctx.ob("FRM", PC + "._intersection_divergence", "1 - sum(min(p, q))", tr.retval is not None and T.same(tr.retval, want), q.short(tr.retval, 120))
    tb = ctx.trace(PC, "_build_histograms")
    d = q.sub(tb.retval, const("density")) if tb.retval is not None else None
    h = atom(("call", "numpy.histogram", (P("sample"),), (("bins", P("bins")), ("density", T.TRUE), ("range", P("bin_range")))))
    h0 = q.sub(h, 0)
    want = atom(("call", "list", (h0 / atom(("call", "numpy.sum", (h0,), ())),), ()))
    ctx.ob("FRM", PC + "._build_histograms", "histogram on the given edges, densities normalised to sum 1", d is not None and d == want, q.short(d, 160) if d is not None else "")
    tj = ctx.trace(PC, "_jensen_shannon_distance")
    want = atom(("call", "scipy.spatial.distance.jensenshannon", (q.sub(P("density_reference"), const("density")), q.sub(P("density_test"), const("density"))), ()))
    ctx.ob("FRM", PC + "._jensen_shannon_distance", "Jensen-Shannon distance of the two density vectors", tj.retval == want, q.short(tj.retval, 120))


# ---------------------------------------------------------------------------
# constructor table, fit-block stores, key agreement, KDE formula, logs, lifecycle, the inner Page-Hinkley test

def _noidx(t):
    """term with every loop index renamed to one symbol (keys built in different loops over the same range)"""
    return T.subst(t, lambda a: atom(("sym", "i")) if a[0] == "idx" else None)


def init_table(ctx):
    empty_df = atom(("call", "pandas.DataFrame", (), ()))
    for sc in (True, False):
        tr = ctx.trace(PC, "__init__", assume=None)
        fin = tr.final.attrs if tr.final is not None else {}
        break
    tab = {"num_pcs": T.NONE, "_build_reference_and_test": T.TRUE, "_reference_window": empty_df, "_test_window": empty_df, "_pca": T.NONE,
           "_reference_pca_projection": empty_df, "_test_pca_projection": empty_df, "_density_reference": atom(("dict", ())), "lower": atom(("dict", ())),
           "upper": atom(("dict", ())), "_change_score": atom(("list", (const(0),)))}
    for k, w in tab.items():
        got = fin.get(k)
        ctx.ob("FRM-init", PC + ".__init__", "%s starts as %s" % (k, q.short(w, 30)), got == w or (w == atom(("dict", ())) and got == atom(("call", "dict", (), ()))),
               q.short(got, 60) if got is not None else "unset")
    sc = fin.get("_reference_scaler")
    ok = False
    if sc is not None:
        leaves = list(q.ite_leaves(sc))
        for c_, l in leaves:
            la = l.single_atom()
            if la is not None and la[0] == "call" and la[1] == "sklearn.preprocessing.StandardScaler":
                on = [T.mk_cmp("==", P("online_scaling"), T.TRUE), T.mk_cmp("==", T.TRUE, P("online_scaling")), P("online_scaling")]
                ok = len(c_) == 1 and any(c_[0] == o for o in on)
    ctx.ob("FRM-init", PC + ".__init__", "a scaler exists exactly when online_scaling is on", ok, q.short(sc, 100) if sc is not None else "unset")


def fit_block(ctx):
    for metric in ("kl", "intersection"):
        for sc in (True, False):
            cell = {"divergence_metric": metric, "online_scaling": sc}
            L = lab(cell)
            tr = ctx.trace(PC, "update", assume=dict(cell, _drift_state=None, _build_reference_and_test=True), nonnull=("X",))
            npc = tr.stores("num_pcs")
            ok = len(npc) == 1
            if ok:
                a = npc[0].value.single_atom()
                ok = a is not None and a[0] == "call" and a[1] == "len" and (a[2][0].single_atom() or ("", "", ""))[0] == "getattr" and a[2][0].single_atom()[2] == "components_" \
                    and _rooted_pca(q.unmut(a[2][0].single_atom()[1]))
            ctx.ob("FRM", U, "number of components = those the fitted PCA kept [%s]" % L, ok, q.short(npc[0].value, 80) if npc else "no store", npc[0] if npc else None)
            for attr, win in (("_reference_pca_projection", "_reference_window"), ("_test_pca_projection", "_test_window")):
                st = [e for e in tr.stores(attr)]
                ok = len(st) == 1
                if ok:
                    a = st[0].value.single_atom()
                    t = a[2][0].single_atom() if a is not None and a[0] == "call" and a[1] == "pandas.DataFrame" and a[2] else None
                    ok = t is not None and t[0] == "mcall" and t[2] == "transform" and _rooted_pca(q.unmut(t[1])) and _win(t[3][0], win, sc)
                ctx.ob("FRM", U, "%s = the %s %s projected on the components [%s]" % (attr, "scaled" if sc else "raw", win, L), ok, "", st[0] if st else None)
            dr = [e for e in tr.mutations("_density_reference") if e.how == "setitem"]
            ok = len(dr) == 1 and len(dr[0].path) == 1
            if ok:
                key = dr[0].path[0][1].single_atom()
                ok = key is not None and key[0] == "fstr" and len(key[1]) == 2 and key[1][0] == const("PC") and (key[1][1] - const(1)).single_atom() is not None and (key[1][1] - const(1)).single_atom()[0] == "idx"
                i = key[1][1] - const(1) if ok else None
                lp = tr.loops.get(i.single_atom()[1]) if ok else None
                it = lp["iter"].single_atom() if lp else None
                ok = ok and it is not None and it[0] == "call" and it[1] == "range" and len(it[2]) == 1 and (it[2][0] == A("num_pcs") or (npc and it[2][0] == npc[0].value))
            ctx.ob("IDX", U, "a reference density is stored for every component i under 'PC<i+1>' [%s]" % L, ok, "", dr[0] if dr else None)
            if metric == "kl" and dr:
                kd = [e for e in tr.calls() if e.d.get("fi") is not None and e.fi.name == "_build_kde" and q.stack_has(e, U)]
                okk = len(kd) == 1 and _proj_root(kd[0].args[0]) == "_reference_pca_projection" and ok and _col_index(kd[0].args[0]) == i
                ctx.ob("FRM", U, "kl: the reference density of component i is the KDE of the reference scores of component i [%s]" % L, okk, "", kd[0] if kd else None)
    # scoring side: test density keys / sources agree with the reference side
    for cell in cells():
        L = lab(cell)
        tr = upd(ctx, cell, _build_reference_and_test=False)
        dt = [e for e in tr.mutations("_density_test") if e.how == "setitem"]
        fresh = [e for e in tr.stores("_density_test")]
        ok = len(dt) == 1 and len(fresh) == 1 and fresh[0].value in (atom(("dict", ())), atom(("call", "dict", (), ()))) and fresh[0].seq < dt[0].seq
        ctx.ob("ORD", U, "the test densities of a scoring step start from an empty table [%s]" % L, ok, "", fresh[0] if fresh else (dt[0] if dt else None))
        want_fn = "_jensen_shannon_distance" if cell["divergence_metric"] == "kl" else "_intersection_divergence"
        dv = [e for e in tr.calls() if e.d.get("fi") is not None and e.fi.qualname == PC + "." + want_fn and q.stack_has(e, U)]
        if dt and dv:
            _noidx = lambda t: q.at_pos(tr, t)  # keys / columns as functions of the component position, however the repetition is written
            k_store = _noidx(dt[0].path[0][1])
            a1 = q.unmut(dv[0].args[1]).single_atom()
            a0 = q.unmut(dv[0].args[0]).single_atom()
            k_read = _noidx(a1[2]) if a1 is not None and a1[0] == "sub" else None
            kk = k_store.single_atom()
            same_key = k_read is not None and k_store == k_read
            if not same_key and a1 is not None and a1[0] == "sub" and a0 is not None and a0[0] == "sub":
                # for key, density in self._density_test.items(): divergence(self._density_reference[key], density) - every stored
                # test density is paired with the reference density of its own key
                kr = a1[2].single_atom()
                same_key = kr is not None and kr[0] == "iterkey" and _table_root(kr[1]) == "_density_test" and _table_root(a1[1]) == "_density_test" \
                    and a0[2] == a1[2]
            okk = same_key and kk is not None and kk[0] == "fstr" and kk[1][0] == const("PC") and T.same(kk[1][1], q.POS + const(1))
            ctx.ob("AGREE", U, "test densities are stored and read under the same key 'PC<i+1>' as the reference densities [%s]" % L, okk,
                   "stored under %s, read under %s" % (q.short(k_store, 40), q.short(k_read, 40) if k_read is not None else None), dt[0])
            src = dt[0].value
            fn = "_build_kde" if cell["divergence_metric"] == "kl" else "_build_histograms"
            mk = [e for e in tr.calls() if e.d.get("fi") is not None and e.fi.name == fn and q.stack_has(e, U)]
            i = kk[1][1] - const(1) if kk is not None and kk[0] == "fstr" else None
            oks = len(mk) == 1 and T.mentions(mk[0].args[0], lambda z: z == ("attr", "_test_pca_projection")) and not T.mentions(mk[0].args[0], lambda z: z == ("attr", "_reference_pca_projection")) \
                and i is not None and _col_index(mk[0].args[0]) is not None and _noidx(_col_index(mk[0].args[0])) == _noidx(i)
            ctx.ob("FRM", U, "the test density of component i is built by %s from the current test scores of component i [%s]" % (fn, L), oks, "", mk[0] if mk else None)
        # the score fed to the monitor is also logged
        mon = [e for e in tr.calls() if e.callee[0] == "foreign" and e.callee[1] == "PageHinkley" and e.callee[2] == "update"]
        lg = [e for e in tr.mutations("_change_score") if e.how == "method:append"]
        if mon:
            score = dict(mon[0].kwargs).get("X", mon[0].args[0] if mon[0].args else None)
            ctx.ob("PAIR", U, "the score given to the monitor is recorded in the change-score log [%s]" % L,
                   len(lg) == 1 and lg[0].value == atom(("tuple", (score,))) and set(map(id, lg[0].pc)) == set(map(id, mon[0].pc)), "", lg[0] if lg else mon[0])
            ctx.ob("FWD", U, "the monitor used is the detector's own Page-Hinkley instance [%s]" % L, q.unmut(mon[0].recv) == A("_drift_detection_monitor"), q.short(mon[0].recv, 60), mon[0])
        if cell["divergence_metric"] == "intersection":
            winsor_exact(ctx, cell, tr)


def winsor_exact(ctx, cell, tr):
    L = lab(cell)
    wm = [e for e in tr.of("localmut") if e.how == "setitem" and q.stack_has(e, U) and len(e.path) >= 1 and
          (e.value.single_atom() or ("",))[0] == "sub" and _rooted_in(e.value.single_atom()[1], "lower") | _rooted_in(e.value.single_atom()[1], "upper")]
    for e in wm:
        comp = e.value.single_atom()[2]
        bound = "lower" if _rooted_in(e.value.single_atom()[1], "lower") else "upper"
        own = q.guards_in(e, U)
        cmps = [g for g in own if q.is_cmp(g) is not None and T.mentions(g, lambda z: z == ("attr", bound))]
        ok = False
        for g in cmps:
            c = q.is_cmp(g)
            b = q.sub(A(bound), comp)
            # lower: cell < lower  is  (cell - lower < 0)  or  (lower - cell > 0) ; upper: cell > upper  is  (cell - upper > 0)  or  (upper - cell < 0)
            strict_same, strict_flip = ("<", ">") if bound == "lower" else (">", "<")
            for op, cell_t in ((strict_same, c[2] + b), (strict_flip, b - c[2])):
                if c[1] == op and not T.mentions(cell_t, lambda z: z == ("attr", bound)) and T.mentions(cell_t, lambda z: z[0] == "getattr" and z[2] == "iloc"):
                    ok = True
        ctx.ob("GRD", U, "a score is clamped to %s[i] exactly when it lies %s it [%s]" % (bound, "below" if bound == "lower" else "above", L), ok,
               "guards: %s" % "; ".join(q.short(g, 70) for g in own[-3:]), e)
    ctx.floor("winsorising stores [%s]" % L, len(wm), 2)


def _win(t, attr, scaled):
    """t is the (scaled / raw) window `attr` as it stands when the components are fitted"""
    other = "_test_window" if attr == "_reference_window" else "_reference_window"
    if not T.mentions(t, lambda z: z == ("attr", attr)):
        return False
    tf = [z for z in T.walk(t) if z[0] == "mcall" and z[2] in ("transform", "fit_transform") and _rooted_in(q.unmut(z[1]), "_reference_scaler")]
    if not scaled:
        return not tf and not (attr == "_reference_window" and T.mentions(t, lambda z: z == ("attr", other)))
    want = "fit_transform" if attr == "_reference_window" else "transform"
    return bool(tf) and all(z[2] == want or attr == "_test_window" for z in tf) and any(z[2] == want for z in tf)


def kde(ctx):
    tr = ctx.trace(PC, "_build_kde")
    s = P("sample")
    col = atom(("mcall", atom(("getattr", s, "values")), "reshape", (const(-1), const(1)), ()))
    bw = const(1.06) * atom(("call", "numpy.std", (s,), (("ddof", const(1)),))) * atom(("pow", atom(("call", "len", (s,), ())), const(-1) / const(5)))
    ret = tr.retval
    obj = q.sub(ret, const("object")) if ret is not None else None
    den = q.sub(ret, const("density")) if ret is not None else None
    oa = obj.single_atom() if obj is not None else None
    ok = oa is not None and oa[0] == "mcall" and oa[2] == "fit" and oa[3] == (col,)
    if ok:
        k = oa[1].single_atom()
        kw = dict(k[3]) if k is not None and k[0] == "call" and k[1] == "sklearn.neighbors.KernelDensity" else {}
        ok = kw.get("kernel") == const("epanechnikov") and kw.get("bandwidth") is not None and T.same(kw["bandwidth"], bw)
    ctx.ob("FRM", PC + "._build_kde", "Epanechnikov KDE with bandwidth 1.06 * sd(sample, ddof=1) * n^(-1/5), fitted on the sample", ok, q.short(obj, 200) if obj is not None else "")
    da = den.single_atom() if den is not None else None
    okd = da is not None and da[0] == "call" and da[1] in ("exp", "numpy.exp") and da[2][0] == atom(("mcall", obj, "score_samples", (col,), ()))
    ctx.ob("FRM", PC + "._build_kde", "density = exp(log-density of the fitted estimate at the sample points)", okd, q.short(den, 200) if den is not None else "")


def lifecycle(ctx):
    from . import common, c04
    common.lifecycle(ctx, ["PCACD", "PageHinkley"])
    common.init_table(ctx, "PageHinkley", {"_max": 0, "_min": 0, "_sum": 0, "_mean": 0})
    c04.page_hinkley(ctx)


def _table_root(t):
    """the attribute a (possibly filled / loop-carried) table term is the value of"""
    a = q.unmut(t).single_atom() if t is not None else None
    while a is not None and a[0] in ("setitem", "mutated", "appended"):
        a = a[1].single_atom()
    if a is not None and a[0] == "loopvar" and isinstance(a[2], str):
        return a[2]
    if a is not None and a[0] == "attr":
        return a[1]
    return None
