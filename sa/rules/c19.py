"""C19 - MD3 warn / ask-the-oracle / confirm protocol."""
from .. import terms as T
from ..terms import const, atom
from .. import q
from ..evalr import virtual as evalr_virtual
from ..q import A, P, S, guards
from ..evalr import Evaluator
from . import c01

U = "MD3.update"
G = "MD3.give_oracle_label"
RD = A("reference_distribution")


def rd(key):
    return q.sub(RD, const(key))


def written(ev, cell=None):
    cell = cell or {}
    out = []
    for k, v in ev.attrs.items():
        if k.startswith("__"):
            continue
        init = const(cell[k]) if k in cell else A(k)
        if v != init:
            out.append(k)
    return sorted(out)


def run(ctx):
    ctx.explanation = (
        "typestate of the two-state protocol (waiting_for_oracle) extracted by evaluating update / give_oracle_label per state; refusal "
        "guards precede every write; pairing of the warning store with entering the waiting state and of the confirmation block with "
        "leaving it; formula conformance of the forgetting factor, the margin-density recurrence, the warning and drift tests and the "
        "reference statistics; set_reference and reset restart the margin density")
    ctx.assumptions += ["k-fold statistics (fold assignment, classifier fitting) are library behaviour"]
    update(ctx)
    oracle(ctx)
    reference(ctx)
    extras(ctx)


def update(ctx):
    # state: waiting
    tw = ctx.trace("MD3", "update", assume={"waiting_for_oracle": True})
    rs = [e for e in tw.raises()]
    ctx.ob("TAB-protocol", U, "while waiting for labels, update is refused", tw.final is None and len(rs) >= 1 and rs[0].exc == "ValueError",
           "normal exit exists" if tw.final is not None else "")
    for e in rs[:1]:
        ctx.ob("EXC-commit", U, "the refusal (waiting) changes nothing", not written(e, {"waiting_for_oracle": True}), "writes before the refusal: %s" % written(e, {"waiting_for_oracle": True}), e)
    # state: not waiting
    for ds in (None, "drift"):
        tr = ctx.trace("MD3", "update", assume={"waiting_for_oracle": False, "_drift_state": ds}, nonnull=("X",))
        one = [e for e in tr.raises() if any(q.is_cmp(g) and q.is_cmp(g)[1] == "!=" and T.mentions(g, lambda a: a == ("call", "len", (P("X"),), ())) for g in guards(e))]
        ctx.ob("TAB-protocol", U, "input that is not exactly one row is refused (previous state %r)" % ds, len(one) == 1 and one[0].exc == "ValueError", "", one[0] if one else None)
        for e in one:
            cl = {"waiting_for_oracle": False, "_drift_state": ds}
            ctx.ob("EXC-commit", U, "the refusal (row count) changes nothing (previous state %r)" % ds, not written(e, cl), "writes before the refusal: %s" % written(e, cl), e)
    tr = ctx.trace("MD3", "update", assume={"waiting_for_oracle": False, "_drift_state": None}, nonnull=("X",))
    lam = A("forgetting_factor")
    md = tr.stores("curr_margin_density")
    dyn = [e for e in tr.calls() if e.callee[0] == "dynamic" and e.callee[1] == A("margin_calculation_function")]
    ok = len(dyn) == 1 and len(dyn[0].args) == 3 and dyn[0].args[2] == A("classifier") and T.mentions(dyn[0].args[1], lambda a: a == ("param", "X"))
    ctx.ob("FRM", U, "margin-inclusion signal of this sample under the deployed classifier", ok, "", dyn[0] if dyn else None)
    if dyn and md:
        want = lam * A("curr_margin_density") + (const(1) - lam) * dyn[0].result
        ctx.ob("FRM", U, "md <- lambda * md + (1 - lambda) * signal", len(md) == 1 and T.same(md[0].value, want), q.short(md[0].value, 160), md[0])
        mdv = md[0].value
        wcond = T.mk_cmp(">", T.mk_abs(mdv - rd("md")), A("sensitivity") * rd("md_std"))
        ws = [e for e in tr.stores("_drift_state") if e.value == const("warning")]
        ctx.ob("ROLE", U, "warning store", len(ws) == 1, "")
        for w in ws:
            site = c01._site_pc_ev(tr, w)
            ctx.ob("GRD", U, "warning iff |md - md_ref| > sensitivity * md_std", q.has_guard(site, wcond), "; ".join(q.short(g, 100) for g in guards(site)), site)
            fl = [e for e in tr.stores("waiting_for_oracle") if e.value == T.TRUE]
            ctx.ob("PAIR", U, "entering warning starts waiting for labels (same block)", len(fl) == 1 and fl[0].pc == site.pc, "", site)
        others = [e for e in tr.stores("waiting_for_oracle") if not (ws and e.pc == c01._site_pc_ev(tr, ws[0]).pc)]
        ctx.ob("PAIR", U, "waiting starts nowhere else", not others, "", others[0] if others else None)
    ctx.ob("WR", U, "update never reports drift itself", not [e for e in tr.stores("_drift_state") if e.value == const("drift")], "")


def oracle(ctx):
    # not waiting -> refused
    tn = ctx.trace("MD3", "give_oracle_label", assume={"waiting_for_oracle": False})
    rs = tn.raises()
    ctx.ob("TAB-protocol", G, "a label that was not asked for is refused", tn.final is None and len(rs) >= 1 and rs[0].exc == "ValueError", "")
    for e in rs[:1]:
        ctx.ob("EXC-commit", G, "the refusal (not waiting) changes nothing", not written(e, {"waiting_for_oracle": False}), "writes before the refusal: %s" % written(e, {"waiting_for_oracle": False}), e)
    tr = ctx.trace("MD3", "give_oracle_label", assume={"waiting_for_oracle": True}, nonnull=("labeled_sample",))
    rr = tr.raises()
    kinds = {"rows": 0, "columns": 0}
    for e in rr:
        gs = guards(e)
        if any(T.mentions(g, lambda a: a == ("call", "len", (P("labeled_sample"),), ())) and q.is_cmp(g) and q.is_cmp(g)[1] == "!=" and
               not T.mentions(g, lambda a: a[0] == "getattr" and a[2] == "columns") for g in gs[-1:]):
            kinds["rows"] += 1
        elif any(T.mentions(g, lambda a: a[0] == "getattr" and a[2] == "columns") for g in gs[-1:]):
            kinds["columns"] += 1
        ctx.ob("EXC-commit", G, "a refused label changes nothing (%s)" % ("row count" if kinds["rows"] and not kinds["columns"] else "columns"), not written(e, {"waiting_for_oracle": True}),
               "writes before the refusal: %s" % written(e, {"waiting_for_oracle": True}), e)
        ctx.ob("EXC-type", G, "refusals raise ValueError", e.exc == "ValueError", "", e, nontrivial=False)
    ctx.ob("TAB-protocol", G, "a label with other than one row is refused", kinds["rows"] == 1, "")
    ctx.ob("TAB-protocol", G, "a label whose columns differ from the reference's is refused", kinds["columns"] == 1, "")
    # the column test compares against features + target of the reference
    colr = [e for e in rr if any(T.mentions(g, lambda a: a[0] == "getattr" and a[2] == "columns") for g in guards(e)[-1:])]
    for e in colr:
        g = guards(e)[-1]
        ok = T.mentions(g, lambda a: a == ("attr", "reference_batch_features")) and T.mentions(g, lambda a: a == ("attr", "reference_batch_target")) and \
            T.mentions(g, lambda a: a[0] == "call" and a[1] == "set")
        ctx.ob("GRD", G, "columns are compared (as a set and by count) with the reference's features + target", ok, q.short(g, 200), e)
    # accepted label
    ds0 = [e for e in tr.stores("_drift_state")]
    ctx.ob("FRM", G, "an accepted label first clears the warning", bool(ds0) and ds0[0].value == T.NONE and not [p for p in c01._site_pc_ev(tr, ds0[0]).pc if _is_count_guard(p.cond)], "")
    od = tr.stores("oracle_data")
    # one store per case, or one store of a conditional value: split the latter into its cases
    od2 = []
    for e in od:
        lv = list(q.ite_leaves(e.value))
        if len(lv) > 1:
            od2.extend(evalr_virtual(e, conds, value=l) for conds, l in lv)
        else:
            od2.append(e)
    od = od2
    first = [e for e in od if e.value == P("labeled_sample")]
    more = [e for e in od if (e.value.single_atom() or ("", ""))[:2] == ("call", "pandas.concat")]
    ok = len(first) == 1 and q.has_guard(first[0], T.mk_cmp("==", A("oracle_data"), T.NONE)) and len(more) == 1 and \
        more[0].value.single_atom()[2][0] == atom(("list", (A("oracle_data"), P("labeled_sample"))))
    ctx.ob("FRM", G, "labels are collected in arrival order", ok, "")
    cur = T.mk_ite(T.mk_cmp("==", A("oracle_data"), T.NONE), P("labeled_sample"), more[0].value) if more else None
    full = T.mk_cmp("==", q.len_of(cur), A("oracle_data_length_required")) if cur is not None else None
    clr = [e for e in tr.stores("waiting_for_oracle") if e.value == T.FALSE]
    ctx.ob("ROLE", G, "waiting ends", len(clr) == 1, "")
    if clr and full is not None:
        blk = clr[0].pc
        ctx.ob("GRD", G, "waiting ends exactly when the required number of labels has arrived (==)", any(p.cond == full for p in blk),
               "guards: %s" % "; ".join(q.short(p.cond, 100) for p in blk), clr[0])
        nul = [e for e in od if e.value == T.NONE]
        sr = q.find_calls(tr, "MD3.set_reference")
        ctx.ob("PAIR", G, "in that block the labelled samples become the new reference and the buffer is emptied",
               len(nul) == 1 and nul[0].pc == blk and len(sr) == 1 and sr[0].pc == blk and sr[0].args and sr[0].args[0] == cur, "", clr[0])
        if sr:
            kw = dict(sr[0].kwargs)
            ctx.ob("FWD", G, "the new reference uses the reference's target column", kw.get("target_name") is not None and T.mentions(kw["target_name"], lambda a: a == ("attr", "reference_batch_target")), "")
            ctx.ob("ORD", G, "the buffer is emptied after it was adopted", bool(nul) and sr[0].seq < nul[0].seq, "")
        dd = [e for e in tr.stores("_drift_state") if e.value == const("drift")]
        ctx.ob("ROLE", G, "drift store", len(dd) == 1, "")
        for d in dd:
            site = c01._site_pc_ev(tr, d)
            acc = [e for e in tr.calls() if e.callee == ("lib", "sklearn.metrics.accuracy_score") and q.within(e, G, ("set_reference",))]
            ok = len(acc) == 1 and q.has_guard(site, T.mk_cmp(">", rd("acc") - acc[0].result, A("sensitivity") * rd("acc_std"))) and site.pc[: len(blk)] == blk
            ctx.ob("GRD", G, "drift iff reference accuracy - accuracy on the labelled samples > sensitivity * acc_std, inside the confirmation block", ok,
                   "; ".join(q.short(g, 100) for g in guards(site)[-2:]), site)
            pr = [e for e in tr.calls() if e.callee[0] == "mcall" and e.callee[1] == "predict" and q.within(e, G, ("set_reference",))]
            ok = len(pr) == 1 and pr[0].recv == A("classifier") and acc and acc[0].args[1] == pr[0].result
            ctx.ob("FRM", G, "accuracy of the deployed classifier on the labelled samples", ok, "")
            if sr:
                ctx.ob("ORD", G, "drift is judged against the old reference statistics (before they are replaced)", site.seq < sr[0].seq, "", site)
    others = [e for e in tr.stores("waiting_for_oracle") if e not in clr]
    ctx.ob("WR", G, "give_oracle_label never starts waiting", not [e for e in others if e.value != T.FALSE], "")


def _is_count_guard(c):
    return T.mentions(c, lambda a: a == ("attr", "oracle_data_length_required"))


def reference(ctx):
    S_ = "MD3.set_reference"
    tr = ctx.trace("MD3", "set_reference", nonnull=("X",))
    cs = q.find_calls(tr, "MD3.calculate_distribution_statistics")
    ctx.anchor(S_, "reference statistics computed", len(cs) == 1, "")
    fin = tr.final.attrs
    rdv = fin.get("reference_distribution")
    if rdv is not None:
        ln = q.sub(rdv, const("len"))
        ff = fin.get("forgetting_factor")
        ctx.ob("FRM", S_, "forgetting factor (N - 1) / N", ff is not None and T.same(ff, (ln - const(1)) / ln), q.short(ff, 80) if ff is not None else "")
        ctx.ob("FRM", S_, "N is the number of rows of the reference batch", ln == atom(("call", "len", (P("X"),), ())), q.short(ln, 60))
        cm = tr.stores("curr_margin_density")
        ok = len(cm) == 1 and cm[0].value == q.sub(rdv, const("md")) and not [p for p in cm[0].pc]
        ctx.ob("MC", S_, "set_reference restarts the margin density from the reference value, unconditionally", ok,
               "guards: %s" % "; ".join(q.short(p.cond, 80) for e in cm for p in e.pc), cm[0] if cm else None)
        ol = [e for e in tr.stores("oracle_data_length_required")]
        ok = len(ol) == 1 and ol[0].value == ln and q.has_guard(ol[0], T.mk_cmp("==", A("oracle_data_length_required"), T.NONE))
        ctx.ob("FRM", S_, "number of labels required defaults to N", ok, "")
        lists = {}
        views = {}
        for key, fn in (("md", "numpy.mean"), ("md_std", "numpy.std"), ("acc", "numpy.mean"), ("acc_std", "numpy.std")):
            v = q.sub(rdv, const(key)).single_atom()
            isfn = v is not None and v[0] == "call" and v[1] == fn and len(v[2]) >= 1
            ok = isfn and (v[2][0].single_atom() or ("", "", ""))[0] == "loopvar"
            if ok:
                lists[key] = v[2][0].single_atom()[2]
            elif isfn:
                # the per-fold values collected another way (a comprehension over the folds, a helper returning both values):
                # the list as "value at fold POS"
                sv = q.seq_view(tr, v[2][0])
                if sv is not None:
                    views[key] = sv
                    ok = True
            # the statistic is taken over a list holding one value per fold
            if ctx.anchor("MD3.calculate_distribution_statistics", "%s is computed from a list filled in the fold loop" % key, ok or not isfn, q.short(q.sub(rdv, const(key)), 100)):
                ctx.ob("FRM", "MD3.calculate_distribution_statistics", "%s = %s over the folds" % (key, fn.split(".")[1]), ok, "")
        if len(views) == 4:
            okv = views["md"] == views["md_std"] and views["acc"] == views["acc_std"] and views["md"][0] != views["acc"][0] and views["md"][1] == views["acc"][1]
            ctx.ob("FRM", "MD3.calculate_distribution_statistics", "mean and deviation of the margin density come from one per-fold list, those of the accuracy from another", okv,
                   "the per-fold values behind md / md_std (or acc / acc_std) differ, or md and acc are taken from the same values")
            ctx.ob("MC", "MD3.calculate_distribution_statistics", "one margin density and one accuracy per fold",
                   T.mentions(views["md"][1], lambda z: (z[0] == "mcall" and z[2] == "split") or (z[0] == "attr" and z[1] == "k")) or views["md"][1] == A("k"), q.short(views["md"][1], 80))
            v = views["md"][0]
            sums = {a for a in T.walk(v) if a[0] == "call" and a[1] == "sum" and len(a[2]) == 1}
            S_list = next(iter(sums))[2][0] if len(sums) == 1 else None
            sview = q.seq_view(tr, S_list) if S_list is not None else None
            va = v.single_atom()
            picked = not (va is not None and va[0] in ("getattr", "sub") and (va[1].single_atom() or ("",))[0] in ("tuple", "new", "call"))
            if ctx.anchor("MD3.calculate_distribution_statistics", "the per-fold record is taken apart into its margin density", picked, q.short(v, 80)):
                okf = sview is not None and T.same(v, atom(("call", "sum", (S_list,), ())) / atom(("call", "len", (S_list,), ())))
                ctx.ob("FRM", "MD3.calculate_distribution_statistics", "margin density of a fold = mean of its samples' signals", okf, q.short(v, 100))
        else:
            ok = len(lists) == 4 and lists["md"] == lists["md_std"] and lists["acc"] == lists["acc_std"] and lists["md"] != lists["acc"]
            ctx.ob("FRM", "MD3.calculate_distribution_statistics", "mean and deviation of the margin density come from one per-fold list, those of the accuracy from another", ok, str(lists))
    kf = [e for e in tr.calls() if e.callee == ("lib", "sklearn.model_selection.KFold")]
    ok = len(kf) == 1 and dict(kf[0].kwargs).get("n_splits") == A("k") and dict(kf[0].kwargs).get("shuffle") == T.TRUE and dict(kf[0].kwargs).get("random_state") is not None and T.is_pure_const(dict(kf[0].kwargs)["random_state"])
    ctx.ob("FRM", "MD3.calculate_distribution_statistics", "k folds with a fixed shuffle seed", ok, "")
    fold_lists = {v[1:] for v in (lists.values() if rdv is not None else [])}
    aps = [e for e in tr.of("localmut") if e.how == "method:append" and e.name in fold_lists]
    if not (rdv is not None and len(views) == 4):
        ctx.ob("MC", "MD3.calculate_distribution_statistics", "one margin density and one accuracy per fold", len(aps) == 2, "")
    for e in aps:
        if rdv is not None and e.name == lists.get("md", "$")[1:]:
            v = e.value.single_atom()[1][0]
            sums = {a for a in T.walk(v) if a[0] == "call" and a[1] == "sum" and len(a[2]) == 1}
            S_list = next(iter(sums))[2][0] if len(sums) == 1 else None
            sview = q.seq_view(tr, S_list) if S_list is not None else None   # one signal per sample of the fold, loop or comprehension
            ok = sview is not None and T.same(v, atom(("call", "sum", (S_list,), ())) / atom(("call", "len", (S_list,), ())))
            ctx.ob("FRM", "MD3.calculate_distribution_statistics", "margin density of a fold = mean of its samples' signals", ok, q.short(v, 100), e)
    tm = ctx.trace("MD3", "calculate_margin_inclusion_signal")
    ra = tm.retval
    ok = False
    if ra is not None:
        a = ra.single_atom()
        if a is not None and a[0] == "ite" and {T.akey(a[2]), T.akey(a[3])} == {T.akey(const(1)), T.akey(const(0))}:
            cond = a[1] if a[2] == const(1) else T.mk_not(a[1])
            c = q.is_cmp(cond)
            ok = c is not None and c[1] == ">=" and T.mentions(a[1], lambda z: z[0] == "call" and z[1] == "abs") and T.same((const(1) - c[2]), [atom(z) for z in c[2].atoms() if z[0] == "call" and z[1] == "abs"][0])
    ctx.ob("FRM", "MD3.calculate_margin_inclusion_signal", "signal = 1 iff |w.x + b| <= 1", ok, q.short(ra, 120) if ra is not None else "")
    # reset
    trr = ctx.trace("MD3", "reset")
    v = trr.final.attrs.get("curr_margin_density")
    ctx.ob("MC", "MD3.reset", "reset restarts the margin density from the reference value", v == rd("md"), q.short(v, 60) if v is not None else "not stored")
    ti = ctx.trace("MD3", "__init__")
    ctx.ob("FRM", "MD3.__init__", "a new detector is not waiting and holds no labels", ti.final.attrs.get("waiting_for_oracle") == T.FALSE and ti.final.attrs.get("oracle_data") == T.NONE, "")


def extras(ctx):
    from . import common
    # constructor wiring, counting, prologue
    common.lifecycle(ctx, ["MD3"], clean_slate=False)
    # the running margin density is updated on every accepted sample
    tr = ctx.trace("MD3", "update", assume={"waiting_for_oracle": False, "_drift_state": None}, nonnull=("X",))
    md = tr.stores("curr_margin_density")
    ctx.ob("ROLE", U, "the margin density is updated by every accepted sample", len(md) == 1 and not [g for g in q.guards_in(md[0], U) if not T.mentions(g, lambda a: a[0] == "call" and a[1] == "len")],
           "found %d stores" % len(md), md[0] if md else None)
    dyn = [e for e in tr.calls() if e.callee[0] == "dynamic" and e.callee[1] == A("margin_calculation_function")]
    if dyn:
        want = q.sub(atom(("mcall", P("X"), "to_numpy", (), ())), 0)
        ctx.ob("FWD", U, "the signal is computed for the one row given", dyn[0].args[1] == want, q.short(dyn[0].args[1], 80), dyn[0])
    # reference split into features / target by the named column
    S_ = "MD3.set_reference"
    ts = ctx.trace("MD3", "set_reference", nonnull=("X",))
    X = P("X")
    cols = atom(("getattr", X, "columns"))
    for attr, op, what in (("reference_batch_features", "!=", "every column but the target"), ("reference_batch_target", "==", "the target column")):
        st = [e for e in ts.stores(attr) if q.within(e, "MD3.set_reference", ("reset", "calculate_distribution_statistics"))]
        want = atom(("call", "copy.deepcopy", (q.sub(atom(("getattr", X, "loc")), atom(("tuple", (atom(("slice", T.NONE, T.NONE, T.NONE)), T.mk_cmp(op, cols, P("target_name")))))),), ()))
        ctx.ob("FRM", S_, "%s is a private copy of %s" % (attr, what), len(st) == 1 and st[0].value == want, q.short(st[0].value, 120) if st else "no store", st[0] if st else None)
    # k-fold statistics: a fresh clone is fitted on the training part of every fold, and judged on the held-out part
    site = "MD3.calculate_distribution_statistics"
    fit = [e for e in ts.calls() if e.callee[0] == "mcall" and e.callee[1] == "fit" and q.stack_has(e, site)]
    cl = [e for e in ts.calls() if e.callee == ("lib", "sklearn.base.clone") or (e.callee[0] == "lib" and e.callee[1].endswith(".clone"))]
    ok = len(fit) == 1 and len(cl) == 1 and cl[0].args == (A("classifier"),)
    split_ok = False
    if ok:
        it = [a for a in T.walk(fit[0].args[0]) if a[0] == "iter"]
        a0, a1 = fit[0].args[0].single_atom(), q.unmut(fit[0].args[1]) if len(fit[0].args) > 1 else None
        split_ok = a0 is not None and a0[0] == "sub" and T.mentions(fit[0].args[0], lambda z: z == ("param", "X")) and bool(it) and \
            T.mentions(fit[0].args[0], lambda z: z[0] == "cmp" and z[1] == "!=") and a1 is not None and T.mentions(a1, lambda z: z[0] == "cmp" and z[1] == "==")
        ok = any((p.cond.single_atom() or ("",))[0] == "inloop" for p in fit[0].pc)
    ctx.ob("MC", site, "a clone of the classifier is fitted on the training part (features, target) of every fold", ok and split_ok, "", fit[0] if fit else None)
    sig = [e for e in ts.calls() if e.callee[0] == "dynamic" and e.callee[1] == A("margin_calculation_function") and q.stack_has(e, site)]
    if sig and fit:
        ctx.ob("ORD", site, "the fold's signals are computed with the clone fitted for that fold", fit[0].seq < sig[0].seq and q.unmut(sig[0].args[2]) == q.unmut(fit[0].recv) or
               (fit[0].seq < sig[0].seq and (q.unmut(sig[0].args[2]).single_atom() or ("",))[0] in ("loopvar", "call")), q.short(sig[0].args[2], 80), sig[0])
    # margin inclusion signal: |w.x + b| with b = intercept[0] / w[1]
    tm = ctx.trace("MD3", "calculate_margin_inclusion_signal")
    clf, sample = P("clf"), P("sample")
    w = atom(("call", "numpy.array", (q.sub(atom(("getattr", clf, "coef_")), 0),), ()))
    b = q.sub(atom(("call", "numpy.array", (atom(("getattr", clf, "intercept_")),), ())), 0) / q.sub(w, 1)
    mis = T.mk_abs(atom(("call", "numpy.dot", (w, sample), ())) + b)
    want = T.mk_ite(T.mk_cmp("<=", mis, const(1)), const(1), const(0))
    got = tm.retval
    ok = got is not None and (got == want or _same_ite(got, want))
    ctx.ob("FRM", "MD3.calculate_margin_inclusion_signal", "margin value = |w . x + intercept[0] / w[1]|, signal 1 iff it is <= 1", ok, "computed %s" % (q.short(got, 200) if got is not None else None))
    # give_oracle_label: exact column test
    tr2 = ctx.trace("MD3", "give_oracle_label", assume={"waiting_for_oracle": True}, nonnull=("labeled_sample",))
    ls = P("labeled_sample")
    lab = atom(("call", "list", (atom(("getattr", ls, "columns")),), ()))
    ref = atom(("concat", atom(("call", "list", (atom(("getattr", A("reference_batch_features"), "columns")),), ())), atom(("call", "list", (atom(("getattr", A("reference_batch_target"), "columns")),), ()))))
    want_g = T.mk_or([T.mk_cmp("!=", atom(("call", "len", (lab,), ())), atom(("call", "len", (ref,), ()))),
                      T.mk_cmp("!=", atom(("call", "set", (lab,), ())), atom(("call", "set", (ref,), ())))])
    rr = [e for e in tr2.raises() if any(T.mentions(g, lambda a: a[0] == "getattr" and a[2] == "columns") for g in guards(e)[-1:])]
    ok = len(rr) == 1 and guards(rr[0])[-1] == want_g
    ctx.ob("GRD", G, "a label is refused exactly when its columns differ in number or as a set from the reference's features followed by its target", ok,
           q.short(guards(rr[0])[-1], 240) if rr else "no refusal", rr[0] if rr else None)


def _same_ite(a, b):
    aa, bb = a.single_atom(), b.single_atom()
    if aa is None or bb is None or aa[0] != "ite" or bb[0] != "ite":
        return False
    if aa[2] == bb[2] and aa[3] == bb[3]:
        return aa[1] == bb[1] or q.cmp_equiv(aa[1], bb[1])
    if aa[2] == bb[3] and aa[3] == bb[2]:
        return aa[1] == T.mk_not(bb[1]) or q.cmp_equiv(aa[1], T.mk_not(bb[1]))
    return False
