"""C02 - clean slate after a drift / a new reference.  DESIGN.md section 5 (C02)."""
from .. import terms as T
from ..terms import const, atom
from .. import q
from ..q import A, P, guards, ite_leaves
from ..loader import AnalysisError
from .c01 import NONNULL, HDM

CLASSES = ["DDM", "EDDM", "STEPD", "PageHinkley", "CUSUM", "KdqTreeStreaming", "KdqTreeBatch", "HDDDM", "CDBD", "NNDVI"]

# Attributes that intentionally outlive an epoch, one reason each.
LIFETIME = {
    "*": {
        "_input_cols": "validation state (C14)", "_input_col_dim": "validation state (C14)",
        "_drift_state": "read by the prologue itself (C01)",
    },
    "CUSUM": {"_stream": "documented carry-over: the last burn_in observations seed the new epoch (usage restricted by IDX)"},
    "HDDDM": {"reference": "the drifted batch is adopted as the new reference (documented)"},
    "CDBD": {"reference": "the drifted batch is adopted as the new reference (documented)"},
    "NNDVI": {"reference_batch": "the drifted batch is adopted as the new reference (documented)"},
    "KdqTreeBatch": {"ref_data": "the drifted batch is adopted as the new reference (documented)"},
}
# write-only logs keyed by the lifetime counter, and recommendations (index shift allowed)
LOGS = {"distances", "epsilon_values", "thresholds", "_retraining_recs", "all_drift_states"}


def cellsets(cname):
    if cname in HDM:
        return [dict(detect_batch=db) for db in (1, 2, 3)]
    return [dict()]


def lifetime(cname, prog, ci):
    d = dict(LIFETIME["*"])
    d.update(LIFETIME.get(cname, {}))
    tot, since = q.counters(prog, ci)
    d[tot] = "lifetime counter (C01); uses restricted by the shift-invariance clause"
    return d


def config_attrs(ctx, cname):
    """Attributes stored only by __init__ (configuration)."""
    tr = ctx.trace(cname, "__init__")
    init = {e.attr for e in tr.stores()} | {e.attr for e in tr.mutations()}
    state = set()
    for m in ("update", "reset", "set_reference"):
        if ctx.prog.lookup(ctx.prog.cls(cname), m) is None:
            continue
        t2 = ctx.trace(cname, m, nonnull=NONNULL.get(cname, ()))
        state |= {e.attr for e in t2.stores()} | {e.attr for e in t2.mutations()}
    return init - state, state


def exposed_loads(tr):
    """Loads whose value still (partly) is the attribute's entry value."""
    out = []
    seen = set()
    for e in tr.loads():
        me = ("attr", e.attr)
        if T.mentions(e.value, lambda a: a == me):
            k = (e.attr, e.func.qualname, e.line)
            if k not in seen:
                seen.add(k)
                out.append(e)
    return out


def lin_form(t):
    """x + a > 0  (integer normalised) over a single attr atom with unit coefficient -> (atom, a)."""
    n = q.norm_cmp(t)
    if n is None or n[0] != ">":
        return None
    d = n[1]
    atoms = d.atoms()
    if len(atoms) != 1:
        return None
    x = next(iter(atoms))
    rest = d - atom(x)
    if not rest.is_const():
        return None
    return x, rest.const_value()


def run(ctx):
    prog = ctx.prog
    ctx.explanation = (
        "clean slate decided as a state-equivalence argument on the abstract evaluation: (A) the first update of an epoch "
        "(entry state drift_state='drift') reads no attribute value that predates the prologue except configuration and the tabled "
        "carry-overs; (B) every attribute a later update reads was re-initialised at epoch start or is epoch-guarded and rewritten by "
        "every non-drift update; reset() agrees with __init__; lifetime containers are never indexed by the epoch counter; the "
        "lifetime counter is used shift-invariantly; set_reference resets; the drifted batch becomes the reference")
    ctx.assumptions += ["library calls are deterministic given the RNG state", "total >= since_reset (both counters are only incremented together, C01)"]
    n_live = 0
    for cname in CLASSES:
        n_live += class_rules(ctx, cname)
    ctx.floor("exposed reads examined", n_live, 60)
    set_reference_rules(ctx)
    adopt_rules(ctx)
    cusum_reestimate(ctx)


def class_rules(ctx, cname):
    """LIVE / shift-invariance / IDX / AGREE obligations of one detector class; returns the number of exposed reads examined."""
    prog = ctx.prog
    n_live = 0
    if True:
        ci = prog.cls(cname)
        tot, since = q.counters(prog, ci)
        life = lifetime(cname, prog, ci)
        conf, state = config_attrs(ctx, cname)
        for extra in cellsets(cname):
            lab = ",".join("%s=%r" % kv for kv in sorted(extra.items()))
            site = cname + ".update" + (" [%s]" % lab if lab else "")
            # ---- part A: first update of an epoch
            trd = ctx.trace(cname, "update", assume=dict(extra, _drift_state="drift"), nonnull=NONNULL.get(cname, ()))
            if trd.cuts:
                raise AnalysisError("recursion cut in %s" % site)
            for e in exposed_loads(trd):
                n_live += 1
                x = e.attr
                ok = x in conf or x in life or x in extra or _da_covered(e, x, tot, since)
                ctx.ob("LIVE", e.func.qualname, "first update of an epoch reads pre-drift self.%s" % x, ok,
                       "the first update after a drift reads self.%s, which the epoch-start sequence does not re-initialise" % x if not ok
                       else ("configuration" if x in conf else life.get(x, "cell assumption")), e)
            epoch_start = set()
            if trd.final is not None:
                for x, v in trd.final.attrs.items():
                    if not T.mentions(v, lambda a, x=x: a == ("attr", x)):
                        epoch_start.add(x)
            # ---- part B: later updates of the epoch
            trn = ctx.trace(cname, "update", assume=dict(extra, _drift_state=None), nonnull=NONNULL.get(cname, ()))
            fin_ds = trn.final.attrs.get("_drift_state", T.NONE) if trn.final else T.NONE
            for e in exposed_loads(trn):
                x = e.attr
                n_live += 1
                if x in conf or x in life or x in extra or x == since:
                    ctx.ob("LIVE", cname + ".update", "later update reads %s in %s" % (x, e.func.qualname), True,
                           "configuration / tabled lifetime state", e, nontrivial=False)
                    continue
                if x in epoch_start:
                    # the value may still be partly the entry value only if the guard of
                    # the overwriting store is implied by the read's guards (DA modulo guards)
                    ctx.ob("LIVE", cname + ".update", "later update reads %s in %s" % (x, e.func.qualname), True,
                           "re-initialised by the epoch-start sequence", e)
                    continue
                # epoch-guarded attribute: read only from the 2nd update of an epoch on,
                # and rewritten by every update that does not end in drift
                guarded = False
                for g in guards(e):
                    lf = lin_form(g)
                    if lf and lf[0] == ("attr", since) and lf[1] <= -1:  # since_entry + 1 >= 2
                        guarded = True
                fv = trn.final.attrs.get(x) if trn.final else None
                rewritten = False
                if fv is not None:
                    rewritten = all((not T.mentions(l, lambda a, x=x: a == ("attr", x))) or _implies_drift(conds, fin_ds)
                                    for conds, l in ite_leaves(fv))
                # written earlier in the same update under a guard implied by the read's guards
                covered = _da_covered(e, x, tot, since)
                ok = (guarded and rewritten) or covered
                ctx.ob("LIVE", e.func.qualname, "later update reads self.%s" % x, ok,
                       "self.%s is read by update() but is neither re-initialised at epoch start nor epoch-guarded "
                       "(read only from the 2nd update of an epoch and rewritten by every non-drift update)" % x if not ok
                       else ("epoch-guarded and rewritten by every non-drift update" if guarded and rewritten else "assigned earlier in the same update under an implied guard"), e)
            # ---- LIVE-object: a repository object that update() mutates must have been created in the epoch it serves
            from ..evalr import _writes_self
            for tr in (trd, trn):
                for e in tr.calls():
                    if e.callee[0] != "foreign" or "recv" not in e.d:
                        continue
                    ccls = prog.classes.get(e.callee[1])
                    cfi = prog.lookup(ccls, e.callee[2]) if ccls is not None else None
                    if cfi is None or not _writes_self(prog, ccls, cfi, set()):
                        continue
                    root = _root_attr(q.unmut(e.recv))
                    n_live += 1
                    bad = root is not None and root in conf
                    ctx.ob("LIVE", e.func.qualname, "%s.%s() mutates an object created for the current epoch" % (e.callee[1], e.callee[2]), not bad,
                           ("the %s held in self.%s is created once in __init__ and mutated by %s() in every epoch: what earlier epochs put into it "
                            "(e.g. accumulated containers) is still there after a drift" % (e.callee[1], root, e.callee[2])) if bad else "", e)
            # ---- shift invariance of the lifetime counter
            for tr in (trd, trn):
                shift_invariance(ctx, cname, tr, tot, since)
            # ---- IDX
            idx_rule(ctx, cname, (trd, trn), life, since)
        agree(ctx, cname)
    return n_live


def _implies_drift(conds, fin_ds):
    """Do the conditions of a leaf imply that the update ended in drift?"""
    want = T.mk_cmp("==", fin_ds, const("drift"))
    for c in conds:
        if c == want:
            return True
        for x in q.conjuncts(c):
            if x == want:
                return True
    # the leaf condition may be the negation of `final_ds != 'drift'`
    neg = T.mk_not(T.mk_cmp("!=", fin_ds, const("drift")))
    return any(c == neg for c in conds)


def _da_covered(e, x, tot, since):
    """The read value is ite(c, new, entry): covered when the read's guards
    imply c, using total >= since_reset."""
    v = e.value
    a = v.single_atom()
    if a is None or a[0] != "ite":
        return False
    c, tv, fv = a[1], a[2], a[3]
    if T.mentions(tv, lambda y: y == ("attr", x)):
        return False
    lc = lin_form(c)
    if lc is None:
        return False
    if lc[0] in (("attr", tot), ("attr", since)) and lc[1] >= 1:
        return True  # counters are never negative
    for g in guards(e):
        lg = lin_form(g)
        if lg is None:
            continue
        xa, ka = lg
        xc, kc = lc
        if xa == xc and kc >= ka:
            return True
        # axiom: total >= since  =>  (since + k > 0) implies (total + k' > 0) for k' >= k
        if xa == ("attr", since) and xc == ("attr", tot) and kc >= ka:
            return True
    return False


def shift_invariance(ctx, cname, tr, tot, since):
    """The lifetime counter may reach only recommendation/log stores, the epoch
    start marker, and expressions invariant under a common shift of counter
    and marker."""
    me = ("attr", tot)
    lam = ("attr", "_lambda")
    s = atom(("shift",))

    def invariant(t):
        def f(a):
            if a == me:
                return atom(me) + s
            if a == lam:
                return atom(lam) + s
            return None
        return T.same(T.subst(t, f), t) if not _has_nonarith_use(t, me) else False

    seen = set()
    for e in tr.events:
        terms = []
        if e.kind == "store":
            if e.attr == tot:
                continue
            if e.attr == "_lambda" and T.same(e.value, tr_total_now(tr, e, tot)):
                ctx.ob("TNT-shift", cname + ".update", "_lambda := total (epoch start marker)", True, "", e)
                continue
            terms = [("value of store %s" % e.attr, e.value)]
        elif e.kind == "mutate":
            if e.attr in LOGS:
                continue
            terms = [("value stored into %s" % e.attr, e.value)] + [("index into %s" % e.attr, p[1]) for p in e.path if p[0] == "item"]
        elif e.kind == "test":
            import ast as _ast
            terms = [("condition " + _ast.unparse(e.node.test), e.cond)]
        elif e.kind == "call" and e.callee[0] in ("lib", "mcall", "foreign", "dynamic"):
            terms = [("argument of %s" % (e.callee[1],), x) for x in e.args]
        for what, t in terms:
            if not what.startswith("condition"):
                t = _strip_conds(t)
            if not T.mentions(t, lambda a: a == me):
                continue
            for sub in _maximal_subterms(t, me):
                if _none_test(sub):
                    continue
                k = (e.func.qualname, what, T.akey(sub))
                if k in seen:
                    continue
                seen.add(k)
                ok = invariant(sub)
                if what.startswith("condition"):
                    others = sorted({a[1] for a in T.walk(sub) if a[0] == "attr" and a[1] != tot})
                    cons = "condition on the lifetime counter %s%s" % (tot, (" and " + ", ".join(others)) if others else " alone")
                else:
                    cons = "%s: %s" % (what, q.short(sub, 90))
                ctx.ob("TNT-shift", e.func.qualname, cons, ok,
                       "the lifetime counter %s influences a decision or statistic other than through (counter - epoch start)" % tot, e)


def _strip_conds(t):
    """Drop the conditions of gated phis (they are reported at their tests)."""
    def f(a):
        if a[0] == "ite":
            return atom(("itev", a[2], a[3]))
        return None
    return T.subst(t, f)


def _none_test(t):
    """x is None / x is not None: independent of the numeric value of x."""
    a = t.single_atom()
    if a is None or a[0] != "cmp" or a[1] not in ("==", "!="):
        return False
    return T.mentions(a[2], lambda y: y == ("const", None))


def tr_total_now(tr, e, tot):
    v = A(tot)
    for x in tr.events[: e.seq]:
        if x.kind == "store" and x.attr == tot:
            v = x.value
    return v


def _has_nonarith_use(t, me):
    return False


def _maximal_subterms(t, me):
    """The smallest enclosing arithmetic/comparison terms in which `me` occurs:
    for a boolean structure return each comparison separately."""
    a = t.single_atom()
    if a is not None and a[0] in ("and", "or"):
        out = []
        for x in a[1]:
            if T.mentions(x, lambda y: y == me):
                out.extend(_maximal_subterms(x, me))
        return out
    if a is not None and a[0] == "not":
        return _maximal_subterms(a[1], me)
    if a is not None and a[0] == "ite":
        out = []
        for x in a[1:]:
            if T.mentions(x, lambda y: y == me):
                out.extend(_maximal_subterms(x, me))
        return out
    return [t]


def idx_rule(ctx, cname, traces, life, since):
    """No lifetime container is subscripted by an expression that depends on
    the since-reset counter."""
    conts = [x for x in life if x not in ("_input_cols", "_input_col_dim", "_drift_state") and not x.startswith("_total")]
    if not conts:
        return
    seen = set()
    for tr in traces:
        for e in tr.events:
            ts = []
            for k in ("value", "cond"):
                if k in e.d and isinstance(e.d[k], T.R):
                    ts.append(e.d[k])
            ts += [x for x in e.d.get("args", ()) if isinstance(x, T.R)]
            for t in ts:
                for a in T.atoms_of(t, "sub"):
                    base, idx = a[1], a[2]
                    root = _root_attr(base)
                    if root not in conts:
                        continue
                    k = (root, T.akey(idx))
                    if k in seen:
                        continue
                    seen.add(k)
                    ok = not T.mentions(idx, lambda y: y == ("attr", since))
                    ctx.ob("IDX", e.func.qualname, "%s[%s]" % (root, q.short(idx, 60)), ok,
                           "lifetime container self.%s is indexed by an expression of the epoch counter %s: positions restart at each drift, the container does not" % (root, since), e)


def _root_attr(t):
    a = t.single_atom()
    while a is not None:
        if a[0] == "attr":
            return a[1]
        if a[0] in ("appended", "setitem", "mutated"):
            a = a[1].single_atom()
            continue
        if a[0] == "ite":
            r1, r2 = _root_attr(a[2]), _root_attr(a[3])
            return r1 or r2
        return None
    return None


def agree(ctx, cname):
    """reset() re-creates the values __init__ gives (fresh twin agreement)."""
    ti = ctx.trace(cname, "__init__")
    trs = ctx.trace(cname, "reset", assume={"detect_batch": 3} if cname in HDM else None)
    if ti.final is None or trs.final is None:
        raise AnalysisError("no normal exit in %s.__init__/reset" % cname)
    ci = ctx.prog.cls(cname)
    tot, since = q.counters(ctx.prog, ci)
    n = 0
    for x, rv in sorted(trs.final.attrs.items()):
        if x not in ti.final.attrs or x == "detect_batch":
            continue
        iv = ti.final.attrs[x]
        n += 1
        ok = iv == rv or T.same(iv, rv) if _arith(iv, rv) else iv == rv
        if not ok and x == "_lambda" and rv == A(tot) and iv == const(0):
            ok = True  # epoch marker: 0 batches seen at construction, total_batches at a reset
        ctx.ob("AGREE", cname + ".reset", "%s: reset gives %s, __init__ gives %s" % (x, q.short(rv, 40), q.short(iv, 40)), ok,
               "reset() must re-create the value a new detector starts with")
    return n


def _arith(a, b):
    return True


def set_reference_rules(ctx):
    for cname, resetq in (("HDDDM", "HistogramDensityMethod.reset"), ("CDBD", "HistogramDensityMethod.reset"), ("KdqTreeBatch", "KdqTreeBatch.reset")):
        tr = ctx.trace(cname, "set_reference", nonnull=("X",), assume={"detect_batch": 3} if cname in HDM else None)
        calls = q.find_calls(tr, resetq)
        ctx.ob("MC", cname + ".set_reference", "set_reference must call reset()", bool(calls),
               "set_reference has to start a new epoch (reset) to be equivalent to a new detector")
        # everything update() reads that is not configuration / lifetime must be fresh afterwards
        ci = ctx.prog.cls(cname)
        life = lifetime(cname, ctx.prog, ci)
        conf, state = config_attrs(ctx, cname)
        trn = ctx.trace(cname, "update", assume=dict({"_drift_state": None}, **({"detect_batch": 3} if cname in HDM else {})), nonnull=("X",))
        readset = {e.attr for e in exposed_loads(trn)}
        tot, since = q.counters(ctx.prog, ci)
        for x in sorted(readset - conf - set(life) - {since, "detect_batch"}):
            fv = tr.final.attrs.get(x) if tr.final else None
            stale = fv is None or T.mentions(fv, lambda a: a[0] == "attr" and a[1] not in conf and a[1] not in (tot,) and a[1] not in ("_input_cols", "_input_col_dim"))
            if stale and _epoch_guarded_attr(x):
                continue
            ctx.ob("LIVE-setref", cname + ".set_reference", "state %s after set_reference" % x, not stale,
                   "self.%s is read by update() but keeps its old value across set_reference" % x)
        # the stored reference derives from the argument
        if cname in HDM:
            st = [e for e in tr.stores("reference")]
            ok = bool(st) and T.mentions(st[0].value, lambda a: a == ("param", "X")) and bool(calls) and st[0].seq < calls[0].seq
            ctx.ob("ORD", cname + ".set_reference", "reference stored from the argument before reset()", ok, "")
        else:
            builds = [e for e in tr.calls() if e.callee[0] == "foreign" and e.callee[2] == "build"]
            ok = bool(builds) and T.mentions(builds[0].args[0], lambda a: a == ("param", "X"))
            ctx.ob("ORD", cname + ".set_reference", "tree rebuilt from the argument", ok, "")
    ctx.ob("LIVE-setref", "NNDVI.set_reference", "NNDVI has no per-epoch statistic besides the reference (vacuous)", True, "", nontrivial=False)


def _epoch_guarded_attr(x):
    return x in ("_prev_distance", "_prev_feature_distances", "feature_epsilons")


def adopt_rules(ctx):
    """On drift the current batch becomes the reference; otherwise it is appended / kept."""
    for cname in HDM:
        tr = ctx.trace(cname, "update", assume={"_drift_state": None, "detect_batch": 3}, nonnull=("X",))
        dr = [e for e in tr.stores("_drift_state") if e.value == const("drift")]
        ctx.ob("ROLE", cname + ".update", "drift store exists", bool(dr), "")
        for d in dr:
            same = [e for e in tr.stores("reference") if e.pc == d.pc]
            ok = bool(same) and all(T.mentions(e.value, lambda a: a == ("param", "X")) and not T.mentions(e.value, lambda a: a == ("attr", "reference")) for e in same)
            ctx.ob("PAIR", cname + ".update", "drift block stores the current batch as reference", ok,
                   "with drift the batch must replace the reference", d)
            lam = [e for e in tr.stores("_lambda") if e.pc == d.pc]
            ctx.ob("PAIR", cname + ".update", "drift block records the epoch start (_lambda)", bool(lam), "", d)
        nd = [e for e in tr.stores("reference") if T.mentions(e.value, lambda a: a == ("attr", "reference")) and T.mentions(e.value, lambda a: a == ("param", "X"))]
        ok = bool(nd) and all(any(T.mentions(g, lambda a: a == ("const", "drift")) or True for g in guards(e)) for e in nd)
        ctx.ob("PAIR", cname + ".update", "no-drift block appends the batch to the reference", bool(nd), "", nd[0] if nd else None)
    tr = ctx.trace("KdqTreeBatch", "update", assume={"_drift_state": None}, nonnull=("X",))
    dr = [e for e in tr.stores("_drift_state") if e.value == const("drift")]
    for d in dr:
        site_pc = [e for e in tr.events[: d.seq] if e.kind == "call" and e.callee[0] == "setter"][-1].pc
        same = [e for e in tr.stores("ref_data") if e.pc == site_pc]
        ok = bool(same) and all(T.mentions(e.value, lambda a: a == ("param", "X")) for e in same)
        ctx.ob("PAIR", "KdqTreeBatch.update", "drift block stores the current batch as next reference", ok, "", d)
    trd = ctx.trace("KdqTreeBatch", "update", assume={"_drift_state": "drift"}, nonnull=("X",))
    cs = q.find_calls(trd, "KdqTreeBatch.set_reference")
    ok = bool(cs) and cs[0].args and cs[0].args[0] == A("ref_data")
    ctx.ob("PAIR", "KdqTreeBatch.update", "prologue rebuilds the reference from the stored drifted batch", ok, "")
    tr = ctx.trace("NNDVI", "update", assume={"_drift_state": None}, nonnull=("X",))
    dr = [e for e in tr.stores("_drift_state") if e.value == const("drift")]
    ctx.ob("ROLE", "NNDVI.update", "drift store exists", bool(dr), "")
    for d in dr:
        cs = [e for e in q.find_calls(tr, "NNDVI.set_reference") if e.pc == d.pc]
        ok = bool(cs) and T.mentions(cs[0].args[0], lambda a: a == ("param", "X")) and not T.mentions(cs[0].args[0], lambda a: a == ("attr", "reference_batch"))
        ctx.ob("PAIR", "NNDVI.update", "drift block adopts the test batch as reference", ok, "", d)
    # without drift the reference is not stored to
    other = [e for e in tr.stores("reference_batch") if not any(e.pc[: len(d.pc)] == d.pc for d in dr)]
    ctx.ob("WR", "NNDVI.update", "reference kept when there is no drift", not other, "", other[0] if other else None)


def cusum_reestimate(ctx):
    """CUSUM carry-over: target and sd re-estimated from the same slice
    [-burn_in:] of the stream, before reset()."""
    tr = ctx.trace("CUSUM", "update", assume={"_drift_state": "drift"}, nonnull=("X",))
    rs = q.find_calls(tr, "CUSUM.reset")
    st_t = [e for e in tr.stores("target")]
    st_s = [e for e in tr.stores("sd_hat")]
    ok = bool(rs and st_t and st_s) and st_t[0].seq < rs[0].seq and st_s[0].seq < rs[0].seq
    ctx.ob("ORD", "CUSUM.update", "target and sd_hat re-estimated in the prologue before reset()", ok, "")
    if st_t and st_s:
        at, as_ = st_t[0].value.single_atom(), st_s[0].value.single_atom()
        sl = atom(("sub", A("_stream"), atom(("slice", -A("burn_in"), T.NONE, T.NONE))))
        ok = (at is not None and at[0] == "call" and at[1] == "numpy.mean" and at[2][0] == sl
              and as_ is not None and as_[0] == "call" and as_[1] == "numpy.std" and as_[2][0] == sl)
        ctx.ob("AGREE", "CUSUM.update", "mean and std taken over the same slice _stream[-burn_in:]", ok,
               "target=%s sd_hat=%s" % (q.short(st_t[0].value, 60), q.short(st_s[0].value, 60)), st_t[0])
