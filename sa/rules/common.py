"""Obligations shared by the per-detector properties.

A property such as "DDM decides exactly as its specification" quantifies over every
stream, hence over everything update() does on the way: the epoch prologue, the values
reset()/__init__ start the statistics from, the constructor wiring of the thresholds,
the extraction of the two labels and the recommendation bookkeeping.  The rules for
those live in c01 / c02 / c16; `lifecycle` runs them for the classes of the calling
property so that its verdict does not depend on another property's check being run."""
from .. import terms as T
from ..terms import const, atom
from .. import q
from ..q import A, P
from ..loader import AnalysisError
from . import c01, c02


# ---------------------------------------------------------------------------
# joint case split of several final-state terms

def restrict(t, c, val):
    """t with every gated phi on condition c resolved to its `val` branch."""
    nc = T.mk_not(c)

    def f(a):
        if a[0] == "ite":
            if a[1] == c:
                return a[2] if val else a[3]
            if a[1] == nc:
                return a[3] if val else a[2]
        me = atom(a)  # any occurrence of the condition itself (a comparison, a connective, a boolean-valued call such as any(...))
        if me == c:
            return T.TRUE if val else T.FALSE
        if me == nc:
            return T.FALSE if val else T.TRUE
        return None
    return T.subst(t, f)


def joint_leaves(ts, conds=(), depth=0):
    """Enumerate the case split induced by the gated phis heading the terms ts: yields (conds, [leaf terms])."""
    if depth > 24:
        raise AnalysisError("joint case split deeper than 24")
    for t in ts:
        a = t.single_atom() if isinstance(t, T.R) else None
        if a is not None and a[0] == "ite":
            c = a[1]
            yield from joint_leaves([restrict(x, c, True) for x in ts], conds + (c,), depth + 1)
            yield from joint_leaves([restrict(x, c, False) for x in ts], conds + (T.mk_not(c),), depth + 1)
            return
    yield conds, list(ts)


def pair_of(t):
    """(item 0, item 1) of a two-element container term, seeing through setitem chains."""
    return q.sub(t, 0), q.sub(t, 1)


# ---------------------------------------------------------------------------
# retraining recommendation as a table  (DDM / EDDM / LinearFourRates idiom)

W = atom(("sym", "first_warning_index"))


def recs_table(ctx, cname, nonnull):
    """Final (drift_state', recs') of one update, jointly split, against the documented table:
         state' None     -> recs unchanged
         state' warning  -> [first warning index of the epoch (kept if already set, else current), unchanged]
         state' drift    -> [kept if set else current, current]
       `current` is total_samples - 1 after counting."""
    cur = A("_total_samples")  # (old total + 1) - 1
    n = 0
    for ds0, r0, lab in ((None, T.NONE, "no warning yet"), (None, W, "warning seen earlier in the epoch"), ("warning", W, "in the warning zone")):
        entry = atom(("list", (r0, T.NONE)))
        tr = ctx.trace(cname, "update", assume={"_drift_state": ds0, "_retraining_recs": entry},
                       nonnull=tuple(nonnull) + (("sym", "first_warning_index"),))
        if tr.final is None:
            raise AnalysisError("%s.update has no normal exit" % cname)
        ds = tr.final.attrs.get("_drift_state", T.NONE)
        rc = tr.final.attrs.get("_retraining_recs", entry)
        for conds, (d, r) in joint_leaves([ds, rc]):
            if not q.feasible(list(conds)):
                continue
            a, b = pair_of(r)
            if d == T.NONE:
                want = (r0, T.NONE)
            elif d == const("warning"):
                want = (r0 if r0 != T.NONE else cur, T.NONE)
            elif d == const("drift"):
                want = (r0 if r0 != T.NONE else cur, cur)
            else:
                raise AnalysisError("%s.update: final drift_state leaf %s is not a constant" % (cname, q.short(d, 60)))
            n += 1
            ok = (a == want[0] or T.same(a, want[0])) and (b == want[1] or T.same(b, want[1]))
            ctx.ob("TAB-recs", cname + ".update", "recommendation after an update ending in %s (%s)" % (q.short(d, 12), lab), ok,
                   "retraining_recs is [%s, %s]; the documented value is [%s, %s]" % (q.short(a, 50), q.short(b, 50), q.short(want[0], 50), q.short(want[1], 50)))
    ctx.floor("%s recommendation cells" % cname, n, 9)


E = atom(("sym", "last_alert_index"))


def recs_table_stepd(ctx, nonnull):
    """STEPD: the recommendation spans the current uninterrupted warning/drift run.
         test not run (fewer than two windows)  -> unchanged
         state' None                             -> [None, None]
         state' warning / drift                  -> [current, current] when the run starts, else [start, previous end + 1]"""
    cname = "STEPD"
    cur = A("_total_samples")
    n = 0
    for ds0, r0, r1, lab in ((None, T.NONE, T.NONE, "no run"), ("warning", W, E, "run in progress")):
        entry = atom(("call", "numpy.array", (atom(("list", (r0, r1))),), ()))
        tr = ctx.trace(cname, "update", assume={"_drift_state": ds0, "_retraining_recs": entry},
                       nonnull=tuple(nonnull) + (("sym", "first_warning_index"), ("sym", "last_alert_index")))
        if tr.final is None:
            raise AnalysisError("STEPD.update has no normal exit")
        ds = tr.final.attrs.get("_drift_state", const(ds0))
        rc = tr.final.attrs.get("_retraining_recs", entry)
        tp = tr.final.attrs.get("_test_p", A("_test_p"))
        for conds, (d, r, p) in joint_leaves([ds, rc, tp]):
            if not q.feasible(list(conds)):
                continue
            a, b = pair_of(_unarray(r))
            if p == A("_test_p"):
                want = (r0, r1)
                what = "no test"
            elif d == T.NONE:
                want = (T.NONE, T.NONE)
                what = "None"
            elif d in (const("warning"), const("drift")):
                want = (cur, cur) if r0 == T.NONE else (W, E + const(1))
                what = d.single_atom()[1] if d.single_atom() else "alert"
            else:
                raise AnalysisError("STEPD.update: final drift_state leaf %s is not a constant" % q.short(d, 60))
            n += 1
            ok = (a == want[0] or T.same(a, want[0])) and (b == want[1] or T.same(b, want[1]))
            ctx.ob("TAB-recs", "STEPD.update", "recommendation after an update ending in %s (%s)" % (what, lab), ok,
                   "retraining_recs is [%s, %s]; the documented value is [%s, %s]" % (q.short(a, 50), q.short(b, 50), q.short(want[0], 50), q.short(want[1], 50)))
    ctx.floor("STEPD recommendation cells", n, 6)


def _unarray(t):
    a = t.single_atom()
    if a is not None and a[0] == "call" and a[1] == "numpy.array" and a[2]:
        return a[2][0]
    return t


# ---------------------------------------------------------------------------
# constructor wiring and initial values

def init_forward(ctx, cname, skip=()):
    """Every constructor parameter reaches the attribute the other methods read it from."""
    ci = ctx.prog.cls(cname)
    fi = ctx.prog.lookup(ci, "__init__")
    tr = ctx.trace(cname, "__init__")
    if tr.final is None:
        raise AnalysisError("%s.__init__ has no normal exit" % cname)
    n = 0
    for p in fi.params():
        if p in ("self",) or p in skip:
            continue
        n += 1
        same = tr.final.attrs.get(p)
        if same is not None:
            ok = same == P(p)
            ctx.ob("FWD-init", cname + ".__init__", "constructor parameter %s is stored as self.%s" % (p, p), ok,
                   "self.%s is %s after construction" % (p, q.short(same, 80)))
        else:
            ok = any(T.mentions(v, lambda a: a == ("param", p)) for v in tr.final.attrs.values())
            ctx.ob("FWD-init", cname + ".__init__", "constructor parameter %s reaches the object's state" % p, ok,
                   "no attribute depends on the parameter after construction")
    return n


def init_base(ctx, cname):
    """A new detector starts with zeroed counters, no drift state and (where it keeps one) an empty recommendation."""
    tr = ctx.trace(cname, "__init__")
    if tr.final is None:
        raise AnalysisError("%s.__init__ has no normal exit" % cname)
    tot, since = q.counters(ctx.prog, ctx.prog.cls(cname))
    at = tr.final.attrs
    for x, w in ((tot, const(0)), (since, const(0)), ("_drift_state", T.NONE)):
        ctx.ob("FRM-init", cname + ".__init__", "%s starts at %s" % (x, q.short(w, 10)), at.get(x) == w,
               "after construction self.%s is %s" % (x, q.short(at[x], 40) if x in at else "unset (the base constructor is not run)"))
    if cname in c01.RECS:
        v = at.get("_retraining_recs")
        ctx.ob("FRM-init", cname + ".__init__", "retraining_recs starts as [None, None]", v is not None and c01._is_none_pair(v),
               "after construction self._retraining_recs is %s" % (q.short(v, 40) if v is not None else "unset"))


def init_table(ctx, cname, table, methods=("__init__", "reset")):
    """Starting values of the statistics (the neutral elements the specification starts from)."""
    for m in methods:
        tr = ctx.trace(cname, m, assume={"detect_batch": 3} if cname in c01.HDM and m == "reset" else None)
        if tr.final is None:
            raise AnalysisError("%s.%s has no normal exit" % (cname, m))
        for attr, want in table.items():
            got = tr.final.attrs.get(attr)
            w = want if isinstance(want, T.R) else const(want)
            ok = got is not None and (got == w or (got.is_const() and w.is_const() and got.const_value() == w.const_value()))
            ctx.ob("FRM-init", "%s.%s" % (cname, m), "%s starts at %s" % (attr, q.short(w, 30)), ok,
                   "after %s() self.%s is %s" % (m, attr, q.short(got, 60) if got is not None else "unset"))


def labels_extracted(ctx, cname, tr, cmp_atom):
    """The indicator compares element 0 of the two validated labels of this call."""
    from . import c16
    ext, _vals = c16.extracted_labels(ctx, tr, cname + ".update")
    d = ext["y_pred"] - ext["y_true"]
    ok = cmp_atom is not None and (T.same(cmp_atom[2], d) or T.same(cmp_atom[2], -d))
    ctx.ob("FWD-label", cname + ".update", "the indicator compares the validated label and prediction of this call (element 0 of each)", ok,
           "compared: %s" % (q.short(atom(cmp_atom), 120) if cmp_atom is not None else None))


# ---------------------------------------------------------------------------
def lifecycle(ctx, names, recs=(), clean_slate=True):
    """Epoch prologue, counting, clean slate and constructor wiring for the classes of one property."""
    prog = ctx.prog
    c01.clause_cells(ctx, [prog.cls(n) for n in names])
    for n in names:
        if clean_slate and n in c02.CLASSES:
            c02.class_rules(ctx, n)
        else:
            c02.agree(ctx, n)
        init_forward(ctx, n)
        init_base(ctx, n)
    for n in recs:
        recs_table(ctx, n, c01.NONNULL[n])
    escape(ctx, names)


def escape(ctx, names):
    """What a detector keeps of an observation is a private copy (C15's escape rules for the given classes): statistics that are
    later recomputed from stored observations (windows, streams, references) must not change when the caller reuses its buffer."""
    from . import c15
    c15.validation_fresh(ctx)
    for cname in names:
        if cname not in q.PUBLIC_DETECTORS:
            continue
        for meth in ("update", "set_reference"):
            fi = ctx.prog.lookup(ctx.prog.cls(cname), meth)
            if fi is None or fi.cls.name in q.BASES:
                continue
            srcs = {p for p in fi.params()[1:] if p in ("X", "y_true", "y_pred")}
            for cell in ({"_drift_state": None}, {"_drift_state": "drift"}):
                if cname == "MD3":
                    cell = dict(cell, waiting_for_oracle=False)
                tr = ctx.trace(cname, meth, assume=cell, nonnull=c01.NONNULL.get(cname, ("X",)))
                c15.sinks(ctx, "%s.%s" % (cname, meth), tr, srcs, injector=False)
