"""C04 - CUSUM and Page-Hinkley recurrences, direction tables, current observation."""
from .. import terms as T
from ..terms import const, atom
from .. import q
from ..q import A, S, guards
from .c02 import _root_attr

NN = ("X", ("attr", "target"), ("attr", "sd_hat"))


def run(ctx):
    ctx.explanation = (
        "formula conformance (algebraic identity of normal forms) of the CUSUM and Page-Hinkley recurrences on the value-numbered "
        "update(), the observation used is the validated input of this call, direction -> statistic tables extracted by evaluating "
        "update() per direction cell, estimation / re-estimation of target and sd, append discipline of the bound lists")
    ctx.assumptions += ["real arithmetic (float rounding order ignored)", "direction is one of the documented values None / 'positive' / 'negative'"]
    cusum(ctx)
    page_hinkley(ctx)
    # every stream spans epochs: prologue, counting, clean slate, constructor wiring, starting values, univariate guard
    from . import common, c14
    common.lifecycle(ctx, ["CUSUM", "PageHinkley"])
    zero = atom(("list", (const(0),)))
    common.init_table(ctx, "CUSUM", {"_upper_bound": zero, "_lower_bound": zero})
    common.init_table(ctx, "CUSUM", {"_stream": atom(("list", ()))}, methods=("__init__",))
    common.init_table(ctx, "PageHinkley", {"_max": 0, "_min": 0, "_sum": 0, "_mean": 0})
    for n in ("CUSUM", "PageHinkley"):
        c14.univariate(ctx, n)
    # re-estimation after a drift: mean and deviation of the last burn_in observations *before* this call's observation joins the stream
    from . import c02
    c02.cusum_reestimate(ctx)


def appends(tr, attr):
    return [e for e in tr.mutations(attr) if e.how == "method:append"]


def cusum(ctx):
    ssr0 = A("_samples_since_reset")
    ssr = ssr0 + const(1)
    # ---- recurrences, target known
    tr = ctx.trace("CUSUM", "update", assume={"_drift_state": None}, nonnull=NN)
    xv = q.validated(tr, 0)
    ctx.require(xv is not None, "CUSUM.update validates its input")
    env = {"x": xv, "ub": atom(("sub", A("_upper_bound"), ssr0)), "lb": atom(("sub", A("_lower_bound"), ssr0))}
    spec_h = S("max(0, ub + (x - A_target) / A_sd_hat - A_delta)", env)
    spec_l = S("max(0, lb - A_delta - (x - A_target) / A_sd_hat)", env)
    for attr, spec, nm in (("_upper_bound", spec_h, "s_h"), ("_lower_bound", spec_l, "s_l")):
        ap = appends(tr, attr)
        if not ctx.anchor("CUSUM.update", "the statistic is kept in the list %s" % attr, bool(ap) or bool(tr.stores(attr)), "no write to self.%s in update()" % attr):
            continue
        ctx.ob("ROLE", "CUSUM.update", "%s appended once per update (target known)" % attr, len(ap) == 1, "found %d appends" % len(ap))
        for e in ap:
            v = e.value.single_atom()[1][0]
            ctx.ob("FRM", "CUSUM.update", "%s recurrence" % nm, T.same(v, spec),
                   "computed %s ; documented %s" % (q.short(v, 200), q.short(spec, 200)), e)
            ctx.ob("TNT-obs", "CUSUM.update", "%s uses the observation of this call" % nm, T.mentions(v, lambda a: a == ("param", "X")) and
                   not T.mentions(v, lambda a: a[0] == "sub" and _root_attr(a[1]) == "_stream"),
                   "the statistic must be computed from the validated input of this call, not from a stored position of the stream", e)
    # ---- direction table
    thr = A("threshold")
    for d, want in ((None, ("_upper_bound", "_lower_bound")), ("positive", ("_upper_bound",)), ("negative", ("_lower_bound",))):
        trd = ctx.trace("CUSUM", "update", assume={"_drift_state": None, "direction": d}, nonnull=NN)
        ds = [e for e in trd.stores("_drift_state") if e.value == const("drift")]
        ctx.ob("ROLE", "CUSUM.update", "drift store for direction=%r" % (d,), len(ds) == 1, "found %d" % len(ds))
        for e in ds:
            got = set()
            okform = True
            for g in guards(e):
                for x in q.disjuncts(g):
                    c = q.is_cmp(x)
                    if c is None or not T.mentions(x, lambda a: a == ("attr", "threshold")):
                        continue
                    # (list[ssr] - threshold > 0)
                    rest = c[2] + thr
                    ra = rest.single_atom()
                    if c[1] == ">" and ra is not None and ra[0] == "sub" and T.same(ra[2], ssr):
                        got.add(_root_attr(ra[1]))
                    else:
                        okform = False
            if not ctx.anchor("CUSUM.update", "the alarm test compares list elements at the current index with the threshold (direction=%r)" % (d,), bool(got) or not okform,
                              "; ".join(q.short(g, 80) for g in guards(e))[:300], e):
                continue
            ctx.ob("TAB-direction", "CUSUM.update", "direction=%r tests %s" % (d, "/".join(want)), okform and got == set(want),
                   "the alarm for direction %r must test exactly %s at index samples_since_reset against threshold with '>' (found %s)" % (d, want, sorted(map(str, got))), e)
            ctx.ob("GRD", "CUSUM.update", "direction=%r alarm after burn-in" % (d,), q.has_guard(e, S("s > A_burn_in", {"s": ssr})), "", e)
    # ---- estimation from the first burn_in observations (target unknown)
    trn = ctx.trace("CUSUM", "update", assume={"_drift_state": None, "target": None}, nonnull=("X",))
    st = trn.stores("target")
    sd = trn.stores("sd_hat")
    ctx.ob("ROLE", "CUSUM.update", "target/sd estimated when unknown", len(st) == 1 and len(sd) == 1, "")
    stream1 = atom(("appended", A("_stream"), q.validated(trn, 0)))
    for e, fn in ((st[0] if st else None, "numpy.mean"), (sd[0] if sd else None, "numpy.std")):
        if e is None:
            continue
        a = e.value.single_atom()
        ok = a is not None and a[0] == "call" and a[1] == fn and a[2] and a[2][0] == stream1
        ctx.ob("FRM", "CUSUM.update", "%s of the whole stream so far" % fn, ok, q.short(e.value, 120), e)
        ctx.ob("GRD", "CUSUM.update", "estimate exactly at samples_since_reset == burn_in", q.has_guard(e, S("s == A_burn_in", {"s": ssr})), "", e)
    # while unknown and before burn_in both statistics are 0
    for attr in ("_upper_bound", "_lower_bound"):
        z = [e for e in appends(trn, attr) if e.value.single_atom()[1][0] == const(0)]
        ok = bool(z) and all(q.has_guard(e, S("s < A_burn_in", {"s": ssr})) for e in z)
        ctx.ob("GRD", "CUSUM.update", "%s held at 0 until the estimate exists" % attr, ok, "", z[0] if z else None)
        # append discipline: exactly one append on every feasible path
        fv = trn.final.attrs.get(attr)
        bad = []
        # invariant: while the target is unknown the epoch is at most burn_in samples old
        # (the estimate is made at samples_since_reset == burn_in)
        inv = S("s <= A_burn_in", {"s": ssr})
        for conds, n in _append_depths(fv, attr, ()):
            if not q.feasible(tuple(conds) + (inv,)):
                continue
            if n != 1:
                bad.append((n, [q.short(c, 50) for c in conds]))
        ctx.ob("MC-append", "CUSUM.update", "%s grows by exactly one element per update" % attr, not bad,
               "so that [samples_since_reset] is the value just appended and [samples_since_reset - 1] the previous one; offending paths: %s" % bad[:2])
    # reset restarts both lists at [0]
    trr = ctx.trace("CUSUM", "reset")
    for attr in ("_upper_bound", "_lower_bound"):
        v = trr.final.attrs.get(attr)
        a = v.single_atom() if v is not None else None
        ctx.ob("AGREE", "CUSUM.reset", "%s restarts at [0]" % attr, a is not None and a[0] == "list" and a[1] == (const(0),), "")
    # sd == 0 is an error only after burn-in
    rz = [e for e in tr.raises() if e.func.qualname.startswith("CUSUM.") and q.stack_has(e, "CUSUM.update") and any(T.mentions(g, lambda a: a == ("attr", "sd_hat")) for g in guards(e))]
    ctx.ob("GRD", "CUSUM.update", "zero standard deviation raises only after burn-in", bool(rz) and all(q.has_guard(e, S("s > A_burn_in", {"s": ssr})) for e in rz), "")
    ctx.ob("GRD", "CUSUM.update", "the degenerate-stream error is raised exactly when the standard deviation is 0",
           bool(rz) and all(q.has_guard(e, T.mk_cmp("==", A("sd_hat"), const(0))) for e in rz),
           "guards: %s" % "; ".join(q.short(g, 80) for e in rz[:1] for g in guards(e)), rz[0] if rz else None)


def _flat(conds):
    out = []
    for c in conds:
        out.extend(q.conjuncts(c))
    return out


def _append_depths(t, attr, conds):
    """(conditions, number of appends) for every way the list term can be built."""
    a = t.single_atom()
    if a is None:
        yield conds, -1
    elif a[0] == "ite":
        yield from _append_depths(a[2], attr, conds + (a[1],))
        yield from _append_depths(a[3], attr, conds + (T.mk_not(a[1]),))
    elif a[0] == "appended":
        for c, n in _append_depths(a[1], attr, conds):
            yield c, (n + 1 if n >= 0 else n)
    elif a == ("attr", attr):
        yield conds, 0
    else:
        yield conds, -1


def page_hinkley(ctx):
    ssr = A("_samples_since_reset") + const(1)
    for d in ("positive", "negative"):
        tr = ctx.trace("PageHinkley", "update", assume={"_drift_state": None, "direction": d}, nonnull=("X",))
        xv = q.validated(tr, 0)
        ctx.require(xv is not None, "PageHinkley.update validates its input")
        env = {"x": xv, "n": ssr}
        m1 = S("A__mean + (x - A__mean) / n", env)
        s1 = S("A__sum + x - m1 - A_delta", dict(env, m1=m1))
        mn1 = T.mk_ite(T.mk_cmp("<", s1, A("_min")), s1, A("_min"))
        mx1 = T.mk_ite(T.mk_cmp(">", s1, A("_max")), s1, A("_max"))
        fin = tr.final.attrs
        site = "PageHinkley.update"
        ctx.ob("FRM", site, "running mean (direction=%s)" % d, "_mean" in fin and T.same(fin["_mean"], m1), q.short(fin.get("_mean", const(0)), 160))
        ctx.ob("FRM", site, "cumulative sum uses the updated mean (direction=%s)" % d, "_sum" in fin and T.same(fin["_sum"], s1), q.short(fin.get("_sum", const(0)), 200))
        # the extremes: the documented update, or one that agrees with it whenever min <= max (both start at 0, the minimum only
        # decreases and the maximum only increases, so min <= max holds at every call: established below by cells)
        cells = None
        if fin.get("_min") is not None and fin.get("_max") is not None and (fin.get("_min") != mn1 or fin.get("_max") != mx1):
            cells = _ph_cells(ctx, [fin["_min"], fin["_max"], mn1, mx1, s1, m1], s1)
        def _agree(got, want_):
            if got is None:
                return False
            if got == want_:
                return True
            if not cells:
                return False
            try:
                return all(q.eval_cell(got, env_) == q.eval_cell(want_, env_) for env_ in cells)
            except q.Undecided:
                return False
        ctx.ob("FRM", site, "running minimum (direction=%s)" % d, _agree(fin.get("_min"), mn1), q.short(fin.get("_min", const(0)), 200))
        ctx.ob("FRM", site, "running maximum (direction=%s)" % d, _agree(fin.get("_max"), mx1), q.short(fin.get("_max", const(0)), 200))
        ph = (s1 - mn1) if d == "positive" else (mx1 - s1)
        want = T.mk_cmp(">", ph, A("threshold") * m1)
        ds = [e for e in tr.stores("_drift_state") if e.value == const("drift")]
        ctx.ob("ROLE", site, "drift store (direction=%s)" % d, len(ds) == 1, "found %d" % len(ds))
        for e in ds:
            ok = any(_same_pred(g, want) for g in guards(e))
            if not ok and cells:
                for g in guards(e):
                    if q.is_cmp(g) is None or not T.mentions(g, lambda z: z == ("attr", "threshold")):
                        continue
                    try:
                        cs = _ph_cells(ctx, [g, want, s1, m1], s1)
                        if cs and all(bool(q.eval_cell(g, env_)) == bool(q.eval_cell(want, env_)) for env_ in cs):
                            ok = True
                    except q.Undecided:
                        pass
            ctx.ob("TAB-direction", site, "direction=%s: alarm iff %s > threshold*mean" % (d, "sum-min" if d == "positive" else "max-sum"), ok,
                   "guards: %s" % "; ".join(q.short(g, 100) for g in guards(e)[-3:]), e)
            ctx.ob("GRD", site, "alarm only after burn-in (direction=%s)" % d, q.has_guard(e, S("s > A_burn_in", {"s": ssr})), "", e)
        ctx.ob("TNT-obs", site, "statistics use the observation of this call (direction=%s)" % d,
               T.mentions(fin["_sum"], lambda a: a == ("param", "X")), "")


def _cell_atoms(t, acc):
    """the atoms a cell must give a value to: those of the polynomial parts, looking through gated phis and boolean structure"""
    for part in (t.num, t.den):
        for m, _c in part:
            for x, _pw in m:
                k = x[0]
                if k == "const":
                    continue
                if k == "ite":
                    for y in x[1:4]:
                        _cell_atoms(y, acc)
                elif k == "cmp":
                    _cell_atoms(x[2], acc)
                elif k in ("and", "or"):
                    for y in x[1]:
                        _cell_atoms(y, acc)
                elif k == "not":
                    _cell_atoms(x[1], acc)
                elif k == "call" and x[1] in ("max", "min") and not x[3]:
                    for y in x[2]:
                        _cell_atoms(y, acc)
                else:
                    acc.add(x)


def _ph_cells(ctx, terms, s1):
    """Environments (atom -> number) that realise every ordering of (this call's cumulative sum, _min, _max) with _min <= _max,
    at three settings of the other quantities; None when the base of the invariant (reset leaves _min = _max) does not hold.
    Comparisons between these three values are all the extremes' update looks at, so a finite set of orderings decides it."""
    from fractions import Fraction as F
    tr0 = ctx.trace("PageHinkley", "reset")
    at = tr0.final.attrs if tr0.final is not None else {}
    if at.get("_min") is None or at.get("_min") != at.get("_max") or not T.is_pure_const(at["_min"]):
        return None
    acc = set()
    for t in terms:
        _cell_atoms(t, acc)
    special = {("attr", "_sum"), ("attr", "_min"), ("attr", "_max")}
    others = sorted((a for a in acc if a not in special), key=T.akey)
    grid = [F(-1), F(-1, 2), F(0), F(1, 2), F(1)]
    out = []
    for k, (base_, step) in enumerate(((F(0), F(0)), (F(1), F(1, 2)), (F(-2), F(1, 4)))):
        env0 = {}
        for i, a in enumerate(others):
            if a == ("attr", "_samples_since_reset"):
                env0[a] = k            # n = 1, 2, 3
            elif a == ("attr", "threshold"):
                env0[a] = (F(1), F(2), F(1, 2))[k]
            elif a == ("attr", "delta"):
                env0[a] = (F(0), F(3, 4), F(7, 4))[k]   # not multiples of the grid step: a threshold shifted by delta shows
            else:
                env0[a] = base_ + step * (i % 3) if k else F(1)
        off = q.eval_cell(s1 - A("_sum"), env0)      # s1 = _sum + (x - mean' - delta): linear in _sum
        for s in grid:
            for lo in grid:
                for hi in grid:
                    if lo <= hi:
                        env = dict(env0)
                        env[("attr", "_sum")] = s - off
                        env[("attr", "_min")] = lo
                        env[("attr", "_max")] = hi
                        out.append(env)
    return out


def _same_pred(g, want):
    if g == want:
        return True
    a, b = q.is_cmp(g), q.is_cmp(want)
    if a is None or b is None or a[1] != b[1]:
        return False
    return T.same(_unite(a[2]), _unite(b[2]))


def _unite(t):
    return t
