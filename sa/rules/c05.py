"""C05 - DDM, EDDM, STEPD: indicator polarity, running statistics, decision chains."""
from .. import terms as T
from ..terms import const, atom
from .. import q
from ..q import A, S, guards
from . import c01, common

NN = ("y_true", "y_pred")


def indicator(tr):
    """The int(<label comparison>) term of the update and the comparison's operator."""
    for e in tr.calls(lambda e: e.callee == ("lib", "int")):
        c = q.is_cmp(e.args[0]) if e.args else None
        if c is not None and T.mentions(e.args[0], lambda a: a == ("param", "y_true")) and T.mentions(e.args[0], lambda a: a == ("param", "y_pred")):
            return e.result, c[1], e
    return None, None, None


def state_store(tr, value):
    return [ev for ev in tr.stores("_drift_state") if ev.value == const(value)]


def need_guards(ctx, site, tr, value, specs, what):
    evs = state_store(tr, value)
    ctx.ob("ROLE", site, "store of %r exists" % (value,), len(evs) >= 1, "")
    for ev in evs:
        missing = q.guard_set_implies(ev, specs)
        ctx.ob("GRD-chain", site, what, not missing, "missing guard(s): " + "; ".join(q.short(m, 140) for m in missing), c01._site_pc_ev(tr, ev))


def run(ctx):
    ctx.explanation = (
        "indicator polarity (which of ==/!= feeds which statistic), formula conformance of the running statistics of DDM, EDDM and "
        "STEPD on the value-numbered update(), guard sets of every store of drift / warning / None (decision chain with its "
        "operators), STEPD window conservation and accessors, retraining_recs bookkeeping of the three detectors")
    ctx.assumptions += ["real arithmetic", "DDM thresholds use the current standard deviation as implemented (pinned by the suite); only 'scaled thresholds' is required"]
    ddm(ctx)
    eddm(ctx)
    stepd(ctx)
    c01.clause_recs_for(ctx, ["DDM", "EDDM", "STEPD"])
    # the statement ranges over multiple epochs: prologue, counting, clean slate, constructor wiring, starting values
    common.lifecycle(ctx, ["DDM", "EDDM", "STEPD"], recs=["DDM", "EDDM"])
    common.recs_table_stepd(ctx, NN)
    inf = const(float("inf"))
    common.init_table(ctx, "DDM", {"_error_rate": 0, "_error_std": 0, "_error_rate_min": inf, "_error_std_min": inf})
    common.init_table(ctx, "EDDM", {"_n_errors": 0, "_index_error_curr": 0, "_dist_mean": 0, "_dist_std": 0, "_max_numerator": 0})
    common.init_table(ctx, "STEPD", {"_s": 0, "_r": 0, "_window": atom(("list", ()))})


def ddm(ctx):
    site = "DDM.update"
    tr = ctx.trace("DDM", "update", assume={"_drift_state": None}, nonnull=NN)
    e, op, iev = indicator(tr)
    ctx.require(e is not None, "DDM.update computes int(<label comparison>)")
    common.labels_extracted(ctx, "DDM", tr, q.is_cmp(iev.args[0]))
    ctx.ob("POLARITY", site, "DDM indicator is the error indicator (y_pred != y_true)", op == "!=", "operator %s" % op, iev)
    n = A("_samples_since_reset") + const(1)
    env = {"e": e, "n": n}
    p1 = S("A__error_rate + (e - A__error_rate) / n", env)
    s1 = S("sqrt((A__error_std + (e - p1) * (e - A__error_rate)) / n)", dict(env, p1=p1))
    st = {x.attr: x for x in tr.stores() if q.stack_has(x, site)}
    fin_rate = [x for x in tr.stores("_error_rate")]
    ctx.ob("FRM", site, "running error rate", bool(fin_rate) and T.same(fin_rate[-1].value, p1), q.short(fin_rate[-1].value, 160) if fin_rate else "", fin_rate[-1] if fin_rate else None)
    fin_std = [x for x in tr.stores("_error_std")]
    ctx.ob("FRM", site, "running standard deviation", bool(fin_std) and fin_std[-1].value == s1 or (bool(fin_std) and _same_sqrt(fin_std[-1].value, s1)),
           q.short(fin_std[-1].value, 200) if fin_std else "", fin_std[-1] if fin_std else None)
    # minimum tracking
    cmin = T.mk_cmp("<=", p1 + s1, A("_error_rate_min") + A("_error_std_min"))
    for attr, val in (("_error_rate_min", p1), ("_error_std_min", s1)):
        evs = tr.stores(attr)
        ok = len(evs) == 1 and (T.same(evs[0].value, val) or _same_sqrt(evs[0].value, val)) and q.has_guard(evs[0], cmin)
        ctx.ob("FRM", site, "minimum pair replaced when p+s <= p_min+s_min (%s)" % attr, ok, "", evs[0] if evs else None)
    pmin1 = T.mk_ite(cmin, p1, A("_error_rate_min"))
    warm = S("n >= A_n_threshold", {"n": n})
    cd = T.mk_cmp(">=", p1 + s1, pmin1 + A("drift_scale") * s1)
    cw = T.mk_cmp(">=", p1 + s1, pmin1 + A("warning_scale") * s1)
    need_guards(ctx, site, tr, "drift", [warm, cd], "drift iff p+s >= p_min + drift_scale*s after n_threshold samples")
    need_guards(ctx, site, tr, "warning", [warm, T.mk_not(cd), cw], "warning iff not drift and p+s >= p_min + warning_scale*s")
    nn = [x for x in tr.stores("_drift_state") if x.value == T.NONE]
    ctx.ob("ROLE", site, "else branch stores None", len(nn) >= 1, "")
    for x in nn:
        missing = q.guard_set_implies(x, [warm, T.mk_not(cd), T.mk_not(cw)])
        ctx.ob("GRD-chain", site, "None iff neither test holds", not missing, "; ".join(q.short(m, 100) for m in missing), c01._site_pc_ev(tr, x))


def _same_sqrt(a, b):
    aa, bb = a.single_atom(), b.single_atom()
    if aa is None or bb is None:
        return T.same(a, b)
    if aa[0] == "call" and bb[0] == "call" and aa[1] == bb[1] == "sqrt":
        return T.same(aa[2][0], bb[2][0])
    return a == b


def eddm(ctx):
    site = "EDDM.update"
    tr = ctx.trace("EDDM", "update", assume={"_drift_state": None}, nonnull=NN)
    e, op, iev = indicator(tr)
    ctx.require(e is not None, "EDDM.update computes int(<label comparison>)")
    common.labels_extracted(ctx, "EDDM", tr, q.is_cmp(iev.args[0]))
    ctx.ob("POLARITY", site, "EDDM indicator is the correctness indicator (y_pred == y_true)", op == "==", "operator %s" % op, iev)
    err = T.mk_not(e)
    k = A("_n_errors") + const(1)
    n = A("_samples_since_reset") + const(1)
    # every statistic store of the error block is under `not indicator`
    blk = [x for x in tr.stores() if x.attr in ("_n_errors", "_index_error_curr", "_index_error_last", "_dist_mean", "_dist_std")]
    ctx.anchor(site, "error block stores exist", len(blk) >= 6, "found %d" % len(blk))
    for x in blk:
        ctx.ob("POLARITY", site, "store %s happens only for a misclassified sample" % x.attr, q.has_guard(x, err), "", x)
    last = {}
    for x in tr.stores():
        last[x.attr] = x
    curr = n - const(1)
    dist = curr - A("_index_error_curr")
    env = {"d": dist, "k": k}
    m1 = S("A__dist_mean + (d - A__dist_mean) / k", env)
    s1 = S("sqrt((A__dist_std + (d - m1) * (d - A__dist_mean)) / k)", dict(env, m1=m1))
    ctx.ob("FRM", site, "error count", "_n_errors" in last and T.same(last["_n_errors"].value, k), "", last.get("_n_errors"))
    ctx.ob("FRM", site, "index of the current error = samples_since_reset - 1", "_index_error_curr" in last and T.same(last["_index_error_curr"].value, curr),
           q.short(last["_index_error_curr"].value, 80) if "_index_error_curr" in last else "", last.get("_index_error_curr"))
    ctx.ob("FRM", site, "previous error index remembered", "_index_error_last" in last and last["_index_error_last"].value == A("_index_error_curr"), "", last.get("_index_error_last"))
    ctx.ob("FRM", site, "running mean distance", "_dist_mean" in last and T.same(last["_dist_mean"].value, m1), q.short(last["_dist_mean"].value, 200) if "_dist_mean" in last else "", last.get("_dist_mean"))
    ctx.ob("FRM", site, "running std of the distance", "_dist_std" in last and _same_sqrt(last["_dist_std"].value, s1), q.short(last["_dist_std"].value, 200) if "_dist_std" in last else "", last.get("_dist_std"))
    num = m1 + const(2) * s1
    cmax = T.mk_cmp("<", A("_max_numerator"), num)
    mx = tr.stores("_max_numerator")
    # compare-and-assign, max(old, new) and a conditional expression share one normal form: decide on the value the attribute ends with
    want_max = T.mk_ite(cmax, num, A("_max_numerator"))
    fin_max = tr.final.attrs.get("_max_numerator") if tr.final is not None else None
    leaves_max = [l for _c, l in q.ite_leaves(fin_max)] if fin_max is not None else []
    okm = len(mx) == 1 and any(l == want_max or T.same(l, want_max) for l in leaves_max) and all(l == A("_max_numerator") or l == want_max or T.same(l, want_max) for l in leaves_max)
    ctx.ob("FRM", site, "running maximum of mean + 2*std", okm, q.short(fin_max, 160) if fin_max is not None else "", mx[0] if mx else None)
    max1 = T.mk_ite(cmax, num, A("_max_numerator"))
    ts = tr.stores("_test_statistic")
    ctx.ob("FRM", site, "statistic = (mean + 2 std) / running maximum", len(ts) == 1 and T.same(ts[0].value, num / max1), q.short(ts[0].value, 160) if ts else "", ts[0] if ts else None)
    warm = S("k >= A_n_threshold", {"k": k})
    stat = num / max1
    cd = T.mk_cmp("<=", stat, A("drift_thresh"))
    cw = T.mk_cmp("<=", stat, A("warning_thresh"))
    need_guards(ctx, site, tr, "drift", [err, warm, cd], "drift iff statistic <= drift_thresh after n_threshold errors")
    need_guards(ctx, site, tr, "warning", [err, warm, T.mk_not(cd), cw], "warning iff not drift and statistic <= warning_thresh")
    nn = [x for x in tr.stores("_drift_state") if x.value == T.NONE]
    ctx.ob("ROLE", site, "else branch stores None", len(nn) >= 1, "")
    for x in nn:
        missing = q.guard_set_implies(x, [T.mk_not(cd), T.mk_not(cw)])
        ctx.ob("GRD-chain", site, "None iff neither test holds", not missing, "", c01._site_pc_ev(tr, x))


def stepd(ctx):
    site = "STEPD.update"
    tr = ctx.trace("STEPD", "update", assume={"_drift_state": None}, nonnull=NN)
    e, op, iev = indicator(tr)
    ctx.require(e is not None, "STEPD.update computes int(<label comparison>)")
    common.labels_extracted(ctx, "STEPD", tr, q.is_cmp(iev.args[0]))
    ctx.ob("POLARITY", site, "STEPD indicator is the correctness indicator (y_pred == y_true)", op == "==", "operator %s" % op, iev)
    n = A("_samples_since_reset") + const(1)
    w = A("window_size")
    win1 = atom(("appended", A("_window"), e))
    s_st = tr.stores("_s")
    ctx.ob("FRM", site, "recent-correct count gains the new indicator", bool(s_st) and T.same(s_st[0].value, A("_s") + e), "", s_st[0] if s_st else None)
    # window conservation
    full = T.mk_cmp(">", atom(("call", "len", (win1,), ())), w)
    old = atom(("sub", win1, const(0)))
    ok_s = len(s_st) == 2 and T.same(s_st[1].value, A("_s") + e - old) and q.has_guard(s_st[1], full)
    r_st = tr.stores("_r")
    ok_r = len(r_st) == 1 and T.same(r_st[0].value, A("_r") + old) and q.has_guard(r_st[0], full)
    w_st = tr.stores("_window")
    ok_w = len(w_st) == 1 and w_st[0].value == atom(("sub", win1, atom(("slice", const(1), T.NONE, T.NONE)))) and q.has_guard(w_st[0], full)
    ctx.ob("PAIR", site, "oldest window element leaves _s", ok_s, "", s_st[1] if len(s_st) > 1 else None)
    ctx.ob("PAIR", site, "the same element enters _r", ok_r, "", r_st[0] if r_st else None)
    ctx.ob("PAIR", site, "and is dropped from the window (when longer than window_size)", ok_w, "", w_st[0] if w_st else None)
    # accessors
    for name, spec_num, spec_den in (("recent_accuracy", "A__s", "ln"), ("past_accuracy", "A__r", "A__samples_since_reset - ln"),
                                     ("overall_accuracy", "A__r + A__s", "A__samples_since_reset")):
        ta = ctx.trace("STEPD", name)
        ln = atom(("call", "len", (A("_window"),), ()))
        num, den = S(spec_num, {"ln": ln}), S(spec_den, {"ln": ln})
        want = T.mk_ite(T.mk_cmp("==", den, const(0)), const(0), num / den)
        ctx.ob("FRM", "STEPD." + name, "accessor formula", ta.retval is not None and (ta.retval == want or _ite_same(ta.retval, want)), q.short(ta.retval, 160))
    # statistic with the accessor values as symbols (the values returned by the three accessor methods)
    vals = {}
    for ce in tr.calls():
        fi = ce.d.get("fi")
        if fi is not None and fi.name in ("recent_accuracy", "past_accuracy", "overall_accuracy") and fi.name not in vals:  # in update itself or in a helper it calls
            rets = []
            for x in tr.events[ce.seq + 1:]:
                if x.kind == "exit" and x.d.get("fi") is fi:
                    break
                if x.kind == "return" and x.func is fi:
                    rets.append(x)
            if rets:
                v = rets[-1].value
                for r_ in reversed(rets[:-1]):
                    v = T.mk_ite(T.mk_and([p.cond for p in r_.pc[len(ce.pc):]]), r_.value, v)
                vals[fi.name] = v
    if not ctx.anchor(site, "STEPD.update reads its three accuracies through the accessor methods", len(vals) == 3):
        return
    ts = tr.stores("_test_statistic")
    ctx.anchor(site, "test statistic stored", len(ts) == 1, "")
    sym = {k: atom(("sym", k)) for k in vals}
    if ts:
        v = ts[0].value
        for k in ("recent_accuracy", "past_accuracy", "overall_accuracy"):
            v = q.replace_term(v, vals[k], sym[k])
        env = {"past": sym["past_accuracy"], "recent": sym["recent_accuracy"], "ov": sym["overall_accuracy"], "n": n, "w": w}
        spec = S("(abs(past - recent) - 0.5 * (1 / (n - w) + 1 / w)) / sqrt(ov * (1 - ov) * (1 / (n - w) + 1 / w))", env)
        ctx.ob("FRM", site, "continuity-corrected two-proportion statistic", _same_quot(v, spec), "computed %s" % q.short(v, 300), ts[0])
        ctx.ob("GRD", site, "test runs once two windows are available", q.has_guard(ts[0], S("n >= 2 * w", env)), "", ts[0])
    tp = tr.stores("_test_p")
    okp = False
    if tp and ts:
        a = (const(1) - tp[0].value).single_atom()
        okp = a is not None and a[0] == "call" and a[1] == "scipy.stats.norm.cdf" and a[2][0] == ts[0].value and tuple(a[2][1:]) in ((const(0), const(1)), ())
    ctx.ob("FRM", site, "one-sided p-value 1 - Phi(T)", okp, q.short(tp[0].value, 100) if tp else "", tp[0] if tp else None)
    if tp:
        p = tp[0].value
        dec = T.mk_cmp(">", vals["past_accuracy"], vals["recent_accuracy"])
        cd = T.mk_cmp("<", p, A("alpha_drift"))
        cw = T.mk_cmp("<", p, A("alpha_warning"))
        warm = S("n >= 2 * w", {"n": n, "w": w})
        need_guards(ctx, site, tr, "drift", [warm, dec, cd], "drift iff accuracy decreased and p < alpha_drift")
        need_guards(ctx, site, tr, "warning", [warm, dec, cw], "warning iff accuracy decreased and p < alpha_warning (and not drift)")
        for ev in state_store(tr, "warning"):
            g = guards(c01._site_pc_ev(tr, ev))
            neg = T.mk_not(T.mk_and([dec, cd]))
            ok = any(x == neg for x in g) or any(q.pred_equiv(x, T.mk_not(cd)) for x in g)
            ctx.ob("GRD-chain", site, "warning only when the drift test failed", ok, "", c01._site_pc_ev(tr, ev))
        nn = [x for x in tr.stores("_drift_state") if x.value == T.NONE]
        ctx.ob("ROLE", site, "else branch stores None", len(nn) >= 1, "")


def _ite_same(a, b):
    aa, bb = a.single_atom(), b.single_atom()
    if aa is None or bb is None or aa[0] != "ite" or bb[0] != "ite":
        return T.same(a, b)
    return (aa[1] == bb[1] or q.cmp_equiv(aa[1], bb[1])) and T.same(aa[2], bb[2]) and T.same(aa[3], bb[3])


def _same_quot(v, spec):
    """num/sqrt(den) forms: compare numerators and radicands separately."""
    if T.same(v, spec):
        return True
    def split(t):
        sq = [a for a in t.atoms() if a[0] == "call" and a[1] == "sqrt"]
        if len(sq) != 1:
            return None
        s = atom(sq[0])
        return t * s, sq[0][2][0]
    a, b = split(v), split(spec)
    if a is None or b is None:
        return False
    return T.same(a[0], b[0]) and T.same(a[1], b[1])
