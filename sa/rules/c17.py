"""C17 - a stricter threshold never alarms earlier; loosening the warning threshold changes nothing else."""
from fractions import Fraction
from .. import terms as T
from ..terms import const, atom
from .. import q
from ..q import A, P, S, guards
from ..evalr import Evaluator
from .. import polarity as Pol
from .. import libtable as L
from ..loader import AnalysisError
from . import c01
from .c01 import NONNULL, HDM
from .c02 import _root_attr

# (class, parameter, stricter direction of the parameter, extra cell)
DRIFT = [
    ("ADWIN", "delta", -1, {}), ("ADWINAccuracy", "delta", -1, {}),
    ("CUSUM", "threshold", +1, {"direction": None}), ("CUSUM", "threshold", +1, {"direction": "positive"}), ("CUSUM", "threshold", +1, {"direction": "negative"}),
    ("PageHinkley", "threshold", +1, {"direction": "positive"}), ("PageHinkley", "threshold", +1, {"direction": "negative"}),
    ("DDM", "drift_scale", +1, {}), ("EDDM", "drift_thresh", -1, {}), ("STEPD", "alpha_drift", -1, {}),
    ("LinearFourRates", "detect_level", -1, {"parallelize": False}),
    ("KdqTreeStreaming", "alpha", -1, {}), ("KdqTreeBatch", "alpha", -1, {}), ("NNDVI", "alpha", -1, {}),
    ("HDDDM", "significance", -1, {"statistic": "tstat", "detect_batch": 3}), ("HDDDM", "significance", +1, {"statistic": "stdev", "detect_batch": 3}),
    ("CDBD", "significance", -1, {"statistic": "tstat", "detect_batch": 3}), ("CDBD", "significance", +1, {"statistic": "stdev", "detect_batch": 3}),
    ("HDDDM", "significance", -1, {"statistic": "tstat", "detect_batch": 1}), ("HDDDM", "significance", +1, {"statistic": "stdev", "detect_batch": 1}),
]
# (class, warning parameter, looser direction, drift parameter)
WARN = [("DDM", "warning_scale", -1, "drift_scale"), ("EDDM", "warning_thresh", +1, "drift_thresh"),
        ("STEPD", "alpha_warning", +1, "alpha_drift"), ("LinearFourRates", "warning_level", +1, "detect_level")]

# attributes that carry the threshold between calls (and reach only guards)
CARRIERS = {"KdqTreeStreaming": {"_critical_dist"}, "KdqTreeBatch": {"_critical_dist"}, "LinearFourRates": {"_bounds"},
            "HDDDM": {"beta"}, "CDBD": {"beta"}}
# write-only logs and decision outputs
LOGS = {"thresholds", "_theta_threshold", "_drift_detected", "all_drift_states", "_warning_states", "_alarm_states", "_retraining_recs",
        "_test_statistic", "_test_p", "feature_info"}
# parameter-influenced state admitted by the monotone-transition argument (DESIGN C17)
MONOTONE_STATE = {"KdqTreeStreaming": {"_drift_counter"}}


_LOGCACHE = {}


def _pure_log(tr, attr):
    """Is self.<attr> write-only for update(): no guard, no value stored into another attribute and no returned value
    mentions it?  (A history list whichever way it is organised - eight parallel lists, one list of rows, a dict of lists.)"""
    k = (id(tr), attr)
    if len(_LOGCACHE) > 512:
        _LOGCACHE.clear()
    if k in _LOGCACHE and _LOGCACHE[k][0] is tr:
        return _LOGCACHE[k][1]
    m = lambda a: a == ("attr", attr) or (a[0] == "loopvar" and a[2] == attr)
    ok = True
    for e in tr.events:
        if any(T.mentions(p.cond, m) for p in e.pc[-1:]):
            ok = False
        elif e.kind in ("store", "mutate") and e.attr != attr and isinstance(e.d.get("value"), T.R) and T.mentions(e.value, m):
            ok = False
        elif e.kind in ("return",) and isinstance(e.d.get("value"), T.R) and len(e.stack) == 1 and T.mentions(e.value, m):
            ok = False
        if not ok:
            break
    _LOGCACHE[k] = (tr, ok)
    return ok


def _is_negation_of(c, conj):
    """Is condition c equivalent to not(d1 and d2 and ...)?  Proved by cases (q.dnf / q.feasible, which answer "feasible" when
    unsure, so a failure to prove it is possible and a wrong "yes" is not): c together with all of the d's is impossible, and
    wherever c fails every d holds.  This recognises `not a or (a and not b)` - what an early `return` inside `if a: if b:` leaves
    on the path - as the negation of `a and b`."""
    if not conj:
        return False
    for case in q.dnf([c] + list(conj)):
        if q.feasible(case):
            return False
    for case in q.dnf([T.mk_not(c)]):
        if not q.feasible(case):
            continue
        for d in conj:
            for dcase in q.dnf([T.mk_not(d)]):
                if q.feasible(list(case) + list(dcase)):
                    return False
    return True


def lab(cell):
    return ",".join("%s=%r" % kv for kv in sorted(cell.items()))


def run(ctx):
    ctx.trusted.append("monotone library functions: sa/libtable.py MONOTONE (%s)" % L.VERSIONS)
    ctx.explanation = (
        "for every (detector, threshold parameter): non-interference (the parameter reaches only drift/warning guards, threshold carriers and "
        "write-only logs; no statistic, no RNG argument) and polarity (each drift guard is monotone in the parameter in the documented "
        "direction, by a structural monotonicity / sign calculus with a table of monotone library functions); warning parameters do not "
        "occur in drift guards, warning guards are monotone, and the statistics of an update do not depend on a previous 'warning' state")
    for cname, p, strict, cell in DRIFT:
        drift_param(ctx, cname, p, strict, cell)
    for cname, p, loose, dp in WARN:
        warn_param(ctx, cname, p, loose, dp)
    adwin_epsilon(ctx)
    wiring(ctx)
    ctx.assumptions += sorted(set(ASSUMED))


def wiring(ctx):
    """'The same detector with a stricter threshold': the threshold the guards read is the constructor argument itself - every
    value the caller may pass, including falsy ones such as 0, reaches the attribute unchanged (a remapping such as
    `threshold or default` makes the effective threshold non-monotone in the argument)."""
    seen = set()
    pairs = [(c_, p_) for c_, p_, _s, _cell in DRIFT] + [(c_, p_) for c_, p_, _l, _d in WARN] + [("ADWIN", "delta"), ("ADWINAccuracy", "delta")]
    for cname, p in pairs:
        if (cname, p) in seen:
            continue
        seen.add((cname, p))
        fi = ctx.prog.lookup(ctx.prog.cls(cname), "__init__")
        if p not in fi.params():
            raise AnalysisError("%s.__init__ has no parameter %s (threshold table out of date)" % (cname, p))
        tr = ctx.trace(cname, "__init__")
        v = tr.final.attrs.get(p) if tr.final is not None else None
        ctx.ob("FWD-init", cname + ".__init__", "the threshold attribute %s is the constructor argument itself" % p, v == P(p),
               "self.%s is %s after construction" % (p, q.short(v, 80) if v is not None else "unset"))


ASSUMED = []


def sign_env(ctx, cname):
    """Inferred signs: an attribute is >= 0 when every store to it (in __init__, reset, update) stores a value that is >= 0
    given that the attribute itself is (coinduction), e.g. sqrt(...), counts."""
    ci = ctx.prog.cls(cname)
    cand = {}
    traces = []
    for m in ("__init__", "reset", "update"):
        if ctx.prog.lookup(ci, m) is None:
            continue
        traces.append(ctx.trace(cname, m, nonnull=NONNULL.get(cname, ()) if m == "update" else ()))
    stores = {}
    for tr in traces:
        for e in tr.stores():
            stores.setdefault(e.attr, []).append(e.value)
    tot, since = q.counters(ctx.prog, ci)
    signs = {("attr", tot): 1, ("attr", since): 1}
    changed = True
    nonneg = set(stores)
    while changed:
        changed = False
        env = Pol.Env({("attr", a): 1 for a in nonneg} | signs)
        for a in list(nonneg):
            for v in stores[a]:
                ok = all(Pol.sign(l, env) in (0, 1) for _c, l in q.ite_leaves(v))
                if not ok:
                    nonneg.discard(a)
                    changed = True
                    break
    signs.update({("attr", a): 1 for a in nonneg})
    return signs


def carrier_monos(ctx, cname, p):
    monos = {}
    pa = ("attr", p)
    if cname in ("KdqTreeStreaming", "KdqTreeBatch"):
        tr = ctx.trace(cname, "_get_critical_kld")
        env = Pol.Env({pa: 1})  # documented: alpha is a significance level in (0, 1)
        m = Pol.mono(tr.retval, pa, env)
        monos[(("attr", "_critical_dist"), pa)] = m
        if env.wraps:
            monos["__wraps__"] = list(env.wraps)
    return monos


def lfr_bound_mono(ctx, key, pa):
    fi = ctx.prog.method("LinearFourRates", "_sim_bounds")
    tr = ctx.trace("LinearFourRates", "_sim_bounds")
    v = q.sub(tr.retval, const(key))
    # warning_level / detect_level are read into locals first: the term mentions the attribute
    return Pol.mono(v, pa, Pol.Env())


class LfrEnv(Pol.Env):
    def __init__(self, ctx, signs):
        super().__init__(signs)
        self.ctx = ctx

    def mono_of(self, a, p):
        if a[0] == "sub" and T.is_pure_const(a[2]) and T.const_py(a[2]) in ("lb_warn", "ub_warn", "lb_detect", "ub_detect") and _root_attr(_base(a[1])) == "_bounds":
            return lfr_bound_mono(self.ctx, T.const_py(a[2]), p)
        return None


def _base(t):
    a = t.single_atom()
    while a is not None and a[0] == "sub":
        t = a[1]
        a = t.single_atom()
    return t


def drift_stores(tr):
    return [e for e in tr.stores("_drift_state") if e.value == const("drift")]


def drift_param(ctx, cname, p, strict, cell):
    site = cname + ".update"
    L_ = "%s%s" % (p, (" [%s]" % lab(cell)) if cell else "")
    pa = ("attr", p)
    tr = ctx.trace(cname, "update", assume=dict({"_drift_state": None}, **cell), nonnull=NONNULL.get(cname, ("X",)))
    carriers = CARRIERS.get(cname, set())
    taint = {pa} | {("attr", c) for c in carriers}
    dstores = drift_stores(tr)
    ctx.ob("ROLE", site, "drift store exists (%s)" % L_, bool(dstores), "")
    dpcs = []
    for d in dstores:
        dpcs.append(c01._site_pc_ev(tr, d).pc)

    def under_decision(e):
        """Is every parameter-dependent guard of e one of the drift decision's own guards (or its negation)?"""
        for pc in e.pc:
            if not T.mentions(pc.cond, lambda a: a in taint):
                continue
            ok = False
            for dp in dpcs:
                for x in dp:
                    if x.cond == pc.cond or T.mk_not(x.cond) == pc.cond or _neg_of_conj(pc.cond, dp):
                        ok = True
                if not ok and _is_negation_of(pc.cond, [x.cond for x in dp if not any(x.cond == o.cond for o in e.pc if o is not pc)]):
                    ok = True   # relative to what the path of e shares with the decision anyway
            if not ok:
                return False
        return True

    def with_alarm(e):
        """Is e on a path on which the drift is stored as well (its guards contain every guard of some drift store)?  Only then
        may a statistic differ between a stricter and a looser run: the looser one alarms at that very update."""
        mine = [pc.cond for pc in e.pc]
        for dp in dpcs:
            if all(any(x.cond == m for m in mine) for x in dp):
                return True
        return False

    def no_alarm_as_a_whole(e):
        """Every parameter-dependent guard of e is the negation of the *whole* decision (`not (test and warm-up ...)`, or a test of
        the resulting state `!= 'drift'`): a path both a stricter and a looser run take whenever the looser one does not alarm."""
        for pc in e.pc:
            if not T.mentions(pc.cond, lambda a: a in taint):
                continue
            parts = q.conjuncts(T.mk_not(pc.cond))
            whole = any(_neg_of_conj(pc.cond, dp) and len(parts) >= 2 and
                        all(any(x.cond == pt or pt in q.conjuncts(x.cond) for pt in parts) for x in dp if T.mentions(x.cond, lambda a: a in taint)) and
                        any(not T.mentions(pt, lambda a: a in taint) for pt in parts) for dp in dpcs)
            state_test = T.mentions(pc.cond, lambda a: a == ("const", "drift")) and (q.is_cmp(pc.cond) or ("", ""))[1] == "!="
            if not (whole or state_test or any(_is_negation_of(pc.cond, [x.cond for x in dp if not any(x.cond == o.cond for o in e.pc if o is not pc)]) for dp in dpcs)):
                return False
        return True

    def decision_cond(c):
        for dp in dpcs:
            for x in dp:
                if x.cond == c or T.mk_not(x.cond) == c or c in q.conjuncts(x.cond) or T.mk_not(c) in q.conjuncts(x.cond):
                    return True
        return False

    def value_dep(v, pcs):
        """Does the value depend on the parameter other than through the drift decision?  Gated phis whose
        conditions are the decision's own guards are resolved against the guards of the store."""
        if not T.mentions(v, lambda a: a in taint):
            return False
        a = v.single_atom()
        if a is None or a[0] != "ite":
            # look inside applications (concat([ite(...), X]) ...)
            if a is not None and a[0] in ("call", "mcall", "list", "tuple", "getattr", "sub"):
                subs = [x for x in _children(a)]
                return any(value_dep(x, pcs) for x in subs)
            return True
        for conds, leaf in q.ite_leaves(v):
            cs = []
            for c_ in conds:
                cs.extend(q.conjuncts(c_))
            # infeasible under the store's guards?
            dead = False
            for p_ in pcs:
                negp = q.conjuncts(T.mk_not(p_.cond))
                if negp and all(any(n_ == c_ for c_ in cs) for n_ in negp):
                    dead = True
            if dead:
                continue
            if any(T.mentions(c_, lambda a_: a_ in taint) and not decision_cond(c_) for c_ in conds):
                return True
            if value_dep(leaf, pcs):
                return True
        return False

    # ---- non-interference
    bad = []
    for e in tr.events:
        if e.kind in ("store", "mutate"):
            dep_v = value_dep(e.value, e.pc)
            dep_c = any(T.mentions(pc.cond, lambda a: a in taint) for pc in e.pc)
            if not dep_v and not dep_c:
                continue
            if e.attr in LOGS or e.attr in carriers or e.attr == "_drift_state":
                continue
            if _pure_log(tr, e.attr):
                continue  # only ever appended to / overwritten: nothing update() decides or stores elsewhere reads it
            if not dep_v and under_decision(e) and (with_alarm(e) or no_alarm_as_a_whole(e)):
                continue
            if e.attr in MONOTONE_STATE.get(cname, ()):
                continue
            bad.append(e)
        elif e.kind == "loop" and e.iter is not None and T.mentions(e.iter, lambda a: a in taint):
            bad.append(e)
        elif e.kind == "call" and (e.callee in [("lib", c) for c in L.RNG_CALLS] or (e.callee[0] == "mcall" and e.callee[1] in L.RNG_METHODS)):
            ts = list(e.args) + [v for _k, v in e.kwargs]
            if any(T.mentions(t, lambda a: a in taint) for t in ts) or (any(T.mentions(pc.cond, lambda a: a in taint) for pc in e.pc) and not under_decision(e)):
                bad.append(e)
    seen = set()
    for e in bad:
        k = (e.func.qualname, e.d.get("attr", e.d.get("callee")))
        if k in seen:
            continue
        seen.add(k)
        what = ("statistic self.%s" % e.attr) if e.kind in ("store", "mutate") else ("the number of iterations of a loop" if e.kind == "loop" else "the random draw %s" % (e.callee[1],))
        ctx.ob("TNT-threshold", e.func.qualname, "%s reaches %s" % (p, what), False,
               "the threshold parameter must reach only the drift decision: two runs that differ in %s must see identical statistics and draws until the looser one alarms" % p, e)
    ctx.ob("TNT-threshold", site, "%s reaches only guards, threshold carriers and logs (%s)" % (p, L_), not bad, "")
    if cname in MONOTONE_STATE:
        monotone_state(ctx, cname, tr, taint)
    # ---- polarity of the decision
    signs = sign_env(ctx, cname)
    env = LfrEnv(ctx, signs) if cname == "LinearFourRates" else Pol.Env(signs, carrier_monos(ctx, cname, p))
    if cname in ("ADWIN", "ADWINAccuracy"):
        return  # decided on _check_epsilon itself (adwin_epsilon)
    for d in dstores:
        site_ev = c01._site_pc_ev(tr, d)
        parts = decision_parts(site_ev)
        if cname == "LinearFourRates":
            parts = [(e.value, 1) for e in tr.mutations("_alarm_states") if e.how == "setitem"]
        deps = [(g, s_) for g, s_ in parts if T.mentions(g, lambda a: a in taint)]
        ctx.ob("POL", site, "the drift decision depends on %s (%s)" % (p, L_), bool(deps), "", site_ev)
        for g, s_ in deps:
            polarity_ob(ctx, site, "drift", p, L_, g, s_, -strict, pa, env, carriers, site_ev, cname)


def decision_parts(ev):
    """The guards of an event as (term, +1/-1) pairs: +1 the term must hold, -1 it must fail.  Terms keep their
    source expression trees."""
    out = []
    def add(t, pol):
        a = t.single_atom()
        if a is not None and a[0] == "inloop":
            return
        if a is not None and a[0] == "and" and pol > 0:
            for x in a[1]:
                add(x, pol)
        elif a is not None and a[0] == "or" and pol < 0:
            for x in a[1]:
                add(x, pol)
        elif a is not None and a[0] == "not":
            add(a[1], -pol)
        else:
            out.append((t, pol))
    for p in ev.pc:
        add(p.raw, 1 if p.pol else -1)
    return out


def _children(a):
    for x in a[1:]:
        if isinstance(x, T.R):
            yield x
        elif isinstance(x, tuple):
            for y in x:
                if isinstance(y, T.R):
                    yield y
                elif isinstance(y, tuple):
                    for z in y:
                        if isinstance(z, T.R):
                            yield z


def _neg_of_conj(cond, dp):
    """cond is the negation of the conjunction of (some of) the decision's guards."""
    a = cond.single_atom()
    if a is None:
        return False
    want = [x.cond for x in dp]
    neg = T.mk_not(cond)
    parts = q.conjuncts(neg)
    return all(any(pt == w or pt in q.conjuncts(w) for w in want) for pt in parts)


def polarity_ob(ctx, site, kind, p, L_, g, s_, want, pa, env, carriers, site_ev, cname):
    env.blocked = []
    env.wraps = []
    ga = g.single_atom()
    if ga is not None and ga[0] in ("and", "or"):
        # a positive boolean combination is monotone iff its members are: judge them one by one
        for x in ga[1]:
            if T.mentions(x, lambda a: a == pa or a in {("attr", c_) for c_ in carriers}):
                polarity_ob(ctx, site, kind, p, L_, x, s_, want, pa, env, carriers, site_ev, cname)
        return
    m = _guard_mono(g, pa, env, carriers)
    m = None if m is None else m * s_
    what = "%s guard is %s in %s (%s)" % (kind, "non-increasing" if want < 0 else "non-decreasing", p, L_)
    if m == want:
        ctx.ob("POL", site, what, True, "monotone as documented; guard %s" % q.short(g, 160), site_ev)
        return
    if m is None and (getattr(env, "wraps", None) or env.monos.get("__wraps__")):
        w = (env.wraps or env.monos.get("__wraps__"))[0]
        ctx.ob("POL", site, what, False,
               "the bound is an order statistic %s whose index can be 0 as well as negative: sequence[-0] is the FIRST (smallest) element while -1 is the last, "
               "so for small %s the bound jumps to the other end of the sorted values and the guard is not monotone" % (q.short(T.atom(w), 120), p), site_ev)
        return
    if m is None:
        # which unknown sign blocked the verdict?  A statistic of the detector whose sign the stores do not
        # determine is a genuine counter-example candidate; anything else is a limit of the calculus.
        stat = [a for a in env.blocked if a[0] == "attr"]
        if stat:
            ctx.ob("POL", site, what, False,
                   "the sign of self.%s is not determined by the code (it is data dependent): for negative values the guard moves the other way; guard %s"
                   % (stat[0][1], q.short(g, 160)), site_ev)
            return
        raise AnalysisError("%s: monotonicity of the %s guard in %s cannot be established (blocked by %s): extend sa/polarity.py / the sign table; guard %s"
                            % (site, kind, p, [T.pretty_atom(a)[:60] for a in env.blocked[:3]], q.short(g, 200)))
    ctx.ob("POL", site, what, False, "monotone in the WRONG direction; guard %s" % q.short(g, 160), site_ev)


def _guard_mono(g, pa, env, carriers):
    m = Pol.mono(g, pa, env)
    if m is not None and m != 0:
        return m
    if m == 0:
        # dependence only through a carrier attribute
        vals = []
        for c in carriers:
            ca = ("attr", c)
            if T.mentions(g, lambda a: a == ca):
                mc = Pol.mono(g, ca, env)
                mp = env.mono_of(ca, pa)
                vals.append(None if mc is None or mp is None else mc * mp)
        return Pol._join(vals) if vals else 0
    return None


def monotone_state(ctx, cname, tr, taint):
    """kdq streaming: the persistence counter depends on alpha through the guard `divergence > critical`;
    admitted because each store is a monotone map of (old value, guard): +1 under the guard, 0 under its negation."""
    for attr in MONOTONE_STATE[cname]:
        sts = [e for e in tr.stores(attr) if any(T.mentions(pc.cond, lambda a: a in taint) for pc in e.pc)]
        inc = [e for e in sts if T.same(e.value, A(attr) + const(1))]
        zero = [e for e in sts if e.value == const(0)]
        ok = len(inc) == 1 and len(zero) == 1 and len(sts) == 2
        if ok:
            gi = [pc.cond for pc in inc[0].pc if T.mentions(pc.cond, lambda a: a in taint)]
            gz = [pc.cond for pc in zero[0].pc if T.mentions(pc.cond, lambda a: a in taint)]
            ok = len(gi) == 1 and len(gz) == 1 and gz[0] == T.mk_not(gi[0])
        ctx.ob("TNT-threshold", cname + ".update", "parameter-influenced state %s is a monotone transition (c+1 under the guard, 0 under its negation)" % attr, ok,
               "any other shape would let a stricter run overtake a looser one", sts[0] if sts else None)


def warn_param(ctx, cname, p, loose, dp):
    site = cname + ".update"
    pa = ("attr", p)
    cell = {"parallelize": False} if cname == "LinearFourRates" else {}
    tr = ctx.trace(cname, "update", assume=dict({"_drift_state": None}, **cell), nonnull=NONNULL[cname])
    signs = sign_env(ctx, cname)
    env = LfrEnv(ctx, signs) if cname == "LinearFourRates" else Pol.Env(signs)
    # (i) the drift decision does not look at the warning parameter
    for d in drift_stores(tr):
        site_ev = c01._site_pc_ev(tr, d)
        conds = guards(site_ev) if cname != "LinearFourRates" else [e.value for e in tr.mutations("_alarm_states") if e.how == "setitem"]
        ok = not any(T.mentions(g, lambda a: a == pa) for g in conds)
        ctx.ob("TNT-warning", site, "the drift decision does not depend on %s" % p, ok, "", site_ev)
    # (ii) the warning decision is monotone: loosening never removes a warning
    ws = [e for e in tr.stores("_drift_state") if e.value == const("warning")]
    ctx.ob("ROLE", site, "warning store exists", bool(ws), "")
    for w in ws:
        site_ev = c01._site_pc_ev(tr, w)
        parts = decision_parts(site_ev) if cname != "LinearFourRates" else [(e.value, 1) for e in tr.mutations("_warning_states") if e.how == "setitem"]
        deps = [(g, s_) for g, s_ in parts if T.mentions(g, lambda a: a == pa)]
        ctx.ob("POL", site, "the warning decision depends on %s" % p, bool(deps), "", site_ev)
        for g, s_ in deps:
            polarity_ob(ctx, site, "warning", p, "", g, s_, loose, pa, env, set(), site_ev, cname)
    # (iii) nothing but the reported state / recommendation depends on the warning parameter or on a previous warning
    bad = []
    for e in tr.events:
        if e.kind in ("store", "mutate") and e.attr not in LOGS and e.attr != "_drift_state" and e.attr not in CARRIERS.get(cname, ()):
            if T.mentions(e.value, lambda a: a == pa) or any(T.mentions(pc.cond, lambda a: a == pa) for pc in e.pc):
                bad.append(e)
    ctx.ob("TNT-warning", site, "%s reaches only the reported state and recommendation" % p, not bad,
           "statistic self.%s depends on the warning threshold" % (bad[0].attr if bad else ""), bad[0] if bad else None)
    # (iii') the logs and recommendations that the warning decision writes are write-only for the statistics and for the drift
    # decision: a statistic (or an alarm) that reads what an earlier warning left there (e.g. "a recommendation is open") depends
    # on the warning threshold through the history, although no term of this update mentions the parameter
    logm = lambda a: a[0] == "attr" and a[1] in LOGS
    back = []
    for e in tr.events:
        if e.kind in ("store", "mutate") and e.attr not in LOGS and e.attr not in CARRIERS.get(cname, ()):
            if e.attr == "_drift_state" and e.d.get("value") == const("warning"):
                continue
            if (isinstance(e.d.get("value"), T.R) and T.mentions(e.value, logm)) or any(T.mentions(pc.cond, logm) for pc in e.pc):
                back.append(e)
    ctx.ob("TNT-warning", site, "no statistic and no drift decision reads a log or recommendation left by earlier updates (they depend on %s through earlier warnings)" % p,
           not back, "self.%s is computed from / guarded by the stored %s" % (
               back[0].attr if back else "", sorted({a[1] for e in back[:1] for t in [e.d.get("value")] + [pc.cond for pc in e.pc] if isinstance(t, T.R) for a in T.walk(t) if logm(a)})),
           back[0] if back else None)
    trw = ctx.trace(cname, "update", assume=dict({"_drift_state": "warning"}, **cell), nonnull=NONNULL[cname])
    diff = []
    for a in sorted(set(tr.final.attrs) | set(trw.final.attrs)):
        if a in LOGS or a == "_drift_state":
            continue
        if tr.final.attrs.get(a) != trw.final.attrs.get(a):
            diff.append(a)
    ctx.ob("TNT-warning", site, "the statistics after an update do not depend on whether the previous state was 'warning'", not diff,
           "differs between a previous state None and 'warning': %s" % diff)


def adwin_epsilon(ctx):
    """ADWIN: the cut |diff| > eps(delta); eps = sqrt(K1 * d) + K2 * d with d = log(c * log(W) / delta)."""
    site = "ADWIN._check_epsilon"
    pa = ("attr", "delta")
    for cons in (False, True):
        tr = Evaluator(ctx.prog, ctx.prog.cls("ADWIN"), assume={"conservative_bound": cons}).run(ctx.prog.method("ADWIN", "_check_epsilon"))
        ctx._traces[("c17eps", cons)] = tr
        ret = tr.retval
        rc = q.is_cmp(ret) if ret is not None else None
        if rc is None or rc[1] != ">":
            raise AnalysisError("ADWIN._check_epsilon: the result is not a `>` comparison (anchor vanished)")
        absd = [a for a in rc[2].atoms() if a[0] == "call" and a[1] == "abs"]
        if len(absd) != 1:
            raise AnalysisError("ADWIN._check_epsilon: |difference of means| not found (anchor vanished)")
        eps = atom(absd[0]) - rc[2]          # |diff| - eps > 0
        logs = [a for a in T.walk(eps) if a[0] == "call" and a[1] == "log" and T.mentions(atom(a), lambda z: z == pa)]
        logs = [a for a in logs if not any(a is not b and T.mentions(atom(b), lambda z: z == a) for b in logs)]  # outermost
        if len(set(logs)) != 1:
            raise AnalysisError("ADWIN._check_epsilon: the confidence term log(c log(W) / delta) not found (anchor vanished)")
        d = atom(logs[0])
        logw = atom(("call", "log", (A("_window_size"),), ()))
        # delta > 0: the constructor rejects values outside [0, 1] (0 itself makes the bound infinite: never a cut)
        env = Pol.Env({logw.single_atom(): 1, ("attr", "delta"): 1})
        md = Pol.mono(d, pa, env)
        ctx.ob("POL", site, "delta' = log(c log(W) / delta) is non-increasing in delta (conservative_bound=%s)" % cons, md == -1, q.short(d, 100))
        da = d.single_atom()
        ok = da is not None
        K1 = K2 = None
        if ok:
            sq = [a for a in eps.atoms() if a[0] == "call" and a[1] == "sqrt"]
            ok = len(sq) == 1
            if ok:
                arg = sq[0][2][0]
                K1 = arg / d
                K2 = (eps - atom(sq[0])) / d
                ok = not Pol.depends(K1, da) and not Pol.depends(K2, da) and not Pol.depends(K1, pa) and not Pol.depends(K2, pa)
        ctx.ob("POL", site, "eps = sqrt(K1 * delta') + K2 * delta' with K1, K2 independent of delta (conservative_bound=%s)" % cons, ok, q.short(eps, 200))
        if ok:
            # K1, K2 >= 0 is an assumption (they are products of n_harmonic and the window variance); what is decided
            # here is that they do not involve delta and that eps is increasing in delta' for non-negative K1, K2
            ctx.ob("POL", site, "K1, K2 mention neither delta nor delta' (conservative_bound=%s)" % cons, True, "K1=%s K2=%s" % (q.short(K1, 80), q.short(K2, 80)))
        ctx.ob("POL", site, "the cut test is |difference of means| > eps (conservative_bound=%s)" % cons, not T.mentions(atom(absd[0]), lambda z: z == pa), q.short(ret, 120))
    ASSUMED.extend(["ADWIN: n_harmonic > 0 (both sub-windows hold at least subwindow_size_thresh elements, C01 guards) and variance >= 0 (sum of squared deviations)",
                    "ADWIN: log(window size) > 0 (the check runs only for window sizes above window_size_thresh >= 1)"])
    # delta reaches nothing else
    tr = ctx.trace("ADWIN", "update", assume={"_drift_state": None}, nonnull=("X",))
    bad = [e for e in tr.events if e.kind in ("store", "mutate") and e.attr not in LOGS | {"_drift_state"} and T.mentions(e.value, lambda a: a == pa)]
    ctx.ob("TNT-threshold", "ADWIN.update", "delta reaches no statistic", not bad, "", bad[0] if bad else None)


def _wd(loc):
    wd = loc.get("window_diff")
    return wd if wd is not None else const(0)
