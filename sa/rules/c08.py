"""C08 - kdq-tree partitioner: split complementarity, build/fill agreement, stop rule, counts, distributions."""
from .. import terms as T
from ..terms import const, atom
from .. import q
from ..q import A, P, S, guards
from ..evalr import Evaluator

NODE = "KDQTreeNode"
PART = "KDQTreePartitioner"


def static_trace(ctx, cls, name, **kw):
    key = ("c08", cls, name, repr(sorted(kw.items())))
    if key not in ctx._traces:
        ci = ctx.prog.cls(cls)
        ctx._traces[key] = Evaluator(ctx.prog, ci, max_reentry=1, **kw).run(ctx.prog.method(cls, name))
    return ctx._traces[key]


def col(data, axis):
    return q.sub(data, atom(("tuple", (atom(("slice", T.NONE, T.NONE, T.NONE)), axis))))


def rec_calls(tr, name):
    return [e for e in tr.calls() if e.d.get("fi") is not None and e.fi.qualname == name and len(e.stack) == 1]


def run(ctx):
    ctx.explanation = (
        "split complementarity (the two row masks of build and of fill are exact complements on identical operands), build/fill "
        "agreement on which side goes left/right, axis cycling, midpoint, stop rule, count bookkeeping, overwrite-or-accumulate "
        "branches, corrected distribution, divergence argument order, flattening (one row per node, explicit accumulator), Kulldorff statistic")
    ctx.assumptions += ["count conservation and non-negativity as numeric facts follow from complementarity and the +0.5 correction; they are not evaluated on data"]
    build(ctx)
    fill(ctx)
    dist(ctx)
    flatten(ctx)
    wrappers(ctx)
    plotly(ctx)


def build(ctx):
    site = NODE + ".build"
    tr = static_trace(ctx, NODE, "build")
    data, depth = P("data"), P("depth")
    n = q.sub(atom(("getattr", data, "shape")), 0)
    m = q.sub(atom(("getattr", data, "shape")), 1)
    axis = atom(("mod", depth, m))
    c = col(data, axis)
    mn = atom(("call", "numpy.min", (c,), ()))
    ptp = atom(("call", "numpy.ptp", (c,), ()))
    mid = mn + ptp / const(2)
    # the axis and the split value actually used are read off the row masks of the recursive calls
    used_axis = used_mid = None
    for e in rec_calls(tr, site):
        a0 = e.args[0].single_atom() if e.args else None
        if a0 is None or a0[0] != "sub" or a0[1] != data:
            continue
        cm = q.is_cmp(a0[2])
        if cm is None:
            continue
        cols = [x for x in cm[2].atoms() if x[0] == "sub" and x[1] == data]
        if len(cols) != 1:
            continue
        ia = cols[0][2].single_atom()
        if ia is None or ia[0] != "tuple" or len(ia[1]) != 2:
            continue
        used_axis = ia[1][1]
        coef = [cf for mm, cf in cm[2].num if mm == ((cols[0], 1),)]
        if coef and coef[0] == 1:
            used_mid = atom(cols[0]) - cm[2]
        elif coef and coef[0] == -1:
            used_mid = cm[2] + atom(cols[0])
    ctx.ob("FRM", site, "axis cycles with depth (axis = depth mod number of columns)", used_axis == axis, q.short(used_axis, 80) if used_axis is not None else "")
    ctx.ob("FRM", site, "split at the midpoint of the range of the points held (min + ptp/2)", used_mid is not None and T.same(used_mid, mid),
           q.short(used_mid, 160) if used_mid is not None else "")
    rc = rec_calls(tr, site)
    ctx.anchor(site, "two recursive calls", len(rc) == 2, "found %d" % len(rc))
    # node constructions of this call of build (in build itself or in a helper it calls, not in the recursive calls)
    leafnew = [e for e in tr.calls() if e.callee == ("new", NODE) and sum(1 for f in e.stack if f.name == "build") == 1]
    if len(rc) != 2:
        return
    masks = []
    for e in rc:
        a = e.args[0].single_atom()
        ok = a is not None and a[0] == "sub" and a[1] == data and q.is_cmp(a[2]) is not None
        masks.append(a[2] if ok else None)
        ctx.ob("FRM", site, "recursive call receives a row-mask selection of the data", ok, q.short(e.args[0], 120), e)
        ctx.ob("FRM", site, "recursion passes depth + 1 and the same parameters",
               len(e.args) == 5 and T.same(e.args[4], depth + const(1)) and tuple(e.args[1:4]) == (P("count_ubound"), P("min_cutpoint_sizes"), P("leaves")), "", e)
    if None in masks:
        return
    le = T.mk_cmp("<=", c, mid)
    gt = T.mk_cmp(">", c, mid)
    comp = masks[0] == T.mk_not(masks[1])
    ctx.ob("PARTITION", site, "the two row masks are exact complements (no point lost or counted twice)", comp,
           "%s / %s" % (q.short(masks[0], 100), q.short(masks[1], 100)), rc[0])
    ok = {q.cmp_equiv(masks[0], le) and "le" or (q.cmp_equiv(masks[0], gt) and "gt"), q.cmp_equiv(masks[1], le) and "le" or (q.cmp_equiv(masks[1], gt) and "gt")} == {"le", "gt"}
    ctx.ob("PARTITION", site, "masks are column <= midpoint and column > midpoint", ok, "", rc[0])
    # which side goes where
    inner = [e for e in leafnew if q.bind(e).get("left", T.NONE) != T.NONE]
    ctx.anchor(site, "inner node constructed", len(inner) == 1, "")
    if inner:
        kw = q.bind(inner[0])
        left, right = kw.get("left"), kw.get("right")
        def mask_of(t):
            for x in T.atoms_of(t, "opaque"):
                if x[1] == "cutret":
                    a0 = x[3][0].single_atom()
                    return a0[2] if a0 is not None and a0[0] == "sub" else None
            return None
        lm, rm = mask_of(left) if left is not None else None, mask_of(right) if right is not None else None
        ctx.ob("AGREE-sides", site, "the <= side becomes the left child, the > side the right child",
               lm is not None and rm is not None and q.cmp_equiv(lm, le) and q.cmp_equiv(rm, gt), "", inner[0])
        cnt = q.sub(inner[0].args[0], const("build")) if inner[0].args else None
        want = sum((q.sub(atom(("getattr", e.args[0], "shape")), 0) for e in rc), const(0))
        ctx.ob("FRM", site, "node count = sizes of the two selections", cnt is not None and T.same(q.len_norm(cnt), q.len_norm(want)), q.short(cnt, 100) if cnt is not None else "", inner[0])
        ctx.ob("FRM", site, "node remembers axis and midpoint", kw.get("axis") == axis and kw.get("midpoint_at_axis") is not None and T.same(kw["midpoint_at_axis"], mid), "", inner[0])
    # stop rule
    stop = T.mk_or([T.mk_cmp("<=", n, P("count_ubound")),
                    T.mk_cmp("<=", atom(("getattr", atom(("call", "numpy.unique", (data,), ())), "size")), P("count_ubound")),
                    T.mk_cmp("<=", mid - mn, q.sub(P("min_cutpoint_sizes"), axis))])
    for e in rc:
        ok = any(q.pred_equiv(g, x) for g in guards(e) for x in [T.mk_not(stop)]) or all(any(q.pred_equiv(g, T.mk_not(d)) for g in guards(e)) for d in q.disjuncts(stop))
        ctx.ob("GRD-stop", site, "no node holding count_ubound points or fewer (or too few distinct values / too small a cell) is split", ok,
               "guards: %s" % "; ".join(q.short(g, 80) for g in guards(e)[-4:]), e)
    leaf = [e for e in leafnew if e not in inner]
    ctx.anchor(site, "leaf constructed", len(leaf) >= 1, "")
    if len(leaf) > 1:
        # several guard clauses each ending in a leaf: together they must cover exactly the stop rule
        ctxg = [g for g in guards(leaf[0]) if all(any(g == h for h in guards(e2)) for e2 in leaf[1:] + inner)]   # holds on every path that builds a node
        okc = _cases_cover(ctx, site, [[g for g in guards(e) if not any(g == h for h in ctxg)] for e in leaf], q.disjuncts(stop))
        if okc is not None:
            ctx.ob("GRD-stop", site, "a leaf is created exactly under the stop rule", okc, "the guard clauses that end in a leaf do not add up to the stop rule", leaf[0])
    for e in leaf:
        if len(leaf) == 1:
            ok = any(q.pred_equiv(g, stop) for g in guards(e))
            ctx.ob("GRD-stop", site, "a leaf is created exactly under the stop rule", ok, "", e)
        ctx.ob("FRM", site, "leaf count = number of points, no split description", q.sub(e.args[0], const("build")) == n and tuple(e.args[1:]) == (T.NONE,) * 4, "", e)
        ap = [x for x in tr.of("localmut") if x.name == "leaves" and x.how == "method:append" and (len(x.stack) == 1 or len(leaf) > 1)]
        mine = [x for x in ap if x.value.single_atom()[1][0] == e.result and [p_.cond for p_ in x.pc] == [p_.cond for p_ in e.pc]]
        ctx.ob("MC", site, "every leaf is appended to the leaves list exactly once", len(mine) == 1 and len(ap) == len(leaf), "", e)


def fill(ctx):
    site = NODE + ".fill"
    tr = static_trace(ctx, NODE, "fill")
    data, node = P("data"), P("node")
    axis = atom(("getattr", node, "axis"))
    mid = atom(("getattr", node, "midpoint_at_axis"))
    c = col(data, axis)
    le, gt = T.mk_cmp("<=", c, mid), T.mk_cmp(">", c, mid)
    rc = rec_calls(tr, site)
    ctx.anchor(site, "two recursive calls", len(rc) == 2, "found %d" % len(rc))
    sides = {}
    masks = []
    for e in rc:
        a = e.args[0].single_atom()
        ok = a is not None and a[0] == "sub" and a[1] == data and q.is_cmp(a[2]) is not None
        ctx.ob("FRM", site, "recursive call receives a row-mask selection of the data", ok, "", e)
        if not ok:
            continue
        masks.append(a[2])
        child = q.unmut(e.args[1]).single_atom()
        side = child[2] if child is not None and child[0] == "getattr" and child[1] == node else None
        which = "le" if q.cmp_equiv(a[2], le) else ("gt" if q.cmp_equiv(a[2], gt) else None)
        sides[side] = which
        ctx.ob("FWD", site, "recursion passes tree_id and reset on", tuple(e.args[3:5]) == (P("tree_id"), P("reset")) or (dict(e.kwargs).get("reset") == P("reset")), "", e)
    if len(masks) == 2:
        ctx.ob("PARTITION", site, "the two row masks are exact complements", masks[0] == T.mk_not(masks[1]), "%s / %s" % (q.short(masks[0], 90), q.short(masks[1], 90)), rc[0])
    ctx.ob("AGREE-sides", site, "fill sends the <= side to the left child and the > side to the right child, as build does", sides == {"left": "le", "right": "gt"},
           "found %s (uses the stored axis and midpoint)" % sides)
    # count stores
    key = q.sub(atom(("getattr", node, "num_samples_in_compared_subtrees")), P("tree_id"))
    cnt_attr = "num_samples_in_compared_subtrees"
    def is_count_mut(e):
        """a store into node.num_samples_in_compared_subtrees[tree_id], directly or through a local alias / a helper"""
        if e.how != "setitem" or sum(1 for f in e.stack if f.qualname == site) != 1 or not isinstance(e.d.get("old"), T.R):
            return False
        old = q.unmut(e.old)
        if tuple(e.path) == (("attr", cnt_attr), ("item", P("tree_id"))) and old == node:
            return True
        return tuple(e.path) == (("item", P("tree_id")),) and old == atom(("getattr", node, cnt_attr))
    muts0 = [e for e in tr.of("localmut") if is_count_mut(e)]
    # the counts are written by fill itself (directly, through an alias, or in a helper function that receives the node); a method
    # called ON the node is not followed (the evaluator models the attributes of one receiver)
    ctx.anchor(site, "fill writes the per-id counts itself", bool(muts0),
               "no store into node.num_samples_in_compared_subtrees[tree_id] found in fill (a method of the node may be doing it)")
    # a count computed into one local for both cases (`points = n if leaf else a + b`) is split into its cases
    from ..evalr import virtual
    muts = []
    for e in muts0:
        v = e.aug[1] if e.aug is not None and e.aug[0] == "Add" else e.value
        leaves = list(q.ite_leaves(v))
        if len(leaves) > 1:
            for cs_, l in leaves:
                muts.append(virtual(e, cs_, **({"aug": ("Add", l)} if e.aug is not None else {"value": l})))
        else:
            muts.append(e)
    n = q.sub(atom(("getattr", data, "shape")), 0)
    tot = sum((q.sub(atom(("getattr", atom(("sub", data, m_)), "shape")), 0) for m_ in masks), const(0)) if len(masks) == 2 else None
    leafg = T.mk_cmp("==", axis, T.NONE)
    fresh = T.mk_or([T.mk_not(atom(("in", P("tree_id"), atom(("getattr", node, "num_samples_in_compared_subtrees"))))), P("reset")])
    for isleaf, val, lab in ((True, n, "leaf"), (False, tot, "inner node")):
        mm = [e for e in muts if (any(q.pred_equiv(g, leafg) for g in guards(e))) == isleaf]
        ow = [e for e in mm if e.aug is None]
        ac = [e for e in mm if e.aug is not None]
        ok = len(ow) == 1 and len(ac) == 1 and val is not None and T.same(ow[0].value, val) and ac[0].aug[0] == "Add" and T.same(ac[0].aug[1], val)
        ctx.ob("AGREE-branches", site, "%s: overwrite and accumulate branches store the same count" % lab, ok, "", mm[0] if mm else None)
        okg = len(ow) == 1 and len(ac) == 1 and any(g == fresh or q.pred_equiv(g, fresh) for g in guards(ow[0])) and not q.guard_set_implies(ac[0], q.conjuncts(T.mk_not(fresh)))
        ctx.ob("GRD", site, "%s: overwrite iff the id is new or reset is requested, accumulate otherwise" % lab, okg, "", mm[0] if mm else None)
    for e in muts:
        extra = [g for g in q.guards_in(e, site) if not (q.pred_equiv(g, leafg) or q.pred_equiv(g, T.mk_not(leafg)) or g == fresh or q.pred_equiv(g, fresh) or
                                                          any(q.pred_equiv(g, x) for x in q.conjuncts(T.mk_not(fresh))) or g == T.mk_cmp("!=", node, T.NONE) or
                                                          g == T.mk_not(T.mk_and([T.mk_cmp("!=", node, T.NONE), leafg])))]
        ctx.ob("GRD", site, "count stores depend only on leaf / inner node and new-id-or-reset", not extra, "further guards: %s" % "; ".join(q.short(g, 60) for g in extra), e)
    # no early exit before the count is stored (stale counts would survive a reset fill)
    first = min((e.seq for e in muts), default=10 ** 9)
    for e in tr.returns():
        if len(e.stack) != 1 or e.seq > first:
            continue
        ok = any(q.pred_equiv(g, T.mk_cmp("==", node, T.NONE)) for g in guards(e)) and len(guards(e)) == 1
        ctx.ob("MC", site, "the only exit before the count store is `node is None`", ok,
               "every reached node must record the number of points (possibly 0) for the id; guards: %s" % "; ".join(q.short(g, 60) for g in guards(e)), e)
    for e in rc:
        ok = not any(T.mentions(g, lambda a: a[0] == "getattr" and a[2] == "shape") for g in guards(e))
        ctx.ob("MC", site, "children are visited whatever the number of points", ok, "", e)
    # partitioner wrappers
    tp = ctx.trace(PART, "fill")
    cs = [e for e in tp.calls() if e.d.get("fi") is not None and e.fi.qualname == site and len(e.stack) == 1]
    ok = len(cs) == 1 and tuple(cs[0].args) == (P("data"), A("node"), A("count_ubound"), P("tree_id"), P("reset"))
    ctx.ob("FWD", PART + ".fill", "forwards data, root, tree_id and reset", ok, "")
    tb = ctx.trace(PART, "build")
    cs = [e for e in tb.calls() if e.d.get("fi") is not None and e.fi.qualname == NODE + ".build" and len(e.stack) == 1]
    ok = len(cs) == 1 and cs[0].args[0] == P("data") and cs[0].args[1] == A("count_ubound") and cs[0].args[3] == A("leaves")
    ctx.ob("FWD", PART + ".build", "forwards data, count_ubound and the leaves list", ok, "")


def dist(ctx):
    site = PART + "._distn_from_counts"
    tr = static_trace(ctx, PART, "_distn_from_counts")
    c = P("counts")
    arr = atom(("call", "numpy.array", (c,), ()))
    hist = arr + const(0.5)
    want = hist / (atom(("call", "numpy.sum", (c,), ())) + atom(("call", "len", (c,), ())) / const(2))  # len(np.array(c) + 0.5) is len(c) in the engine's normal form
    ctx.ob("FRM", site, "(c + 1/2) / (sum c + k/2)", tr.retval is not None and T.same(tr.retval, want), q.short(tr.retval, 160))
    tk = ctx.trace(PART, "kl_distance")
    en = [e for e in tk.calls() if e.callee == ("lib", "scipy.stats.entropy")]
    ok = len(en) == 1
    if ok:
        def tid(t):
            ids = {x[1] for x in T.atoms_of(t, "param")}
            return ids
        ok = tid(en[0].args[0]) == {"tree_id1"} and tid(en[0].args[1]) == {"tree_id2"}
    ctx.ob("FRM", PART + ".kl_distance", "KL(distribution of tree_id1 || distribution of tree_id2)", ok, "", en[0] if en else None)
    dc = [e for e in tk.calls() if e.d.get("fi") is not None and e.fi.qualname == site]
    ctx.ob("FRM", PART + ".kl_distance", "both distributions use the corrected estimate", len(dc) == 2, "")
    tl = ctx.trace(PART, "leaf_counts")
    ra = None
    for _c, l in q.ite_leaves(tl.retval):
        if (l.single_atom() or ("",))[0] == "comp":
            ra = l.single_atom()
    ok = ra is not None and ra[3][0] == A("leaves") and (ra[2][0].single_atom() or ("",))[0] == "sub" and ra[2][0].single_atom()[2] == P("tree_id")
    ctx.ob("FRM", PART + ".leaf_counts", "counts of every leaf, in leaf order, for the given id", ok, "")
    # Kulldorff statistic
    ts = static_trace(ctx, PART, "_calculate_kss")
    fi_k = ctx.prog.method(PART, "_calculate_kss")
    df = P(fi_k.params()[0])   # the row the statistic is computed for, whatever the parameter is called
    cr, ct = q.sub(df, const("node_count_ref")), q.sub(df, const("node_count_test"))
    en = [e for e in ts.calls() if e.callee == ("lib", "scipy.stats.entropy")]
    dc = [e for e in ts.calls() if e.d.get("fi") is not None and e.fi.qualname == site]
    def two(cell, mx):
        return atom(("call", "numpy.array", (atom(("list", (cell, mx - cell))),), ()))
    ok = len(dc) == 2 and dc[0].args[0] == two(cr, P("ref_max")) and dc[1].args[0] == two(ct, P("test_max"))
    ctx.ob("FRM", PART + "._calculate_kss", "two-cell (node vs rest) counts for reference and test, each with its own total", ok,
           "; ".join(q.short(e.args[0], 100) for e in dc))
    ok = len(en) == 1 and len(dc) == 2 and _is_ret(ts, dc[0], en[0].args[0]) and _is_ret(ts, dc[1], en[0].args[1])
    ctx.ob("FRM", PART + "._calculate_kss", "divergence of the corrected reference distribution from the corrected test distribution", ok, "")
    tp = ctx.trace(PART, "to_plotly_dataframe")
    ap = [e for e in tp.calls() if e.callee[0] == "mcall" and e.callee[1] == "apply"]
    ok = len(ap) == 1 and ap[0].args and ap[0].args[0] == atom(("global", "menelaus.partitioners.KDQTreePartitioner.KDQTreePartitioner._calculate_kss"))
    ctx.anchor(PART + ".to_plotly_dataframe", "kss computed per node by _calculate_kss", ok, "")
    if ok:
        kw = dict(ap[0].kwargs)
        a = kw.get("args")
        aa = a.single_atom() if a is not None else None
        okm = aa is not None and aa[0] == "tuple" and len(aa[1]) == 2 and _is_max_of(aa[1][0], "node_count_ref") and _is_max_of(aa[1][1], "node_count_test")
        ctx.ob("FWD", PART + ".to_plotly_dataframe", "kss receives (max reference count, max test count) in that order", okm, "", ap[0])
        recv = ap[0].recv.single_atom()
        okd = recv is not None and recv[0] == "call" and recv[1] == "pandas.DataFrame"
        if okd:
            d = recv[2][0]
            def colkeys(t):
                ks = set()
                for x in T.atoms_of(t, "sub"):
                    if T.is_pure_const(x[2]) and isinstance(T.const_py(x[2]), str):
                        ks.add(T.const_py(x[2]))
                return ks
            okd = colkeys(q.sub(d, const("node_count_ref"))) == {"cell_count"} and colkeys(q.sub(d, const("node_count_test"))) == {"cell_count", "count_diff"}
            t = q.sub(d, const("node_count_test"))
            # it is a sum of the two columns (coefficients +1)
            okd = okd and not T.mentions(_strip(t), lambda a: a[0] in ("call",) and a[1] not in ("pandas.DataFrame.from_dict", "list"))
            cols2 = list(t.atoms())
            okd = okd and len(cols2) == 2 and T.same(t, atom(cols2[0]) + atom(cols2[1])) and {frozenset(colkeys(atom(x))) for x in cols2} == {frozenset({"cell_count"}), frozenset({"count_diff"})}
        ctx.ob("FRM", PART + ".to_plotly_dataframe", "test count = reference count + count difference", okd, "", ap[0])


def _strip(t):
    return t


def _is_max_of(t, colname):
    op = q.reduction_of(t, "max")
    if op is None:
        return False
    s_ = op.single_atom()
    return s_ is not None and s_[0] == "sub" and s_[2] == const(colname)


def _is_ret(tr, callev, t):
    """Is term t the value returned by the inlined call `callev`?"""
    for e in tr.events[callev.seq:]:
        if e.kind == "return" and e.func.qualname == callev.fi.qualname:
            return e.value == t
    return False


def flatten(ctx):
    site = NODE + ".as_flattened_array"
    tr = static_trace(ctx, NODE, "as_flattened_array")
    ap = [e for e in tr.of("localmut") if e.name == "output" and e.how == "method:append" and len(e.stack) == 1]
    ctx.ob("MC", site, "exactly one row per visited node", len(ap) == 1, "found %d appends" % len(ap))
    node = P("node")
    cnt = atom(("getattr", node, "num_samples_in_compared_subtrees"))
    if not ctx.anchor(site, "the tree is flattened by recursion into both children", len(rec_calls(tr, site)) == 2, ""):
        return
    if ap:
        row = ap[0].value.single_atom()[1][0]
        ok = (q.sub(row, const("cell_count")) == q.sub(cnt, P("tree_id1")) and q.sub(row, const("depth")) == P("depth")
              and q.sub(row, const("parent_idx")) == P("parent_idx") and q.sub(row, const("idx")) == atom(("call", "id", (node,), ())))
        ctx.ob("FRM", site, "row holds id, parent, depth and the reference count", ok, q.short(row, 200), ap[0])
        cd = q.sub(row, const("count_diff"))
        leaves = {T.akey(l) for _c, l in q.ite_leaves(cd) if not T.mentions(l, lambda a: a[0] == "sub" and a[2] == const("count_diff"))}
        want = {T.akey(q.sub(cnt, P("tree_id2")) - q.sub(cnt, P("tree_id1"))), T.akey(-q.sub(cnt, P("tree_id1")))}
        ctx.ob("FRM", site, "count difference = count(tree_id2) - count(tree_id1) (0 - reference when the id is absent)", leaves == want, q.short(cd, 200), ap[0])
    rc = rec_calls(tr, site)
    ctx.anchor(site, "recursion into both children", len(rc) == 2, "")
    for e, side in zip(rc, ("left", "right")):
        a = [q.unmut(x) for x in e.args]
        ok = len(a) >= 7 and a[0] == atom(("getattr", node, side)) and a[3] == P("output") and a[5] == atom(("call", "id", (node,), ())) and T.same(a[6], P("depth") + const(1))
        ctx.ob("FWD", site, "child %s visited with the same accumulator, this node as parent, depth + 1" % side, ok, "", e)
    # every external call site passes the accumulator explicitly (the default is a shared mutable list)
    n = 0
    for ci in ctx.prog.classes.values():
        for m, fi in ci.methods.items():
            if fi.qualname == site:
                continue
            import ast
            for nd in ast.walk(fi.node):
                if isinstance(nd, ast.Call) and isinstance(nd.func, ast.Attribute) and nd.func.attr == "as_flattened_array":
                    n += 1
                    ok = len(nd.args) >= 4 or any(k.arg == "output" for k in nd.keywords)
                    ctx.ob("DEFAULT-ARG", fi.qualname, "as_flattened_array called with an explicit output list", ok,
                           "the parameter has a mutable default; omitting it accumulates rows across calls")
    ctx.floor("external call sites of as_flattened_array", n, 1)


# ---------------------------------------------------------------------------
# wrappers, guards and small tables

def _tab(ctx, site, attrs, table):
    for k, w in table.items():
        got = attrs.get(k)
        ctx.ob("TAB-struct", site, "%s after the call" % k, got is not None and (got == w or T.same(got, w)),
               "is %s ; documented %s" % (q.short(got, 100) if got is not None else "unset", q.short(w, 100)))


def _ndim_le_1(t):
    return T.mk_cmp("<=", atom(("call", "len", (atom(("getattr", t, "shape")),), ())), const(1))


def wrappers(ctx):
    data = P("data")
    # constructors
    ti = ctx.trace(PART, "__init__")
    _tab(ctx, PART + ".__init__", ti.final.attrs if ti.final is not None else {},
         {"count_ubound": P("count_ubound"), "cutpoint_proportion_lbound": P("cutpoint_proportion_lbound"), "node": T.NONE, "leaves": atom(("list", ()))})
    tn = static_trace(ctx, NODE, "__init__")
    _tab(ctx, NODE + ".__init__", tn.final.attrs if tn.final is not None else {},
         {k: P(k) for k in ("num_samples_in_compared_subtrees", "axis", "midpoint_at_axis", "left", "right")})
    # build wrapper
    tb = ctx.trace(PART, "build")
    site = PART + ".build"
    rets = [e for e in tb.returns() if len(e.stack) == 1]
    none_rets = [e for e in rets if e.value == T.NONE]
    ctx.ob("GRD", site, "only data without a column dimension is refused", len(none_rets) == 1 and [g for g in q.guards_in(none_rets[0], site)] == [_ndim_le_1(data)],
           "guards: %s" % "; ".join(q.short(g, 60) for e in none_rets for g in q.guards_in(e, site)), none_rets[0] if none_rets else None)
    cs = [e for e in tb.calls() if e.d.get("fi") is not None and e.fi.qualname == NODE + ".build" and len(e.stack) == 1]
    if cs and len(cs[0].args) >= 3:
        mc = cs[0].args[2].single_atom()
        ok = False
        if mc is not None and mc[0] == "comp":
            elt, its = mc[2][0], mc[3]
            ix = [x for x in T.atoms_of(elt, "idx")]
            ra = its[0].single_atom() if its else None
            ncols = q.sub(atom(("getattr", data, "shape")), 1)
            if len(set(ix)) == 1 and ra is not None and ra[0] == "call" and ra[1] == "range" and tuple(ra[2]) == (ncols,):
                want = atom(("call", "int", (A("cutpoint_proportion_lbound") * atom(("call", "numpy.ptp", (col(data, atom(ix[0])),), ())),), ()))
                ok = elt == want
        ctx.ob("FRM", site, "minimum cell size per axis = int(cutpoint_proportion_lbound * range of that column)", ok, q.short(cs[0].args[2], 160), cs[0])
        st = tb.stores("node")
        built = q.call_value(tb, cs[0])
        ctx.ob("FRM", site, "the root is kept and returned", len(st) == 1 and built is not None and st[0].value == built and any(e.value == st[0].value for e in rets),
               q.short(st[0].value, 80) if st else "", st[0] if st else None)
    # fill wrapper
    tf = ctx.trace(PART, "fill")
    site = PART + ".fill"
    rets = [e for e in tf.returns() if len(e.stack) == 1]
    none_rets = [e for e in rets if e.value == T.NONE]
    want = T.mk_or([T.mk_cmp("==", A("node"), T.NONE), _ndim_le_1(data)])
    ok = len(none_rets) == 1 and any(g == want or q.pred_equiv(g, want) for g in [T.mk_and(q.guards_in(none_rets[0], site))] + q.guards_in(none_rets[0], site))
    ctx.ob("GRD", site, "filling is refused only without a tree or for data without a column dimension", ok,
           "guards: %s" % "; ".join(q.short(g, 80) for e in none_rets for g in q.guards_in(e, site)), none_rets[0] if none_rets else None)
    ctx.ob("FRM", site, "the root is returned", any(e.value == A("node") or q.unmut(e.value) == A("node") for e in rets), "")
    # reset wrapper
    tr_ = ctx.trace(PART, "reset")
    cs = [e for e in tr_.calls() if e.d.get("fi") is not None and e.fi.qualname == NODE + ".reset" and len(e.stack) == 1]
    ok = len(cs) == 1 and (tuple(cs[0].args) + tuple(v for _k, v in sorted(cs[0].kwargs)))[:1] == (A("node"),) and \
        dict(cs[0].kwargs).get("value", cs[0].args[1] if len(cs[0].args) > 1 else None) == P("value") and \
        dict(cs[0].kwargs).get("tree_id", cs[0].args[2] if len(cs[0].args) > 2 else None) == P("tree_id")
    ctx.ob("FWD", PART + ".reset", "forwards the root, the value and the id", ok, "")
    # node reset
    tr2 = static_trace(ctx, NODE, "reset")
    site = NODE + ".reset"
    node = P("node")
    mu = [e for e in tr2.of("localmut") if e.name == "node" and len(e.stack) == 1]
    rc = rec_calls(tr2, site)
    if not ctx.anchor(site, "reset descends by recursion into both children", len(rc) == 2, "found %d recursive calls" % len(rc)):
        rc = []
    ok = len(mu) == 1 and mu[0].value == P("value") and mu[0].path == (("attr", "num_samples_in_compared_subtrees"), ("item", P("tree_id")))
    ctx.ob("FRM", site, "the count of the id is set to the value at this node", ok, "", mu[0] if mu else None)
    kids = set()
    for e in rc:
        a0 = q.unmut(e.args[0]).single_atom() if e.args else None
        if a0 is not None and a0[0] == "getattr" and a0[1] == node and tuple(e.args[1:3]) == (P("value"), P("tree_id")):
            kids.add(a0[2])
    ctx.ob("FWD", site, "both children are reset with the same value and id", kids == {"left", "right"} and len(rc) == 2, "visited %s" % sorted(kids))
    for e in mu + rc:
        g = q.guards_in(e, site)
        ctx.ob("GRD", site, "every existing node is reset", len(g) == 1 and g[0] in (atom(("truth", node)), node, T.mk_cmp("!=", node, T.NONE)) or (len(g) == 1 and _is_truth_of(g[0], node)),
               "guards: %s" % "; ".join(q.short(x, 60) for x in g), e)
    # node build: empty selections give no node
    tnb = static_trace(ctx, NODE, "build")
    site = NODE + ".build"
    n = q.sub(atom(("getattr", data, "shape")), 0)
    m = q.sub(atom(("getattr", data, "shape")), 1)
    empty = T.mk_or([T.mk_cmp("==", n, const(0)), T.mk_cmp("==", m, const(0))])
    nr = [e for e in tnb.returns() if len(e.stack) == 1 and e.value == T.NONE]
    ok = len(nr) == 1 and any(g == empty or q.pred_equiv(g, empty) for g in [T.mk_and(q.guards_in(nr[0], site))] + q.guards_in(nr[0], site))
    ctx.ob("GRD", site, "no node is created exactly for an empty selection", ok, "guards: %s" % "; ".join(q.short(g, 80) for e in nr for g in q.guards_in(e, site)), nr[0] if nr else None)
    # leaf_counts / kl_distance on an empty tree
    tl = ctx.trace(PART, "leaf_counts")
    leaves_ = list(q.ite_leaves(tl.retval)) if tl.retval is not None else []
    ok = len(leaves_) == 2 and any(l == T.NONE for _c, l in leaves_) and any((l.single_atom() or ("",))[0] == "comp" and _is_truth_of_any(c_, A("leaves")) for c_, l in leaves_)
    ctx.ob("GRD", PART + ".leaf_counts", "counts are listed exactly when the tree has leaves", ok, q.short(tl.retval, 120) if tl.retval is not None else "")
    tk = ctx.trace(PART, "kl_distance")
    nr = [e for e in tk.returns() if len(e.stack) == 1 and e.value == T.NONE]
    gk = q.guards_in(nr[0], PART + ".kl_distance") if len(nr) == 1 else []
    # `leaves == []`, `not leaves`, `len(leaves) == 0`: the list is empty
    lv = A("leaves")
    empties = [T.mk_cmp("==", lv, atom(("list", ()))), T.mk_not(lv), T.mk_cmp("==", atom(("call", "len", (lv,), ())), const(0))]
    ok = len(nr) == 1 and len(gk) == 1 and (gk[0] in empties or _is_truth_of(T.mk_not(gk[0]), lv))
    ctx.ob("GRD", PART + ".kl_distance", "no divergence only for a tree without leaves", ok, "guards: %s" % "; ".join(q.short(g, 80) for e in nr for g in q.guards_in(e, PART + ".kl_distance")))


def _is_truth_of(g, t):
    a = g.single_atom()
    if a is None:
        return False
    if g == t:
        return True
    return a[0] in ("truth", "bool") and len(a) > 1 and a[1] == t


def _is_truth_of_any(conds, t):
    return any(_is_truth_of(c, t) for c in conds)


def plotly(ctx):
    site = PART + ".to_plotly_dataframe"
    tp = ctx.trace(PART, "to_plotly_dataframe")
    ap = [e for e in tp.calls() if e.callee[0] == "mcall" and e.callee[1] == "apply"]
    for e in ap:
        g = q.guards_in(e, site)
        ctx.ob("GRD", site, "the Kulldorff statistic is computed exactly when a second tree id is given", g == [T.mk_cmp("!=", P("tree_id2"), T.NONE)],
               "guards: %s" % "; ".join(q.short(x, 60) for x in g), e)
        ctx.ob("FWD", site, "one statistic per row (axis=1)", dict(e.kwargs).get("axis") == const(1), "", e)
    fl = [e for e in tp.of("local") if e.func.qualname == site]
    flt = [e for e in fl if (e.value.single_atom() or ("",))[0] == "sub" and q.is_cmp(e.value.single_atom()[2]) is not None and
           T.mentions(e.value.single_atom()[2], lambda z: z[0] == "getattr" and z[2] == "depth")]
    ok = False
    if len(flt) == 1:
        a = flt[0].value.single_atom()
        c = q.is_cmp(a[2])
        g = q.guards_in(flt[0], site)
        ok = c is not None and q.cmp_equiv(a[2], T.mk_cmp("<=", atom(("getattr", a[1], "depth")), P("max_depth"))) and len(g) == 1 and _is_truth_of(g[0], P("max_depth"))
    ctx.ob("FRM", site, "max_depth keeps the rows of depth <= max_depth", ok, q.short(flt[0].value, 120) if flt else "no filter", flt[0] if flt else None)
    fa = [e for e in tp.calls() if e.d.get("fi") is not None and e.fi.qualname == NODE + ".as_flattened_array" and len(e.stack) == 1]
    if fa:
        kw = q.bind(fa[0])   # by parameter name, positional or keyword
        ok = kw.get("node") == A("node") and kw.get("tree_id1") == P("tree_id1") and kw.get("tree_id2") == P("tree_id2") and kw.get("input_cols") == P("input_cols")
        ctx.ob("FWD", site, "the whole tree is flattened for the two given ids", ok, "", fa[0])
    # flattening guards
    site2 = NODE + ".as_flattened_array"
    tr = static_trace(ctx, NODE, "as_flattened_array")
    node = P("node")
    keys = atom(("getattr", node, "num_samples_in_compared_subtrees"))  # `k in d.keys()` is normalised to `k in d`
    ap2 = [e for e in tr.of("localmut") if e.name == "output" and e.how == "method:append" and len(e.stack) == 1]
    if not ctx.anchor(site2, "the tree is flattened by recursion into both children (guards)", len(rec_calls(tr, site2)) == 2, ""):
        return
    for e in ap2:
        g = q.guards_in(e, site2)
        has_in = any(x == atom(("in", P("tree_id1"), keys)) for x in g)
        has_node = any(_is_truth_of(x, node) or x == T.mk_cmp("!=", node, T.NONE) for x in g)
        ctx.ob("GRD", site2, "a row is produced for every node that has a count for the reference id", has_in and has_node and len(g) == 2, "guards: %s" % "; ".join(q.short(x, 60) for x in g), e)
    for e in rec_calls(tr, site2):
        a0 = q.unmut(e.args[0]).single_atom() if e.args else None
        side = a0[2] if a0 is not None and a0[0] == "getattr" else "?"
        own = [x for x in q.guards_in(e, site2) if not (x == atom(("in", P("tree_id1"), keys)) or _is_truth_of(x, node) or x == T.mk_cmp("!=", node, T.NONE))]
        child = atom(("getattr", node, side))
        ok = all(x == T.mk_cmp("!=", child, T.NONE) or _is_truth_of(x, child) or q.unmut(x) == T.mk_cmp("!=", child, T.NONE) for x in own) and len(own) <= 1
        ctx.ob("GRD", site2, "the %s child is visited whenever it exists" % side, ok, "guards: %s" % "; ".join(q.short(x, 60) for x in own), e)
    # count difference cases
    if ap2:
        row = ap2[0].value.single_atom()[1][0]
        cd = q.sub(row, const("count_diff"))
        conds = [c for c, l in q.ite_leaves(cd)]
        flat = [x for c in conds for x in c]
        cnt = atom(("getattr", node, "num_samples_in_compared_subtrees"))
        c1, c2 = q.sub(cnt, P("tree_id1")), q.sub(cnt, P("tree_id2"))
        isin = atom(("in", P("tree_id2"), keys))
        ok = True
        seen = set()
        for cs_, l in q.ite_leaves(cd):
            given = any(_is_truth_of(x, P("tree_id2")) for x in cs_)
            if T.same(l, c2 - c1) and not T.mentions(l, lambda z: z[0] == "sub" and z[2] == const("count_diff")):
                ok = ok and given and isin in cs_
                seen.add("present")
            elif T.same(l, -c1):
                ok = ok and given and (T.mk_not(isin) in cs_ or atom(("notin", P("tree_id2"), keys)) in cs_)
                seen.add("absent")
            else:
                ok = ok and not given
        ok = ok and seen == {"present", "absent"}
        ctx.ob("GRD", site2, "the count difference is reported exactly when a second id is given, from that id's count when present", ok, q.short(cd, 160), ap2[0])


def _cases_cover(ctx, site, cases, disj):
    """Do the guard sets `cases` (one per exit) add up to d1 or d2 or ...?  Each guard is read as a boolean function of the
    disjuncts (a disjunct, its negation, or an and / or of those); guards that mention nothing of the rule are ignored;
    a guard that mentions the rule but cannot be read makes the idiom unrecognised (anchor, returns None)."""
    import itertools as _it
    mention = set()
    for d in disj:
        mention |= {a for a in T.walk(d) if a[0] not in ("const", "cmp")}

    def read(g):
        for i, d in enumerate(disj):
            if q.pred_equiv(g, d):
                return lambda v, i=i: v[i]
            if q.pred_equiv(g, T.mk_not(d)):
                return lambda v, i=i: not v[i]
        a = g.single_atom()
        if a is not None and a[0] in ("and", "or"):
            subs = [read(x) for x in a[1]]
            if any(s is None for s in subs):
                return None
            return (lambda v: all(s(v) for s in subs)) if a[0] == "and" else (lambda v: any(s(v) for s in subs))
        if a is not None and a[0] == "not":
            s = read(a[1])
            return None if s is None else (lambda v: not s(v))
        return None
    fns = []
    for gs in cases:
        fs = []
        for g in gs:
            f = read(g)
            if f is None:
                cg = q.is_cmp(g)
                if cg is not None and any(q.is_cmp(d) is not None and (q.is_cmp(d)[2] == cg[2] or q.is_cmp(d)[2] == -cg[2]) for d in disj):
                    return False   # a test on the very quantity of a stop test, with another relation: not the stop rule
                if any(T.mentions(g, lambda z: z in mention) for _ in (0,)):
                    ctx.anchor(site, "the guards of a leaf exit are the stop tests or their negations", False, q.short(g, 80))
                    return None
                continue
            fs.append(f)
        fns.append(fs)
    for v in _it.product((False, True), repeat=len(disj)):
        if any(all(f(v) for f in fs) for fs in fns) != any(v):
            return False
    return True
