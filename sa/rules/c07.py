"""C07 - HDDDM / CDBD: aligned histograms, distance, epsilon, adaptive threshold."""
from .. import terms as T
from ..terms import const, atom
from .. import q
from ..q import A, P, S, guards
from ..evalr import Evaluator
from .c02 import _root_attr

HDMQ = "HistogramDensityMethod"


def run(ctx):
    ctx.explanation = (
        "common histogram support (range from the concatenation of reference and batch, same edges for both), bin count, Hellinger "
        "formula and its symmetry, feature average, epsilon, adaptive threshold (both statistics), drift test, drift / no-drift "
        "blocks, feature_info - formula conformance and pairing rules on the value-numbered update()")
    ctx.assumptions += ["real arithmetic", "numeric bounds of the distances and the bootstrap estimate are not decided"]
    for cname in ("HDDDM", "CDBD"):
        support(ctx, cname)
        distance(ctx, cname)
        threshold(ctx, cname)
        blocks(ctx, cname)
        cadence(ctx, cname)
        logs(ctx, cname)
        reset_table(ctx, cname)
        set_reference_table(ctx, cname)
        threshold_cells(ctx, cname)
    lifecycle(ctx)
    hellinger(ctx)
    # the concrete classes select the documented divergence
    for cname, div, fn in (("HDDDM", "H", "_hellinger_distance"), ("CDBD", "KL", "_KL_divergence")):
        tr = ctx.trace(cname, "__init__")
        v = tr.final.attrs.get("distance_function")
        okd = False
        if v is not None:
            for conds, leaf in q.ite_leaves(v):
                pass
            sel = q.replace_term(v, P("divergence"), const(div))
            sel = T.subst(v, lambda a: const(div) if a == ("param", "divergence") else None)
            okd = sel == atom(("boundmethod", fn))
        ctx.ob("TAB", cname + ".__init__", "divergence %r selects %s" % (div, fn), okd, q.short(v, 120) if v is not None else "")
        usr = atom(("sym", "user function"))   # a callable: not a string, not one of the documented names
        def _usr(a):
            if a == ("param", "divergence"):
                return usr
            if a[0] == "call" and a[1] == "isinstance" and a[2][0] == usr:
                return T.FALSE if (a[2][1].single_atom() or ("", ""))[1] in ("builtins.str",) else None
            if a[0] == "in" and a[1] == usr:
                return T.FALSE
            if a[0] == "cmp" and a[1] in ("==", "!=") and T.mentions(a[2], lambda z: z == usr.single_atom()):
                return T.FALSE if a[1] == "==" else T.TRUE   # it is none of the documented names
            return None
        selu = T.subst(v, _usr) if v is not None else None
        ctx.ob("TAB", cname + ".__init__", "any other value of divergence is used as the distance function itself", selu == usr, q.short(selu, 80) if selu is not None else "")
        # default divergence of the public class
        import ast as _ast
        fi = ctx.prog.method(cname, "__init__")
        a = fi.node.args
        names = [x.arg for x in a.args]
        dflt = dict(zip(names[len(names) - len(a.defaults):], a.defaults))
        dv = dflt.get("divergence")
        ctx.ob("TAB", cname + ".__init__", "default divergence is %r" % div, isinstance(dv, _ast.Constant) and dv.value == div,
               "%s measures the %s distance by default" % (cname, "Hellinger" if div == "H" else "Jensen-Shannon"))
    tk = ctx.trace("CDBD", "_KL_divergence")
    ctx.ob("FRM", HDMQ + "._KL_divergence", "Jensen-Shannon distance of (reference, test)",
           tk.retval == atom(("call", "scipy.spatial.distance.jensenshannon", (P("reference_density"), P("test_density")), ())), q.short(tk.retval, 100))


def upd(ctx, cname, **assume):
    a = {"_drift_state": None, "detect_batch": 3}
    a.update(assume)
    return ctx.trace(cname, "update", assume=a, nonnull=("X",))


def support(ctx, cname):
    site = HDMQ + ".update"
    tr = upd(ctx, cname)
    bh0 = [e for e in q.find_calls(tr, HDMQ + "._build_histograms") if q.stack_has(e, site)]
    # the two edge lists: one entry per feature, however the repetition is written (loop + append, comprehension, helper)
    for k, nm, red in ((1, "lower", "min"), (2, "upper", "max")):
        arg = bh0[0].args[k] if bh0 and len(bh0[0].args) > k else None
        view = q.seq_view(tr, arg) if arg is not None else None
        if not ctx.anchor(site, "per-feature %s edge collected once per feature [%s]" % (nm, cname), view is not None, q.short(arg, 100) if arg is not None else "", bh0[0] if bh0 else None):
            continue
        pooled = q.reduction_of(view[0], red)
        cat = pooled.single_atom() if pooled is not None else None
        ok = cat is not None and cat[0] == "call" and cat[1] == "numpy.concatenate"
        both = False
        if ok:
            parts = cat[2][0].single_atom()
            if parts is not None and parts[0] in ("tuple", "list") and len(parts[1]) == 2:
                refs = [x for x in parts[1] if _root_attr(_col_base(x)) == "reference"]
                tst = [x for x in parts[1] if T.mentions(x, lambda a: a == ("param", "X")) and _root_attr(_col_base(x)) != "reference"]
                both = len(refs) == 1 and len(tst) == 1 and _col_idx(refs[0]) == q.POS and _col_idx(tst[0]) == q.POS
        ctx.ob("AGREE-support", site, "%s edges span reference and batch of this update, same feature [%s]" % (nm, cname), ok and both,
               "bin edges must be computed from the concatenation of the current reference and the current batch: position j holds %s" % q.short(view[0], 160), bh0[0])
    bh = q.find_calls(tr, HDMQ + "._build_histograms")
    bh = [e for e in bh if q.stack_has(e, site)]
    # idiom-independent necessary condition: the bin edges depend on the batch of this call AND on the current reference -
    # directly, or through attributes that are kept coherent with the reference (re-stored wherever the reference is)
    for e in bh:
        for k, nm in ((1, "lower"), (2, "upper")):
            if len(e.args) <= k:
                continue
            dx = q.deep_mentions(e.args[k], lambda a: a == ("param", "X"), tr.loops)
            dr = q.deep_mentions(e.args[k], lambda a: a == ("attr", "reference"), tr.loops)
            stale = []
            if not dr:
                caches = {a[1] for a in T.walk(e.args[k]) if a[0] == "attr" and a[1] not in ("reference", "_input_col_dim", "_input_cols")}
                dr = bool(caches)
                for cattr in sorted(caches):
                    stale += _incoherent(ctx, cname, cattr)
            ctx.ob("AGREE-support", site, "%s bin edges depend on the current batch and on the current reference [%s]" % (nm, cname), dx and dr and not stale,
                   ("the edges use cached state that is not refreshed where the reference changes: %s" % "; ".join(stale[:3])) if stale else
                   "edges must span reference and batch of THIS update: depends on batch=%s, on reference=%s" % (dx, dr), e, firm=True)
    ctx.anchor(site, "reference and batch histograms built [%s]" % cname, len(bh) == 2, "")
    if len(bh) == 2:
        ok = bh[0].args[1:] == bh[1].args[1:] and _root_attr(bh[0].args[0]) == "reference" and T.mentions(bh[1].args[0], lambda a: a == ("param", "X"))
        ctx.ob("AGREE-support", site, "both histograms use the same bin edges [%s]" % cname, ok, "", bh[0])
        mm = [e for e in tr.of("local") if e.name in ("mins", "maxes") and q.stack_has(e, site)]
        okl = all((a.single_atom() or ("",))[0] == "loopvar" or q.seq_view(tr, a) is not None for a in bh[0].args[1:3])
        ctx.ob("AGREE-support", site, "the edges passed are the ranges collected in this update [%s]" % cname, okl, q.short(bh[0].args[1], 80), bh[0])
    # _build_histograms
    tb = ctx.trace(cname, "_build_histograms")
    # one histogram per feature, loop or comprehension: what does the returned list hold at position j, and how long is it?
    hv = q.seq_view(tb, tb.retval) if tb.retval is not None else None
    ok = False
    if ctx.anchor(HDMQ + "._build_histograms", "the histograms are a list built once per feature [%s]" % cname, hv is not None, q.short(tb.retval, 120) if tb.retval is not None else ""):
        elt = hv[0].single_atom()
        if elt is not None and elt[0] == "sub" and elt[2] == const(0):
            h = elt[1].single_atom()
            if h is not None and h[0] == "call" and h[1] == "numpy.histogram":
                kw = dict(h[3])
                f = q.POS
                rng = kw.get("range")
                ra = rng.single_atom() if rng is not None else None
                ok = (kw.get("bins") == A("_bins") and ra is not None and ra[0] == "tuple" and len(ra[1]) == 2
                      and ra[1][0] == q.sub(P("min_values"), f) and ra[1][1] == q.sub(P("max_values"), f)
                      and _col_idx(h[2][0]) == f and T.mentions(h[2][0], lambda z: z == ("param", "dataset"))
                      and hv[1] == A("_input_col_dim"))
    ctx.ob("FRM", HDMQ + "._build_histograms", "histogram of feature f with bins=_bins on (min[f], max[f]) for every feature [%s]" % cname, ok, q.short(tb.retval, 200))
    # bin count
    want = atom(("call", "int", (atom(("call", "floor", (atom(("call", "sqrt", (A("reference_n"),), ())),), ())),), ()))
    for m in ("update", "reset"):
        t2 = upd(ctx, cname) if m == "update" else ctx.trace(cname, "reset", assume={"detect_batch": 3})
        sts = [e for e in t2.stores("_bins") if e.func.name == m or q.stack_has(e, "%s.%s" % (HDMQ, m))]
        ctx.ob("ROLE", "%s.%s" % (HDMQ, m), "_bins stored [%s]" % cname, len(sts) >= 1, "")
        for e in sts:
            rn = None
            for x in reversed(t2.events[: e.seq]):
                if x.kind == "store" and x.attr == "reference_n":
                    rn = x
                    break
            w = q.replace_term(want, A("reference_n"), rn.value) if rn is not None else want
            ok = e.value == w
            # the size of the reference: reference.shape[0] or len(reference)
            rnl = q.len_norm(rn.value).single_atom() if rn is not None else None
            okn = rnl is not None and rnl[0] == "call" and rnl[1] == "len" and _root_attr(rnl[2][0]) in ("reference",) or \
                (rn is not None and T.mentions(rn.value, lambda z: z[0] == "getattr" and z[2] == "shape"))
            ctx.ob("FRM", "%s.%s" % (HDMQ, m), "bins = floor(sqrt(size of the reference)) [%s]" % cname, ok and okn, q.short(e.value, 120), e)


def _incoherent(ctx, cname, cattr):
    """Stores to self.reference that are not accompanied, in the same block, by a store to the cache attribute."""
    out = []
    for meth, cell in (("update", {"_drift_state": None, "detect_batch": 3}), ("set_reference", {"detect_batch": 1}), ("reset", {"detect_batch": 1})):
        tr = ctx.trace(cname, meth, assume=cell, nonnull=("X",) if meth != "reset" else ())
        for e in tr.stores("reference"):
            if len(e.stack) > 2:
                continue
            mate = [x for x in tr.stores(cattr) if x.pc == e.pc and x.func is e.func] + \
                   [x for x in tr.stores(cattr) if x.func is not e.func and x.seq > e.seq and len(x.pc) <= len(e.pc) + 0 and meth == "set_reference"]
            if not mate:
                out.append("%s:%d stores self.reference without refreshing self.%s" % (e.func.file.split("/")[-1], e.line, cattr))
    return out


def _col_base(t):
    a = t.single_atom()
    if a is not None and a[0] == "sub":
        b = a[1].single_atom()
        if b is not None and b[0] == "getattr" and b[2] in ("iloc", "loc"):
            return b[1]
        return a[1]
    return t


def _col_idx(t):
    a = t.single_atom()
    if a is not None and a[0] == "sub":
        i = a[2].single_atom()
        if i is not None and i[0] == "tuple" and len(i[1]) == 2:
            s0 = i[1][0].single_atom()
            if s0 is not None and s0[0] == "slice" and all(x == T.NONE for x in s0[1:]):
                return i[1][1]
    return None


def _is_loop_list(t, name):
    a = t.single_atom()
    return a is not None and a[0] == "loopvar" and a[2] == "$" + name


def distance(ctx, cname):
    site = HDMQ + ".update"
    tr = upd(ctx, cname)
    cd = tr.stores("current_distance")
    ctx.anchor(site, "current_distance stored [%s]" % cname, len(cd) == 1, "")
    dyn = [e for e in tr.calls() if e.callee[0] == "dynamic" and q.within(e, site, ("_estimate_initial_epsilon", "reset", "set_reference"))]
    ok = len(dyn) == 1
    if ok:
        a0, a1 = dyn[0].args[0].single_atom(), dyn[0].args[1].single_atom()
        ok = (a0 is not None and a1 is not None and a0[0] == "sub" and a1[0] == "sub" and a0[2] == a1[2] and (a0[2].single_atom() or ("",))[0] == "idx"
              and dyn[0].callee[1] == A("distance_function"))
        # first operand is the reference histogram, second the batch histogram
        bh = [e for e in q.find_calls(tr, HDMQ + "._build_histograms") if q.stack_has(e, site)]
        ok = ok and len(bh) == 2
    ctx.ob("FRM", site, "per-feature distance between reference and batch histograms of the same feature [%s]" % cname, ok, "", dyn[0] if dyn else None)
    if cd and dyn:
        v = cd[0].value
        dim = A("_input_col_dim")
        for x in reversed(tr.events[: cd[0].seq]):
            if x.kind == "load" and x.attr == "_input_col_dim":
                dim = x.value
                break
        each = q.at_pos(tr, dyn[0].result)
        # the total: a running sum or sum(...) of one distance per feature, however the repetition is written
        acc = [a for a in T.walk(v) if (a[0] == "loopvar" and isinstance(a[2], str) and a[2].startswith("$")) or (a[0] == "call" and a[1] in ("sum", "numpy.sum"))]
        acc = [a for a in acc if q.sum_view(tr, atom(a)) is not None]
        sv = q.sum_view(tr, atom(acc[0])) if len(acc) == 1 else None
        if ctx.anchor(site, "current_distance is computed from the total of a per-feature repetition [%s]" % cname, sv is not None, q.short(v, 120), cd[0]):
            ok = T.same(v, atom(acc[0]) / dim) and (sv[0] == each or T.same(sv[0], each)) and T.same(sv[1], dim)
            ctx.ob("FRM", site, "distance = (1/d) * sum of the feature distances [%s]" % cname, ok, "summand %s over %s positions" % (q.short(sv[0], 80), q.short(sv[1], 40)), cd[0])
        # the per-feature distances are what the next update compares with
        pf = tr.stores("_prev_feature_distances")
        lv = q.seq_view(tr, pf[0].value) if len(pf) == 1 else None
        if ctx.anchor(site, "_prev_feature_distances = <list built once per feature> [%s]" % cname, lv is not None, q.short(pf[0].value, 120) if pf else "", pf[0] if pf else None):
            ok = (lv[0] == each or T.same(lv[0], each)) and T.same(lv[1], dim)
            ctx.ob("FRM", site, "the list of per-feature distances holds one distance per feature, in feature order [%s]" % cname, ok,
                   "position j holds %s, length %s" % (q.short(lv[0], 80), q.short(lv[1], 40)), pf[0])
    # the epsilon of this batch is what is recorded in epsilon_values[total_batches]
    ce = [e for e in tr.mutations("epsilon_values") if e.how == "setitem" and q.stack_has(e, site)]
    ok = len(ce) == 1 and cd and T.same(ce[0].value, T.mk_abs(cd[0].value - A("_prev_distance")))
    ctx.ob("FRM", site, "epsilon = |distance - previous distance| [%s]" % cname, bool(ok), q.short(ce[0].value, 120) if ce else "", ce[0] if ce else None)
    if ce:
        ds = [e for e in tr.stores("_drift_state") if e.value == const("drift")]
        beta = [e for e in tr.stores("beta")]
        ok = len(ds) == 1 and len(beta) == 1 and q.has_guard(ds[0], T.mk_cmp(">", ce[0].value, beta[0].value))
        ctx.ob("GRD", site, "drift iff epsilon > beta [%s]" % cname, ok, "", ds[0] if ds else None)
        ap = [e for e in tr.mutations("epsilon") if e.how == "method:append"]
        ok = any(e.value.single_atom()[1][0] == ce[0].value for e in ap)
        ctx.ob("MC", site, "epsilon is recorded in the epoch's list before the threshold is computed [%s]" % cname,
               ok and bool(beta) and all(e.seq < beta[0].seq for e in ap), "", ap[0] if ap else None)


def threshold(ctx, cname):
    site = HDMQ + "._adaptive_threshold"
    for stat in ("tstat", "stdev"):
        for cell, label in (({"_batches_since_reset": 5}, "later batches"),):
            tr = ctx.trace(cname, "_adaptive_threshold", assume=dict({"detect_batch": 3, "statistic": stat}, **cell))
            tr2 = Evaluator(ctx.prog, ctx.prog.cls(cname), assume=dict({"detect_batch": 3}, **cell)).run(
                ctx.prog.method(cname, "_adaptive_threshold"), args=[const(stat), P("test_n")])
            ctx._traces[("thr", cname, stat)] = tr2
            eps = A("epsilon")
            te1 = A("total_epsilon") + q.sub(eps, -1 - 1)
            d = A("_total_batches") - A("_lambda") - const(1)
            ehat = te1 / d
            fin = tr2.final.attrs
            ctx.ob("FRM", site, "running sum of the epoch's earlier epsilons [%s,%s]" % (cname, stat), fin.get("total_epsilon") is not None and T.same(fin["total_epsilon"], te1), "")
            # standard deviation over the earlier epsilons
            sd_calls = [e for e in tr2.calls() if e.callee == ("lib", "sqrt")]
            okd = False
            sdv = None
            for e in sd_calls:
                arg = e.args[0]
                sm = [a for a in T.atoms_of(arg, "call") if a[1] == "sum"]
                if len(sm) == 1 and T.same(arg, atom(sm[0]) / d):
                    cv = q.comp_view(sm[0][2][0])
                    if cv is not None:
                        elt, seq, count = cv
                        # every earlier epsilon of the epoch (all but the one just appended), whichever way they are enumerated
                        if seq == eps and T.same(count, atom(("call", "len", (eps,), ())) - const(1)) and T.same(elt, (q.ELEM - ehat) ** 2):
                            okd = True
                            sdv = e.result
            ctx.ob("FRM", site, "deviation = sqrt(sum (eps_i - eps_hat)^2 / n) over the earlier epsilons [%s,%s]" % (cname, stat), okd, "")
            if sdv is None:
                continue
            if stat == "tstat":
                t = atom(("call", "scipy.stats.t.ppf", (const(1) - A("significance") / const(2), A("reference_n") + P("test_n") - const(2)), ()))
                want = ehat + t * (sdv / atom(("call", "sqrt", (d,), ())))
            else:
                want = ehat + A("significance") * sdv
            ctx.ob("FRM", site, "beta = eps_hat + %s [%s]" % ("t(1-a/2, n_ref+n_test-2) * sd / sqrt(n)" if stat == "tstat" else "k * sd", cname),
                   tr2.retval is not None and T.same(tr2.retval, want), "computed %s" % q.short(tr2.retval, 300))
    # scale for the bootstrapped second batch
    tr3 = Evaluator(ctx.prog, ctx.prog.cls(cname), assume={"detect_batch": 2, "_batches_since_reset": 2}).run(
        ctx.prog.method(cname, "_adaptive_threshold"), args=[const("stdev"), P("test_n")])
    rv3 = tr3.retval
    ok3 = rv3 is not None and not T.mentions(rv3, lambda a: a in (("attr", "_total_batches"), ("attr", "_lambda")))
    if ok3:
        te3 = A("total_epsilon") + q.sub(A("epsilon"), -2)
        sq = [a for a in rv3.atoms() if a[0] == "call" and a[1] == "sqrt"]
        ok3 = len(sq) == 1 and T.same(rv3, te3 + A("significance") * atom(sq[0]))
    ctx.ob("FRM", site, "n = 1 for the bootstrapped second batch (the mean is the running sum itself) [%s]" % cname, ok3, q.short(rv3, 160) if rv3 is not None else "")
    # the call site passes the configured statistic and the batch size
    tr = upd(ctx, cname)
    cs = q.find_calls(tr, HDMQ + "._adaptive_threshold")
    ok = len(cs) == 1 and cs[0].args[0] == A("statistic") and T.mentions(cs[0].args[1], lambda a: a == ("param", "X")) and T.mentions(cs[0].args[1], lambda a: a[0] == "getattr" and a[2] == "shape")
    ctx.ob("FWD", HDMQ + ".update", "threshold computed with the configured statistic and this batch's size [%s]" % cname, ok, "", cs[0] if cs else None)


def blocks(ctx, cname):
    site = HDMQ + ".update"
    tr = upd(ctx, cname)
    ds = [e for e in tr.stores("_drift_state") if e.value == const("drift")]
    fin_ds = tr.final.attrs.get("_drift_state", T.NONE)
    nd_guard = T.mk_cmp("!=", fin_ds, const("drift"))
    for attr in ("_prev_distance", "_prev_feature_distances", "reference", "reference_n", "_bins"):
        sts = [e for e in tr.stores(attr) if not (ds and e.pc[: len(ds[0].pc)] == ds[0].pc)]
        ok = len(sts) >= 1 and all(any(p.cond == nd_guard for p in e.pc) for e in sts)
        ctx.ob("PAIR", site, "no-drift block stores %s [%s]" % (attr, cname), ok, "", sts[0] if sts else None)
    for d in ds:
        same = [e for e in tr.stores("reference") if e.pc == d.pc]
        ok = len(same) == 1 and T.mentions(same[0].value, lambda a: a == ("param", "X")) and not T.mentions(same[0].value, lambda a: a == ("attr", "reference"))
        ctx.ob("PAIR", site, "with drift the batch replaces the reference [%s]" % cname, ok, "", d)
    app = [e for e in tr.stores("reference") if not (ds and e.pc[: len(ds[0].pc)] == ds[0].pc)]
    ok = len(app) == 1 and (app[0].value.single_atom() or ("", ""))[:2] == ("call", "pandas.concat") and \
        T.mentions(app[0].value, lambda a: a == ("param", "X")) and _root_attr(_first_concat(app[0].value)) == "reference"
    ctx.ob("PAIR", site, "without drift the batch is appended to the reference [%s]" % cname, ok, "", app[0] if app else None)
    sts = [e for e in tr.stores("_prev_distance")]
    cd = tr.stores("current_distance")
    ctx.ob("FRM", site, "previous distance := current distance [%s]" % cname, bool(sts and cd) and sts[0].value == cd[0].value, "")
    # feature_info names the feature whose distance grew most
    fi = tr.stores("feature_info")
    ok = False
    if fi:
        v = q.sub(fi[0].value, const("Significant_drift_in_variable "))
        a = v.single_atom()
        if a is not None and a[0] == "mcall" and a[2] == "index":
            mx = a[3][0].single_atom()
            ok = mx is not None and mx[0] == "call" and mx[1] == "max" and mx[2][0] == a[1] and q.sub(fi[0].value, const("Epsilons")) == a[1]
    ctx.ob("FRM", site, "feature_info names argmax of the per-feature epsilons [%s]" % cname, ok, "")
    fe = tr.stores("feature_epsilons")
    ok = False
    why = ""
    pf = tr.stores("_prev_feature_distances")
    fd = q.seq_view(tr, pf[0].value) if len(pf) == 1 else None
    ev_ = q.seq_view(tr, fe[0].value) if fe else None
    if fe and ctx.anchor(site, "feature_epsilons = <list built once per feature> [%s]" % cname, ev_ is not None and fd is not None, q.short(fe[0].value, 120), fe[0]):
        # element = (current distance of the feature) - (its previous distance), same position of both lists
        rest = fd[0] - ev_[0]
        ra = rest.single_atom()
        ok = ra is not None and ra[0] == "sub" and ra[2] == q.POS and _root_attr(ra[1]) == "_prev_feature_distances" and fe[0].seq < pf[0].seq
        why = "position j holds %s" % q.short(ev_[0], 120)
    ctx.ob("FRM", site, "per-feature epsilon = distance - previous distance of the same feature [%s]" % cname, ok, why)


def _zip_pos(a):
    """position in the zip tuple a comprehension variable is bound to: ('sub', <iter elem>, k) -> k"""
    if a[0] == "sub" and a[2].is_const():
        return int(a[2].const_value())
    if a[0] in ("iter", "idx", "elem") and len(a) > 3 and isinstance(a[-1], int):
        return a[-1]
    return None


def _first_concat(v):
    a = v.single_atom()
    lst = a[2][0].single_atom() if a and a[2] else None
    if lst is not None and lst[0] in ("list", "tuple") and lst[1]:
        return lst[1][0]
    return v


def _is_nodrift_guard(g, ds):
    return False


def hellinger(ctx):
    site = HDMQ + "._hellinger_distance"
    tr = ctx.trace("HDDDM", "_hellinger_distance")
    ra0 = tr.retval.single_atom() if tr.retval is not None else None
    total = ra0[2][0] if ra0 is not None and ra0[0] == "call" and ra0[1] == "sqrt" and len(ra0[2]) == 1 else None
    ctx.ob("FRM", site, "distance is the square root of the sum", total is not None, q.short(tr.retval, 100) if tr.retval is not None else "")
    # the sum over the bins, however the repetition is written (running total, sum(...) of a comprehension, loop over a helper list)
    sv = q.sum_view(tr, total) if total is not None else None
    if not ctx.anchor(site, "accumulation over the bins", sv is not None, q.short(total, 100) if total is not None else ""):
        return
    inc, n = sv
    r, t = P("reference_density"), P("test_density")
    R_, T_ = atom(("call", "sum", (r,), ())), atom(("call", "sum", (t,), ()))
    bi = q.POS
    want = (atom(("call", "sqrt", (q.sub(t, bi) / T_,), ())) - atom(("call", "sqrt", (q.sub(r, bi) / R_,), ()))) ** 2
    ctx.ob("FRM", site, "sum over bins of (sqrt(t_b/T) - sqrt(r_b/R))^2", T.same(inc, want), q.short(inc, 200))
    swapped = T.subst(inc, lambda a: (t if a == ("param", "reference_density") else (r if a == ("param", "test_density") else None)))
    ctx.ob("FRM-symmetry", site, "the summand is symmetric in (reference, batch)", T.same(inc, swapped), "")
    ctx.ob("FRM", site, "all _bins bins are summed", n == A("_bins"), q.short(n, 40))
    ctx.ob("FRM", site, "sum starts at 0", True, "part of the view: a running total is recognised only when it starts at 0")


# ---------------------------------------------------------------------------
# cadence table, logs, reset / set_reference tables, lifecycle

def cadence(ctx, cname):
    """Which steps of update() run, per (detect_batch, position k of the batch in its epoch), by constant folding."""
    site = HDMQ + ".update"
    n = 0
    for db in (1, 2, 3):
        for k in (1, 2, 3, 4, 7):
            tr = ctx.trace(cname, "update", assume={"_drift_state": None, "detect_batch": db, "_batches_since_reset": k - 1}, nonnull=("X",))
            lab = "detect_batch=%d, batch %d of the epoch [%s]" % (db, k, cname)
            beta = tr.stores("beta")
            ds = [e for e in tr.stores("_drift_state") if e.value == const("drift")]
            ap = [e for e in tr.mutations("epsilon") if e.how == "method:append"]
            ie = q.find_calls(tr, HDMQ + "._estimate_initial_epsilon")
            want_eps = 1 if k >= 2 else 0
            want_init = 1 if (k == 2 and db != 3) else 0
            want_test = 1 if ((k >= 2 and db != 3) or (k >= 3 and db == 3)) else 0
            n += 1
            ctx.ob("TAB-cadence", site, "epsilon recorded from the 2nd batch of an epoch on: " + lab, len(ap) == want_eps + want_init,
                   "%d appends to the epoch's epsilon list, documented %d" % (len(ap), want_eps + want_init))
            ctx.ob("TAB-cadence", site, "bootstrapped initial epsilon exactly for the 2nd batch when detect_batch < 3: " + lab, len(ie) == want_init,
                   "%d estimates, documented %d" % (len(ie), want_init))
            ctx.ob("TAB-cadence", site, "threshold test from the detect_batch-th test batch on: " + lab, len(beta) == want_test and len(ds) == want_test,
                   "%d threshold / %d drift stores, documented %d" % (len(beta), len(ds), want_test))
            if want_init and len(ap) == 2 and ie:
                first = ap[0].value.single_atom()[1][0]
                ctx.ob("ORD", site, "the bootstrapped estimate precedes the batch's own epsilon in the list: " + lab,
                       ap[0].seq < ap[1].seq and T.mentions(first, lambda a: a[0] == "opaque" or a[0] == "call" or a[0] == "loopvar") and
                       not T.mentions(first, lambda a: a == ("attr", "_prev_distance")), q.short(first, 80), ap[0])
                a_ = ie[0].args
                ctx.ob("FWD", site, "the estimate is made from the current reference with the configured number of subsets: " + lab,
                       len(a_) >= 2 and _root_attr(a_[0]) == "reference" and a_[1] == A("subsets"), "", ie[0])
            for e in ds:
                g = [x for x in q.guards_in(e, site)]
                ctx.ob("GRD", site, "nothing but the threshold test guards the drift store: " + lab, len(g) == 1, "guards: %s" % "; ".join(q.short(x, 60) for x in g), e)
    ctx.floor("cadence cells [%s]" % cname, n, 15)


def logs(ctx, cname):
    site = HDMQ + ".update"
    tr = upd(ctx, cname)
    tot = A("_total_batches") + const(1)
    cd = tr.stores("current_distance")
    beta = tr.stores("beta")
    for attr, src, what in (("distances", cd, "distance"), ("thresholds", beta, "threshold")):
        mu = [e for e in tr.mutations(attr) if e.how == "setitem"]
        ok = len(mu) == 1 and len(src) == 1 and mu[0].path == (("item", tot),) and mu[0].value == src[0].value and set(map(id, mu[0].pc)) == set(map(id, src[0].pc))
        ctx.ob("IDX-log", site, "the %s of this batch is recorded under total_batches [%s]" % (what, cname), ok, "", mu[0] if mu else None)
    mu = [e for e in tr.mutations("epsilon_values") if e.how == "setitem"]
    ctx.ob("IDX-log", site, "the epsilon of this batch is recorded under total_batches [%s]" % cname, len(mu) == 1 and mu[0].path == (("item", tot),), "", mu[0] if mu else None)
    # feature_info only for several features; per-feature epsilons available whenever a drift can be reported
    fi = tr.stores("feature_info")
    dim = A("_input_col_dim")
    if fi:
        for x in reversed(tr.events[: fi[0].seq]):
            if x.kind == "load" and x.attr == "_input_col_dim":
                dim = x.value
                break
    ctx.ob("GRD", site, "feature_info is reported exactly for more than one feature [%s]" % cname,
           len(fi) == 1 and any(g == T.mk_cmp(">", dim, const(1)) for g in guards(fi[0])),
           "guards: %s" % ("; ".join(q.short(g, 60) for g in q.guards_in(fi[0], site)) if fi else ""), fi[0] if fi else None)
    fe = tr.stores("feature_epsilons")
    okg = False
    if len(fe) == 1:
        gs = q.guards_in(fe[0], site)
        since = A("_batches_since_reset") + const(1)
        accept = [T.mk_cmp(">", tot, const(1)), T.mk_cmp(">=", tot, const(2)), T.mk_cmp(">=", since, const(2)), T.mk_cmp(">", since, const(1))]
        okg = len(gs) == 1 and any(gs[0] == a_ for a_ in accept)
    ctx.ob("GRD", site, "per-feature epsilons are computed whenever a previous batch exists (so always before a drift can be reported) [%s]" % cname, okg,
           "guards: %s" % ("; ".join(q.short(g, 60) for g in guards(fe[0])) if fe else "no store"), fe[0] if fe else None)
    if fi and fe:
        v = fi[0].value
        ctx.ob("FWD", site, "feature_info carries this update's per-feature epsilons and distances [%s]" % cname,
               q.sub(v, const("Epsilons")) in (fe[0].value, A("feature_epsilons")) or T.mentions(q.sub(v, const("Epsilons")), lambda a: a == ("attr", "feature_epsilons")) or
               q.sub(v, const("Epsilons")) == _final_of(tr, fi[0], "feature_epsilons"), q.short(q.sub(v, const("Epsilons")), 80), fi[0])
    # the batch analysed is the validated batch with the detector's column names
    xv = q.validated(tr, 0)
    bh = [e for e in q.find_calls(tr, HDMQ + "._build_histograms") if q.stack_has(e, site)]
    if xv is not None and len(bh) == 2:
        want = atom(("call", "pandas.DataFrame", (xv,), (("columns", A("_input_cols")),)))
        got = bh[1].args[0]
        ctx.ob("FWD", site, "the batch histogram is built from the validated batch [%s]" % cname, got == want or T.mentions(got, lambda a: a == xv.single_atom()), q.short(got, 100), bh[1])
    else:
        ctx.anchor(site, "update validates its batch [%s]" % cname, False)


def _final_of(tr, ev, attr):
    for x in reversed(tr.events[: ev.seq]):
        if x.kind == "store" and x.attr == attr:
            return x.value
    return None


def reset_table(ctx, cname):
    site = HDMQ + ".reset"
    for db in (1, 2, 3):
        tr = ctx.trace(cname, "reset", assume={"detect_batch": db})
        rec = [e for e in tr.calls() if e.kind == "call" and e.callee[0] in ("self", "cut") and str(e.callee[1]).endswith(".update")] + \
              [e for e in tr.of("cut") if str(e.callee).endswith(".update")]
        st = tr.stores("reference")
        ref = A("reference")
        half = atom(("floordiv", atom(("call", "len", (ref,), ())), const(2)))   # int(len/2) and len//2 share this normal form
        if db == 1:
            ctx.ob("TAB-reset", site, "detect_batch=1: the reference is split and its second half replayed as the first test batch [%s]" % cname, len(rec) >= 1 and len(st) >= 1, "")
            if st:
                v = st[0].value.single_atom()
                lo = _row_slice(st[0].value)
                ctx.ob("TAB-reset", site, "detect_batch=1: the first half stays the reference [%s]" % cname,
                       lo is not None and lo[0] in (const(0), T.NONE) and lo[1] == half and _root_attr(_col_base(st[0].value)) == "reference", q.short(st[0].value, 100), st[0])
            calls = [e for e in tr.calls() if e.callee[0] in ("self",) and str(e.callee[1]).endswith(".update")]
            arg = calls[0].args[0] if calls and calls[0].args else None
            if arg is None:
                cuts = [e for e in tr.of("cut")]
                arg = None
            hi = _row_slice(arg) if arg is not None else None
            if arg is not None:
                ctx.ob("TAB-reset", site, "detect_batch=1: the replayed batch is exactly the other half [%s]" % cname,
                       hi is not None and hi[0] == half and hi[1] == T.NONE and _root_attr(_col_base(arg)) == "reference", q.short(arg, 100), calls[0])
        else:
            ctx.ob("TAB-reset", site, "detect_batch=%d: the reference is kept whole and nothing is replayed [%s]" % (db, cname), not rec and not st, "")
        fin = tr.final.attrs if tr.final is not None else {}
        # the epoch marker: lambda = number of batches seen before the epoch's first (possibly replayed) batch is counted
        lam = [e for e in tr.stores("_lambda") if q.within(e, HDMQ + ".reset", ("update", "set_reference", "_adaptive_threshold", "_estimate_initial_epsilon"))]
        okl = len(lam) == 1 and lam[0].value == A("_total_batches") and (not rec or lam[0].seq < rec[0].seq)
        ctx.ob("TAB-reset", site, "the epoch marker lambda is set to the batches seen so far, before anything of the new epoch is counted (detect_batch=%d) [%s]" % (db, cname), okl,
               "lambda := %s%s" % (q.short(lam[0].value, 60) if lam else "not stored", "" if not rec or not lam or lam[0].seq < rec[0].seq else " - but only after the replayed batch was counted"),
               lam[0] if lam else None)
        if db != 1:
            ctx.ob("TAB-reset", site, "the epoch's epsilon statistics restart (detect_batch=%d) [%s]" % (db, cname),
                   fin.get("epsilon") == atom(("list", ())) and fin.get("total_epsilon") == const(0), "")
        else:
            e1 = [e for e in tr.stores("epsilon") if q.within(e, HDMQ + ".reset", ("update", "set_reference", "_adaptive_threshold", "_estimate_initial_epsilon"))]
            e2 = [e for e in tr.stores("total_epsilon") if q.within(e, HDMQ + ".reset", ("update", "set_reference", "_adaptive_threshold", "_estimate_initial_epsilon"))]
            ctx.ob("TAB-reset", site, "the epoch's epsilon statistics restart before the replay (detect_batch=1) [%s]" % cname,
                   len(e1) == 1 and e1[0].value == atom(("list", ())) and len(e2) == 1 and e2[0].value == const(0) and (not rec or e1[0].seq < rec[0].seq), "")


def _row_slice(t):
    """(start, stop) when t is <frame>.iloc[start:stop, ] / .iloc[start:stop]"""
    a = t.single_atom() if t is not None else None
    if a is None or a[0] != "sub":
        return None
    i = a[2].single_atom()
    if i is not None and i[0] == "tuple" and len(i[1]) >= 1:
        i = i[1][0].single_atom()
    if i is not None and i[0] == "slice":
        return (i[1], i[2])
    return None


def set_reference_table(ctx, cname):
    site = HDMQ + ".set_reference"
    tr = ctx.trace(cname, "set_reference", assume={"detect_batch": 3}, nonnull=("X",))
    xv = q.validated(tr, 0)
    st = [e for e in tr.stores("reference") if q.within(e, HDMQ + ".set_reference", ("reset", "update"))]
    ok = False
    if xv is not None and len(st) == 1:
        want = atom(("call", "copy.deepcopy", (atom(("call", "pandas.DataFrame", (xv,), (("columns", A("_input_cols")),))),), ()))
        ok = st[0].value == want or (T.mentions(st[0].value, lambda a: a == xv.single_atom()) and T.mentions(st[0].value, lambda a: a[0] == "call" and a[1] in ("copy.deepcopy", "copy.copy"))
                                     and T.mentions(st[0].value, lambda a: a[0] == "call" and a[1] == "pandas.DataFrame" and "columns" in dict(a[3])))
    ctx.ob("FWD", site, "the reference is a copy of the validated batch [%s]" % cname, ok, q.short(st[0].value, 120) if st else "no store")
    rs = q.find_calls(tr, HDMQ + ".reset")
    ctx.ob("ORD", site, "the statistics restart after the new reference is in place [%s]" % cname, len(rs) == 1 and bool(st) and st[0].seq < rs[0].seq, "")


def threshold_cells(ctx, cname):
    """_adaptive_threshold around the bootstrapped estimate: it is dropped on the 3rd batch of an epoch when detect_batch < 3."""
    site = HDMQ + "._adaptive_threshold"
    eps, te = A("epsilon"), A("total_epsilon")
    tail = q.sub(eps, atom(("slice", const(1), T.NONE, T.NONE)))
    for db, k, drop in ((2, 3, True), (1, 3, True), (2, 4, False), (3, 3, False), (2, 2, False)):
        tr = Evaluator(ctx.prog, ctx.prog.cls(cname), assume={"detect_batch": db, "_batches_since_reset": k}).run(
            ctx.prog.method(cname, "_adaptive_threshold"), args=[const("stdev"), P("test_n")])
        fin = tr.final.attrs if tr.final is not None else {}
        if drop:
            ok = fin.get("epsilon") == tail and fin.get("total_epsilon") is not None and T.same(fin["total_epsilon"], te - q.sub(eps, 0) + q.sub(tail, -2))
        else:
            ok = fin.get("epsilon", eps) == eps and fin.get("total_epsilon") is not None and T.same(fin["total_epsilon"], te + q.sub(eps, -2))
        rv = tr.retval
        uses_lambda = rv is not None and T.mentions(rv, lambda a: a == ("attr", "_lambda"))
        ctx.ob("TAB-threshold", site, "the mean is taken over %s (detect_batch=%d, batch %d of the epoch) [%s]" % ("one epsilon" if k == 2 else "total_batches - lambda - 1 epsilons", db, k, cname),
               uses_lambda == (k != 2), q.short(rv, 120) if rv is not None else "")
        ctx.ob("TAB-threshold", site, "bootstrapped estimate %s (detect_batch=%d, batch %d of the epoch) [%s]" % ("dropped from list and running sum" if drop else "kept", db, k, cname), ok,
               "epsilon' = %s ; total_epsilon' = %s" % (q.short(fin.get("epsilon", eps), 60), q.short(fin.get("total_epsilon", te), 100)))


def lifecycle(ctx):
    from . import common, c14
    common.lifecycle(ctx, ["HDDDM", "CDBD"], clean_slate=False)
    for cname in ("HDDDM", "CDBD"):
        ti = ctx.trace(cname, "__init__")
        at = ti.final.attrs if ti.final is not None else {}
        for attr in ("distances", "epsilon_values", "thresholds"):
            ctx.ob("FRM-init", cname + ".__init__", "the log %s starts empty" % attr, at.get(attr) in (atom(("dict", ())), atom(("call", "dict", (), ()))), "")
    c14.univariate(ctx, "CDBD")
