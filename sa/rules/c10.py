"""C10 - NN space partitioner and NN-DVI."""
from .. import terms as T
from ..terms import const, atom
from .. import q
from ..q import A, P, S, guards
from ..evalr import Evaluator
from . import c01

NSP = "NNSpacePartitioner"


def run(ctx):
    ctx.explanation = (
        "membership split of the pooled inverse index at len(sample1), one-hot membership marking, k-NN adjacency construction, "
        "NNPS distance formula and its symmetry, permutation threshold (complementary re-assignment, normal fit, 1 - alpha quantile), "
        "decision and reference replacement in NNDVI.update")
    ctx.assumptions += ["the k-NN relation itself is library behaviour", "range [0,1] and value 0 for equal sets are not decided"]
    build(ctx)
    distance(ctx)
    threshold(ctx)
    update(ctx)
    reference_and_lifecycle(ctx)


def build(ctx):
    site = NSP + ".build"
    tr = ctx.trace(NSP, "build")
    s1, s2 = P("sample1"), P("sample2")
    un = [e for e in tr.calls() if e.callee == ("lib", "numpy.unique") and dict(e.kwargs).get("return_inverse") == T.TRUE]
    if not ctx.anchor(site, "pooling through np.unique(..., return_inverse=True)", len(un) == 1 and un[0].args):
        return
    pooled = un[0].args[0]
    pa = pooled.single_atom()
    parts = None
    if pa is not None and pa[0] == "call" and pa[1] == "numpy.vstack" and pa[2]:
        tp = pa[2][0].single_atom()
        if tp is not None and tp[0] in ("tuple", "list") and len(tp[1]) == 2:
            parts = tp[1]
    own = lambda t, mine, other: T.mentions(t, lambda a: a == ("param", mine)) and not T.mentions(t, lambda a: a == ("param", other))
    ok = parts is not None and own(parts[0], "sample1", "sample2") and own(parts[1], "sample2", "sample1")
    ctx.ob("FRM", site, "pooled data = (rows of) sample1 stacked on (rows of) sample2", ok, q.short(pooled, 80), un[0])
    if ok and parts[0] != s1:
        # the first block is not sample1 itself (e.g. de-duplicated first): the split below must use the length of what was stacked
        s1 = parts[0]
    ok = dict(un[0].kwargs).get("axis") == const(0) and dict(un[0].kwargs).get("return_inverse") == T.TRUE
    ctx.ob("FRM", site, "de-duplicated union with the inverse index (row-wise unique)", ok, "", un[0])
    inv = q.sub(un[0].result, 1)
    D = q.sub(un[0].result, 0)
    n1 = atom(("call", "len", (s1,), ()))
    fin = tr.final.attrs
    zeros = atom(("call", "numpy.zeros", (q.sub(atom(("getattr", D, "shape")), 0),), ()))
    for attr, idx in (("v1", q.sub(inv, atom(("slice", T.NONE, n1, T.NONE)))), ("v2", q.sub(inv, atom(("slice", n1, T.NONE, T.NONE))))):
        v = fin.get(attr)
        a = v.single_atom() if v is not None else None
        ok = a is not None and a[0] == "setitem" and a[1] == zeros and a[2] == idx and a[3] == const(1.0)
        ctx.ob("FRM", site, "%s is the 0/1 membership vector of its sample over the union (zeros, then 1 at the sample's unique points)" % attr, ok,
               "found %s" % (q.short(v, 160) if v is not None else None))
        got_idx = a[2] if a is not None and a[0] == "setitem" else None
        ctx.ob("PARTITION", site, "%s marks the part of the pooled index that belongs to its sample (split at len(sample1))" % attr, got_idx == idx,
               "a positional split of pooled rows must be taken at the size of the first operand: %s" % (q.short(got_idx, 80) if got_idx is not None else None))
    ctx.ob("FRM", site, "D is the de-duplicated union", fin.get("D") == D, "")
    # adjacency
    nn = [e for e in tr.calls() if e.callee == ("lib", "sklearn.neighbors.NearestNeighbors")]
    ok = len(nn) == 1 and dict(nn[0].kwargs).get("n_neighbors") == A("k")
    ctx.ob("FRM", site, "k nearest neighbours with k = self.k", ok, "")
    kg = [e for e in tr.calls() if e.callee[0] == "mcall" and e.callee[1] == "kneighbors_graph"]
    ft = [e for e in tr.calls() if e.callee[0] == "mcall" and e.callee[1] == "fit"]
    ok = len(kg) == 1 and kg[0].args == (D,) and len(ft) == 1 and ft[0].args == (D,)
    ctx.ob("FRM", site, "adjacency is the k-NN graph of the union fitted on the union (each point included)", ok, "")
    adj = fin.get("adjacency_matrix")
    ok = adj is not None and kg and adj == atom(("mcall", kg[0].result, "toarray", (), ()))
    ctx.ob("FRM", site, "adjacency_matrix is that graph", bool(ok), "")
    nm = fin.get("nnps_matrix")
    a = nm.single_atom() if nm is not None else None
    ok = a is not None and a[0] == "call" and a[1] == "numpy.matmul" and a[2][1] == adj
    if ok:
        w = atom(("mcall", atom(("call", "numpy.sum", (adj,), (("axis", const(1)),))), "astype", (atom(("global", "builtins.int")),), ()))
        Q = atom(("call", "numpy.lcm.reduce", (w,), ()))
        m = Q / w
        ok = T.same(q.len_norm(a[2][0]), m * atom(("call", "numpy.identity", (atom(("call", "len", (m,), ())),), ())))
    ctx.ob("FRM", site, "nnps_matrix = diag(Q / row weight) * adjacency, Q = lcm of the row weights", ok, q.short(nm, 200) if nm is not None else "")


def distance(ctx):
    site = NSP + ".compute_nnps_distance"
    tr = ctx.trace(NSP, "compute_nnps_distance")
    M, v1, v2 = P("nnps_matrix"), P("v1"), P("v2")
    a, b = atom(("call", "numpy.dot", (v1, M), ())), atom(("call", "numpy.dot", (v2, M), ()))
    num = atom(("call", "numpy.sum", (T.mk_abs(a - b) / (a + b),), ()))
    want1 = num / atom(("call", "len", (v1,), ()))
    want2 = num / atom(("call", "len", (v2,), ()))
    got = tr.retval
    ctx.ob("FRM", site, "sum(|a - b| / (a + b)) / |D| with a = v1.M, b = v2.M", got is not None and (T.same(got, want1) or T.same(got, want2)), q.short(got, 200))
    if got is not None:
        sw = T.subst(got, lambda x: (v2 if x == ("param", "v1") else (v1 if x == ("param", "v2") else None)))
        sw = _renorm_abs(sw)
        g2 = _renorm_abs(got)
        # ignore which of len(v1)/len(v2) is used (both are |D|)
        def nolen(t):
            return T.subst(t, lambda x: atom(("sym", "D")) if x[0] == "call" and x[1] == "len" else None)
        ctx.ob("FRM-symmetry", site, "the distance is symmetric in the two samples", T.same(nolen(g2), nolen(sw)), "")


def _renorm_abs(t):
    return T.subst(t, lambda a: None)


def threshold(ctx):
    site = "NNDVI._compute_drift_threshold"
    tr = ctx.trace("NNDVI", "_compute_drift_threshold")
    pm = [e for e in tr.calls() if e.callee == ("lib", "numpy.random.permutation")]
    ctx.ob("FRM", site, "membership of the reference sample is re-assigned by a random permutation", len(pm) == 1 and pm[0].args == (P("v_ref"),), "", pm[0] if pm else None)
    dc = q.find_calls(tr, NSP + ".compute_nnps_distance")
    ok = len(dc) == 1 and pm and tuple(dc[0].args) == (P("M_nnps"), pm[0].result, const(1) - pm[0].result)
    ctx.ob("PARTITION", site, "the second group is the exact complement of the first (v2' = 1 - v1')", bool(ok),
           "every pooled point must be re-assigned to exactly one group: %s" % (q.short(dc[0].args[2], 100) if dc else ""), dc[0] if dc else None)
    ft = [e for e in tr.calls() if e.callee == ("lib", "scipy.stats.norm.fit")]
    ra = tr.retval.single_atom() if tr.retval is not None else None
    ok = len(ft) == 1 and ra is not None and ra[0] == "call" and ra[1] == "scipy.stats.norm.ppf"
    if ok:
        # ppf(q, loc, scale), each positional or by keyword
        kw = dict(ra[3])
        pos = list(ra[2])
        qv = pos[0] if pos else kw.get("q")
        loc = pos[1] if len(pos) > 1 else kw.get("loc")
        scale = pos[2] if len(pos) > 2 else kw.get("scale")
        ok = qv is not None and T.same(qv, const(1) - P("alpha")) and (loc, scale) == (q.sub(ft[0].result, 0), q.sub(ft[0].result, 1)) \
            and len(pos) + len(kw) == 3
    ctx.ob("POL", site, "threshold = (1 - alpha) quantile of the normal fitted to the permutation distances", ok, q.short(tr.retval, 160))
    col = q.collected(tr, ft[0].args[0]) if ft and ft[0].args else None
    ctx.ob("FRM", site, "sampling_times repetitions", col is not None and col[1] == P("sampling_times"), q.short(col[1], 60) if col else "the fitted sample is not one value per repetition")
    ok = col is not None and dc and _is_ret_of(tr, dc[0], col[0])
    ctx.ob("FRM", site, "every permutation distance enters the fit", bool(ok), "")


def _is_ret_of(tr, callev, t):
    from .c08 import _is_ret
    return _is_ret(tr, callev, t)


def update(ctx):
    site = "NNDVI.update"
    tr = ctx.trace("NNDVI", "update", assume={"_drift_state": None}, nonnull=("X",))
    bd = [e for e in tr.calls() if e.callee[0] == "foreign" and e.callee[2] == "build"]
    ok = len(bd) == 1 and bd[0].args[0] == A("reference_batch") and T.mentions(bd[0].args[1], lambda a: a == ("param", "X"))
    ctx.ob("FRM", site, "partition built from (reference batch, test batch) in that order", ok, "", bd[0] if bd else None)
    new = [e for e in tr.calls() if e.callee == ("new", NSP)]
    ctx.ob("FWD", site, "partitioner uses k_nn neighbours", len(new) == 1 and new[0].args == (A("k_nn"),), "")
    dc = [e for e in q.find_calls(tr, NSP + ".compute_nnps_distance") if q.within(e, site, ("_compute_drift_threshold",))]
    th = q.find_calls(tr, "NNDVI._compute_drift_threshold")
    def attr_of(t):
        a = t.single_atom()
        return a[2] if a is not None and a[0] == "getattr" else None
    ok = len(dc) == 1 and (attr_of(dc[0].args[0]), attr_of(dc[0].args[1]), attr_of(dc[0].args[2])) == ("nnps_matrix", "v1", "v2")
    ctx.ob("FRM", site, "actual distance from (nnps_matrix, v1, v2)", ok, "", dc[0] if dc else None)
    ok = False
    if len(th) == 1 and dc:
        b = q.bind(th[0])
        ok = len(dc[0].args) >= 3 and (b.get("M_nnps"), b.get("v_ref"), b.get("v_test")) == tuple(dc[0].args[:3]) and \
            (b.get("sampling_times"), b.get("alpha")) == (A("sampling_times"), A("alpha"))
    ctx.ob("FWD", site, "threshold from the same matrix and memberships with sampling_times and alpha", bool(ok), "", th[0] if th else None)
    ds = [e for e in tr.stores("_drift_state") if e.value == const("drift")]
    ctx.ob("ROLE", site, "drift store", len(ds) == 1, "")
    if ds and dc and th:
        d_act = dc[0].result if dc[0].callee[0] == "foreign" else None   # called through the partitioner object: not inlined
        for e in (tr.events[dc[0].seq:] if d_act is None else ()):
            if e.kind == "return" and e.func.name == "compute_nnps_distance":
                d_act = e.value
                break
        theta = None
        for e in tr.events[th[0].seq:]:
            if e.kind == "return" and e.func.name == "_compute_drift_threshold":
                theta = e.value
                break
        ok = d_act is not None and theta is not None and q.has_guard(ds[0], T.mk_cmp(">", d_act, theta))
        ctx.ob("GRD", site, "drift iff distance > threshold", ok, "", ds[0])


def reference_and_lifecycle(ctx):
    site = "NNDVI.update"
    tr = ctx.trace("NNDVI", "update", assume={"_drift_state": None}, nonnull=("X",))
    xv = q.validated(tr, 0)
    tb = atom(("call", "numpy.array", (xv,), ())) if xv is not None else None
    ds = [e for e in tr.stores("_drift_state") if e.value == const("drift")]
    rf = [e for e in tr.stores("reference_batch")]
    # on drift the test batch becomes the reference; otherwise the reference is kept
    ok = len(ds) == 1 and len(rf) == 1 and set(map(id, ds[0].pc)) <= set(map(id, rf[0].pc)) and T.mentions(rf[0].value, lambda a: a == ("param", "X")) and \
        not T.mentions(rf[0].value, lambda a: a == ("attr", "reference_batch"))
    ctx.ob("PAIR", site, "on drift the test batch becomes the reference", ok, q.short(rf[0].value, 100) if rf else "no store of the reference", ds[0] if ds else None)
    ctx.ob("PAIR", site, "without drift the reference is kept", all(set(map(id, ds[0].pc)) <= set(map(id, e.pc)) for e in rf) if ds else not rf, "")
    bd = [e for e in tr.calls() if e.callee[0] == "foreign" and e.callee[2] == "build"]
    ctx.ob("FWD", site, "the batch analysed is the validated batch of this call", bool(bd) and tb is not None and bd[0].args[1:2] == (tb,), q.short(bd[0].args[1], 80) if bd else "", bd[0] if bd else None)
    ts = ctx.trace("NNDVI", "set_reference", nonnull=("X",))
    xs = q.validated(ts, 0)
    fin = ts.final.attrs if ts.final is not None else {}
    ctx.ob("FWD", "NNDVI.set_reference", "the reference is the validated batch", xs is not None and fin.get("reference_batch") == xs, q.short(fin.get("reference_batch"), 80) if fin.get("reference_batch") is not None else "unset")
    from . import common
    common.lifecycle(ctx, ["NNDVI"])
    tp = ctx.trace(NSP, "__init__")
    at = tp.final.attrs if tp.final is not None else {}
    ctx.ob("FWD-init", NSP + ".__init__", "k is kept", at.get("k") == P("k"), "")
    for a_ in ("D", "v1", "v2", "nnps_matrix", "adjacency_matrix"):
        ctx.ob("FRM-init", NSP + ".__init__", "%s starts unset (None)" % a_, at.get(a_) == T.NONE, "")
