"""C20 - injectors change only the window and columns they are asked to change."""
from .. import terms as T
from ..terms import const, atom
from .. import q
from ..q import A, P, S, guards
from ..evalr import Evaluator
from ..loader import AnalysisError
from . import c15

FROM, TO = P("from_index"), P("to_index")
WIN = atom(("slice", FROM, TO, T.NONE))
WINDOWED = ["FeatureShiftInjector", "FeatureSwapInjector", "LabelSwapInjector", "LabelJoinInjector", "LabelProbabilityInjector", "BrownianNoiseInjector"]


COPIES = {"numpy.copy", "numpy.array", "copy.deepcopy", "copy.copy"}


def copy_root(t):
    """Is the term the working copy (a fresh copy of data), possibly after in-place stores?"""
    u = q.unmut(t)
    a = u.single_atom()
    if a is None or a[0] != "call" or a[1] not in COPIES or not a[2] or a[2][0] != P("data"):
        return False
    from .. import prov
    return not prov.alias(u, {"data"}, unknown=[])


def the_copy(tr):
    for e in tr.calls():
        if e.callee[0] == "lib" and e.callee[1] in COPIES and e.args and e.args[0] == P("data") and e.func.name == "_preprocess":
            return e.result
    return atom(("call", "numpy.copy", (P("data"),), ()))


def window_filtered(t):
    """index array restricted to [from_index, to_index):  x[(x < to_index) & (x >= from_index)],
    or from_index + (positions found inside the window slice ret[from_index:to_index, ...])"""
    rest = t - FROM
    ra = rest.single_atom()
    if ra is not None and ra[0] == "sub" and ra[2] == const(0):
        w = ra[1].single_atom()
        if w is not None and w[0] == "call" and w[1] == "numpy.where" and w[2]:
            subs = [x for x in T.walk(w[2][0]) if x[0] == "sub" and copy_root(x[1])]
            if subs and all(_window_rows(x[2]) for x in subs):
                return True
    a = t.single_atom()
    if a is None or a[0] != "sub":
        return False
    base, mask = a[1], a[2]
    want = T.mk_and([T.mk_cmp("<", base, TO), T.mk_cmp(">=", base, FROM)])
    return mask == want or q.pred_equiv(mask, want)


def _window_rows(idx):
    a = idx.single_atom()
    if a is None:
        return False
    if a[0] == "tuple" and a[1]:
        return a[1][0] == WIN
    return idx == WIN


def col_term(tr, name):
    """The column index computed by _preprocess for parameter `name`."""
    for e in tr.of("local"):
        if e.name == name and len(e.stack) == 1 and not e.aug:
            return e.value
    return None


def run(ctx):
    ctx.explanation = (
        "frame conditions on the value-numbered __call__ of every injector: the working copy comes from _preprocess (np.copy) and the result "
        "goes through _postprocess; every in-place store into the copy is indexed by the row window [from_index:to_index) - or by an index "
        "array filtered to it - and by the target column(s); documented effects as formulas (swap, shift, join, random walk); container "
        "type restored from what _preprocess recorded in this call")
    ctx.assumptions += ["the resampling distribution of LabelProbabilityInjector is decided as formulas (weights, completion to 1), not as frequencies; behaviour on empty windows is not decided"]
    pre_post(ctx)
    for cname in WINDOWED:
        frame(ctx, cname)
    effects(ctx)
    cover(ctx)
    dirichlet(ctx)
    distribution(ctx)
    dirichlet_wiring(ctx)
    column_resolution(ctx)


def pre_post(ctx):
    site = "Injector._preprocess"
    tr = ctx.trace("FeatureShiftInjector", "_preprocess")
    cp = [e for e in tr.calls() if e.callee[0] == "lib" and e.callee[1] in COPIES and e.args and e.args[0] == P("data")]
    ctx.ob("ESC", site, "the working copy is a fresh copy of data", len(cp) == 1 and copy_root(cp[0].result), "")
    rets = [e for e in tr.returns() if len(e.stack) == 1]
    ok = bool(rets) and all(_first(e.value) is not None and copy_root(_strip_df(_first(e.value))) for e in rets)
    ctx.ob("ESC", site, "every return hands out the copy (never the input)", ok, "")
    st = tr.stores("_columns")
    isnd = atom(("call", "isinstance", (P("data"), atom(("global", "numpy.ndarray"))), ()))
    isdf = atom(("call", "isinstance", (P("data"), atom(("global", "pandas.DataFrame"))), ()))
    fin = tr.final.attrs.get("_columns")
    ok = fin is not None and bool(st)
    seen = set()
    for conds, l in (q.ite_leaves(fin) if fin is not None else ()):
        cs_ = [y for x in conds for y in q.conjuncts(x)]
        if not q.feasible(cs_):
            continue
        if l == T.NONE and (isnd in cs_ or T.mk_not(isdf) in cs_):
            seen.add("array")
        elif l == atom(("getattr", P("data"), "columns")) and (isdf in cs_ or T.mk_not(isnd) in cs_):
            seen.add("frame")
        else:
            ok = False  # a stale value, or the wrong one for the container
    ok = ok and seen == {"array", "frame"}
    ctx.ob("LIVE", site, "_columns is recorded on every accepting path (None for arrays, the labels for DataFrames)", ok,
           "otherwise _postprocess uses the labels of an earlier call: %s" % (q.short(fin, 100) if fin is not None else None))
    rs = tr.raises()
    ctx.ob("GRD", site, "other containers are rejected with ValueError", len(rs) == 1 and rs[0].exc == "ValueError" and q.has_guard(rs[0], T.mk_not(isnd)) and q.has_guard(rs[0], T.mk_not(isdf)), "")
    # column names -> positions
    ci = [l for e in rets for l in [_second(e.value)] if l is not None]
    ok = bool(ci)
    for v in ci:
        for conds, leaf in q.ite_leaves(v):
            a = leaf.single_atom()
            if any(c == isnd for c in conds) or not conds:
                ok = ok and leaf == P("columns")
            elif a is not None and a[0] == "call" and a[1] == "tuple":
                comp = a[2][0].single_atom()
                ok = ok and comp is not None and comp[0] == "comp" and comp[3] == (P("columns"),) and \
                    (comp[2][0].single_atom() or ("", "", ""))[0] == "mcall" and comp[2][0].single_atom()[2] == "get_loc"
    ctx.ob("FRM", site, "column labels are translated to positions for DataFrames, taken as given for arrays", ok, "")
    site = "Injector._postprocess"
    tp = ctx.trace("FeatureShiftInjector", "_postprocess")
    d = P("data")
    isdf2 = atom(("call", "isinstance", (d, atom(("global", "pandas.DataFrame"))), ()))
    cols = A("_columns")
    c1 = T.mk_and([T.mk_cmp("!=", cols, T.NONE), T.mk_not(isdf2)])
    c2 = T.mk_and([T.mk_cmp("==", cols, T.NONE), isdf2])
    # decide by cells: (labels recorded?, is the value a DataFrame?)
    ok = tp.retval is not None
    if ok:
        for has_cols in (True, False):
            for is_df in (True, False):
                env = {isdf2.single_atom(): is_df, T.mk_cmp("==", cols, T.NONE).single_atom(): not has_cols, T.mk_cmp("!=", cols, T.NONE).single_atom(): has_cols}
                got = None
                for conds, leaf in q.ite_leaves(tp.retval):
                    try:
                        if all(bool(q.eval_cell(c_, env)) for c_ in conds):
                            got = leaf
                            break
                    except q.Undecided:
                        ok = False
                if has_cols and not is_df:
                    exp = atom(("call", "pandas.DataFrame", (d,), (("columns", cols),)))
                elif not has_cols and is_df:
                    exp = atom(("mcall", d, "to_numpy", (), ()))
                else:
                    exp = d
                ok = ok and got == exp
    ctx.ob("TAB", site, "DataFrame with the recorded labels if the input was one, ndarray otherwise (4 cells)", ok, q.short(tp.retval, 200))


def _first(v):
    a = v.single_atom()
    return a[1][0] if a is not None and a[0] == "tuple" and a[1] else None


def _second(v):
    a = v.single_atom()
    return a[1][1] if a is not None and a[0] == "tuple" and len(a[1]) > 1 else None


def _strip_df(t):
    a = t.single_atom()
    if a is not None and a[0] == "call" and a[1] == "pandas.DataFrame" and a[2]:
        return a[2][0]
    return t


def frame(ctx, cname):
    site = cname + ".__call__"
    tr = ctx.trace(cname, "__call__")
    pre = [e for e in q.find_calls(tr, "Injector._preprocess") if len(e.stack) == 1]
    post = [e for e in q.find_calls(tr, "Injector._postprocess") if len(e.stack) == 1]
    ctx.ob("MC", site, "works on the copy made by _preprocess", len(pre) == 1 and pre[0].args and pre[0].args[0] == P("data"), "")
    rets = [e for e in tr.returns() if len(e.stack) == 1]
    okr = len(post) == 1 and len(rets) == 1 and copy_root(post[0].args[0])
    if okr:
        for e in tr.events[post[0].seq:]:
            if e.kind == "exit" and e.callee == "Injector._postprocess":
                break
        okr = rets[0].seq > post[0].seq
    ctx.ob("MC", site, "the (modified) copy is returned through _postprocess on the only return path", okr, "", firm=True)
    def _via_view(e):
        """a store through a basic row slice of the copy (rows = ret[a:b]; rows[:, c] = v): the slice is a view, the store lands in ret[a:b, c]"""
        o = q.unmut(e.old).single_atom() if isinstance(e.d.get("old"), T.R) else None
        if o is None or o[0] != "sub" or not copy_root(o[1]):
            return None
        sl = o[2].single_atom()
        if sl is None or sl[0] != "slice":
            return None
        idx = e.path[0][1] if e.path else None
        ia = idx.single_atom() if idx is not None else None
        full = lambda t: (t.single_atom() or ("",))[0] == "slice" and all(x == T.NONE for x in t.single_atom()[1:])
        if ia is not None and ia[0] == "tuple" and len(ia[1]) == 2 and full(ia[1][0]):
            return o[2], ia[1][1]
        if idx is not None and full(idx):
            return o[2], None
        return None
    muts = [e for e in tr.of("localmut") if e.how == "setitem" and isinstance(e.d.get("old"), T.R) and (copy_root(e.old) or _via_view(e) is not None) and len(e.stack) == 1]
    ctx.ob("ROLE", site, "the copy is modified in place", len(muts) >= 1, "")
    cols = _target_cols(tr, cname)
    for e in muts:
        idx = e.path[0][1] if e.path else None
        ia = idx.single_atom() if idx is not None else None
        rows = colsel = None
        vv = _via_view(e) if not copy_root(e.old) else None
        if vv is not None:
            rows, colsel = vv
        elif ia is not None and ia[0] == "tuple" and len(ia[1]) == 2:
            rows, colsel = ia[1]
        else:
            rows = idx
        ok_rows = rows is not None and (rows == WIN or window_filtered(rows))
        ctx.ob("FRAME", site, "store into the copy touches only rows of [from_index, to_index)", ok_rows,
               "row index %s" % (q.short(rows, 100) if rows is not None else None), e)
        if cname == "LabelProbabilityInjector":
            ctx.ob("FRAME", site, "whole rows of the window are resampled (tabled exception to the column rule)", colsel is None and rows == WIN, "", e)
        else:
            ok_cols = colsel is not None and any(colsel == c for c in cols)
            ctx.ob("FRAME", site, "store into the copy touches only the target column(s)", ok_cols,
                   "column index %s; targets %s" % (q.short(colsel, 60) if colsel is not None else None, [q.short(c, 40) for c in cols]), e)
    other = [e for e in tr.of("localmut") if isinstance(e.d.get("old"), T.R) and copy_root(e.old) and e.how != "setitem" and len(e.stack) == 1]
    ctx.ob("FRAME", site, "no other in-place operation on the copy", not other, "", other[0] if other else None)
    c15.injector_state(ctx, cname, tr)


def _target_cols(tr, cname):
    names = {"FeatureShiftInjector": ["col"], "FeatureSwapInjector": ["col_1", "col_2"], "LabelSwapInjector": ["target_col"],
             "LabelJoinInjector": ["target_col"], "LabelProbabilityInjector": ["target_col"], "BrownianNoiseInjector": ["col"]}[cname]
    vals = []
    for n in names:
        v = col_term(tr, n)
        if v is None:
            raise AnalysisError("%s: column %s is not taken from _preprocess (anchor vanished)" % (cname, n))
        vals.append(v)
    if len(vals) == 2:
        return [atom(("list", (vals[0], vals[1]))), atom(("list", (vals[1], vals[0])))] + vals
    return vals


def effects(ctx):
    # --- FeatureShift
    site = "FeatureShiftInjector.__call__"
    tr = ctx.trace("FeatureShiftInjector", "__call__")
    col = col_term(tr, "col")
    cp = the_copy(tr)
    wsel = q.sub(cp, atom(("tuple", (WIN, col))))
    mu = [e for e in tr.of("localmut") if e.how == "setitem" and len(e.stack) == 1 and copy_root(e.old)]
    mean = atom(("call", "numpy.mean", (wsel,), ()))
    want = wsel + (P("alpha") + mean) * P("shift_factor")
    ctx.ob("FRM", site, "window column + (alpha + mean of the window column) * shift_factor", len(mu) == 1 and T.same(mu[0].value, want), q.short(mu[0].value, 160) if mu else "")
    # --- FeatureSwap
    site = "FeatureSwapInjector.__call__"
    tr = ctx.trace("FeatureSwapInjector", "__call__")
    c1, c2 = col_term(tr, "col_1"), col_term(tr, "col_2")
    mu = [e for e in tr.of("localmut") if e.how == "setitem" and len(e.stack) == 1 and isinstance(e.d.get("old"), T.R) and copy_root(e.old)]
    ok = len(mu) == 1
    if not ctx.anchor(site, "the swap is one store into the copy itself", bool(mu), "the columns are written through another object (a view)"):
        ok = None
    if ok:
        idx = mu[0].path[0][1].single_atom()
        src = mu[0].value.single_atom()
        ok = idx is not None and idx[0] == "tuple" and src is not None and src[0] == "sub" and copy_root(src[1])
        if ok:
            sidx = src[2].single_atom()
            ok = sidx is not None and sidx[0] == "tuple" and sidx[1][0] == WIN and idx[1][0] == WIN and \
                idx[1][1] == atom(("list", (c1, c2))) and sidx[1][1] == atom(("list", (c2, c1)))
    if ok is not None:
        ctx.ob("FRM", site, "columns [c1, c2] of the window receive columns [c2, c1] of the window (an involution)", ok, "", mu[0] if mu else None)
    # --- LabelSwap
    site = "LabelSwapInjector.__call__"
    tr = ctx.trace("LabelSwapInjector", "__call__")
    tcol = col_term(tr, "target_col")
    mu = [e for e in tr.of("localmut") if e.how == "setitem" and len(e.stack) == 1 and isinstance(e.d.get("old"), T.R) and copy_root(e.old)]
    colv = q.sub(cp, atom(("tuple", (atom(("slice", T.NONE, T.NONE, T.NONE)), tcol))))
    def where(cls):
        return q.sub(atom(("call", "numpy.where", (T.mk_cmp("==", colv, P(cls)),), ())), 0)
    def filt(x):
        return atom(("sub", x, T.mk_and([T.mk_cmp("<", x, TO), T.mk_cmp(">=", x, FROM)])))
    i1, i2 = filt(where("class_1")), filt(where("class_2"))
    ok = len(mu) == 2
    if ok:
        got = {}
        for e in mu:
            rows = e.path[0][1].single_atom()[1][0]
            got[T.akey(rows)] = e.value
        ok = got.get(T.akey(i1)) == P("class_2") and got.get(T.akey(i2)) == P("class_1")
    ctx.ob("FRM", site, "rows of class_1 in the window become class_2 and vice versa; both index sets are those of the ORIGINAL labels", ok,
           "the second index set must be computed before the first store (otherwise the swap degenerates into a merge)", mu[0] if mu else None)
    # --- LabelJoin
    site = "LabelJoinInjector.__call__"
    tr = ctx.trace("LabelJoinInjector", "__call__")
    tcol = col_term(tr, "target_col")
    colv = q.sub(cp, atom(("tuple", (atom(("slice", T.NONE, T.NONE, T.NONE)), tcol))))
    mu = [e for e in tr.of("localmut") if e.how == "setitem" and len(e.stack) == 1 and isinstance(e.d.get("old"), T.R) and copy_root(e.old)]
    ij = atom(("sub", q.sub(atom(("call", "numpy.where", (T.mk_or([T.mk_cmp("==", colv, P("class_1")), T.mk_cmp("==", colv, P("class_2"))]),), ())), 0),
               T.mk_and([T.mk_cmp("<", q.sub(atom(("call", "numpy.where", (T.mk_or([T.mk_cmp("==", colv, P("class_1")), T.mk_cmp("==", colv, P("class_2"))]),), ())), 0), TO),
                         T.mk_cmp(">=", q.sub(atom(("call", "numpy.where", (T.mk_or([T.mk_cmp("==", colv, P("class_1")), T.mk_cmp("==", colv, P("class_2"))]),), ())), 0), FROM)])))
    ok = len(mu) == 1 and mu[0].value == P("new_class") and mu[0].path[0][1].single_atom()[1][0] == ij
    ctx.ob("FRM", site, "rows of class_1 or class_2 in the window become new_class", ok, "", mu[0] if mu else None)
    # --- BrownianNoise
    site = "BrownianNoiseInjector.__call__"
    tr = ctx.trace("BrownianNoiseInjector", "__call__")
    col = col_term(tr, "col")
    wsel = q.sub(cp, atom(("tuple", (WIN, col))))
    mu = [e for e in tr.of("localmut") if e.how == "setitem" and len(e.stack) == 1 and isinstance(e.d.get("old"), T.R) and copy_root(e.old)]
    rw = [e for e in q.find_calls(tr, "BrownianNoiseInjector._random_walk")]
    ok = len(mu) == 1 and len(rw) == 1 and tuple(rw[0].args[:2]) == (TO - FROM, P("x0")) and dict(rw[0].kwargs).get("random_state") == P("random_state")
    if ok:
        rv = None
        for e in tr.events[rw[0].seq:]:
            if e.kind == "return" and e.func.name == "_random_walk":
                rv = e.value
                break
        ok = rv is not None and T.same(mu[0].value, wsel + rv)
    ctx.ob("FRM", site, "window column + random walk of (to - from) steps starting at x0", ok, "", mu[0] if mu else None)
    site = "BrownianNoiseInjector._random_walk"
    tw = ctx.trace("BrownianNoiseInjector", "_random_walk")
    wname = None
    if tw.retval is not None:
        ra_ = q.unmut(tw.retval).single_atom()
        lvs = [z for z in T.atoms_of(tw.retval, "loopvar") if z[2].startswith("$")]
        if lvs:
            wname = lvs[0][2][1:]
    init = [e for e in tw.of("local") if e.name == wname and not e.aug]
    walk_loop = ctx.anchor(site, "the walk is an array filled step by step in a loop", wname is not None, q.short(tw.retval, 100) if tw.retval is not None else "")
    ok = len(init) == 1 and T.same(init[0].value, atom(("call", "numpy.ones", (P("steps"),), ())) * P("x0"))
    if walk_loop:
        ctx.ob("FRM", site, "the walk starts at x0", ok, q.short(init[0].value, 80) if init else "")
    st = [e for e in tw.of("localmut") if e.name == wname and e.how == "setitem"]
    ok = len(st) == 1
    if ok:
        i = st[0].path[0][1]
        ch = [e for e in tw.calls() if e.callee == ("lib", "numpy.random.choice")]
        ok = len(ch) == 1 and ch[0].args and ch[0].args[0] == atom(("list", (const(1), const(-1))))
        if ok:
            prev = [a for a in T.atoms_of(st[0].value, "sub") if T.same(a[2], i - const(1))]
            ok = len(prev) == 1 and T.same(st[0].value, atom(prev[0]) + ch[0].result / atom(("call", "sqrt", (P("steps"),), ())))
        lp = list(tw.loops.values())
        it = lp[0]["iter"].single_atom() if lp else None
        ok = ok and it is not None and it[0] == "call" and it[1] == "range" and tuple(it[2]) == (const(1), P("steps"))
    ctx.ob("FRM", site, "w[i] = w[i-1] +/- 1/sqrt(steps) for i = 1 .. steps-1", ok, "")
    sd = [e for e in tw.calls() if e.callee == ("lib", "numpy.random.seed")]
    ctx.ob("FRM", site, "seeded with random_state", len(sd) == 1 and sd[0].args == (P("random_state"),), "")
    # --- LabelProbability: resampled rows come from the window only
    site = "LabelProbabilityInjector.__call__"
    tr = ctx.trace("LabelProbabilityInjector", "__call__")
    ch0 = [e for e in tr.calls() if e.callee == ("lib", "numpy.random.choice")]
    pool = None
    if ch0 and ch0[0].args:
        pa_ = ch0[0].args[0].single_atom()
        if pa_ is not None and pa_[0] == "loopvar" and pa_[2].startswith("$"):
            pool = pa_[2][1:]
    ext = [e for e in tr.of("localmut") if e.name == pool and e.name is not None and e.how == "method:extend"]
    ok = len(ext) == 1
    if ok:
        v = ext[0].value.single_atom()[1][0]
        ok = all(window_filtered(l) for _c, l in q.ite_leaves(v))
        ok = ok and not [p for p in ext[0].pc if (p.cond.single_atom() or ("",))[0] not in ("inloop",) and T.mentions(p.cond, lambda a: a[0] == "getattr" and a[2] == "shape")]
    ctx.ob("FRAME", site, "rows are resampled only from row indices filtered to [from_index, to_index), for every class", ok,
           "the pool of candidate rows must not contain rows outside the window", ext[0] if ext else None)
    ch = [e for e in tr.calls() if e.callee == ("lib", "numpy.random.choice")]
    mu = [e for e in tr.of("localmut") if e.how == "setitem" and isinstance(e.d.get("old"), T.R) and copy_root(e.old)]
    ok = len(ch) == 1 and len(mu) == 1 and pool is not None and _rooted_local(ch[0].args[0], pool) and T.same(ch[0].args[1], TO - FROM) and ch[0].args[2] == T.TRUE
    if ok:
        src = mu[0].value.single_atom()
        ok = src is not None and src[0] == "sub" and copy_root(src[1]) and src[2] == ch[0].result
    ctx.ob("FRM", site, "the window is overwritten with (to - from) rows drawn with replacement from that pool", ok, "", mu[0] if mu else None)
    # per-class weights: p_class / class size for the classes present in the window
    pe = [e for e in tr.mutations("_p_distribution") if e.how == "method:extend"]
    if ctx.anchor(site, "per-row probabilities collected for every class", len(pe) == 1 and len(ext) == 1, ""):
        idxs = ext[0].value.single_atom()[1][0]
        size = q.sub(atom(("getattr", idxs, "shape")), 0)
        pv = pe[0].value.single_atom()[1][0]
        ones = [a_ for a_ in T.walk(pv) if a_[0] == "call" and a_[1] == "numpy.ones"]
        okn = len(ones) == 1 and ones[0][2] and ones[0][2][0] == size
        ctx.ob("FRM", site, "one probability per candidate row of the class (as many as rows of that class in the window)", okn, q.short(pv, 160), pe[0])
        # the per-row probability of a class is its requested probability divided by the number of ITS rows in the window
        okp = False
        if okn:
            p_ind = pv / atom(ones[0])
            cls_atom = [a_ for a_ in T.walk(idxs) if a_[0] == "iter"]
            for conds, leaf in q.ite_leaves(p_ind):
                pass
            # `(n and p / n) or 0`: a leaf that is itself falsy on its path is 0
            leaves = [l for cs_, l in q.ite_leaves(p_ind) if l != const(0) and not any(c_ == T.mk_not(l) for c_ in cs_)]
            okp = bool(leaves) and all(_class_prob(l) is not None and T.same(l * size, _class_prob(l)) for l in leaves)
        ctx.ob("FRM", site, "per-row probability = requested class probability / number of that class's rows in the window", okp,
               "the class size must be the size of the very index set that is added to the pool", pe[0])


def _class_prob(l):
    """the class_probabilities[cls] factor of a per-row probability term"""
    subs = [a_ for a_ in l.atoms() if a_[0] == "sub"]
    for m_, cf in l.num:
        for a_, pw in m_:
            if a_[0] == "sub" and (a_[2].single_atom() or ("",))[0] == "iter":
                return atom(a_)
    return None


def _rooted_local(t, name):
    a = t.single_atom()
    while a is not None:
        if a[0] == "loopvar" and a[2] == "$" + name:
            return True
        if a[0] in ("mutated", "appended", "setitem"):
            a = a[1].single_atom()
            continue
        return False
    return False


def cover(ctx):
    site = "FeatureCoverInjector.__call__"
    tr = ctx.trace("FeatureCoverInjector", "__call__")
    pre = [e for e in q.find_calls(tr, "Injector._preprocess") if len(e.stack) == 1]
    ok = len(pre) == 1 and dict(pre[0].kwargs).get("return_df") == T.TRUE and pre[0].args[0] == P("data")
    ctx.ob("MC", site, "works on a DataFrame copy made by _preprocess", ok, "")
    rets = [e for e in tr.returns() if len(e.stack) == 1]
    post = [e for e in q.find_calls(tr, "Injector._postprocess") if len(e.stack) == 1]
    ctx.ob("MC", site, "result returned through _postprocess", len(post) == 1 and len(rets) == 1, "")
    if post:
        v = post[0].args[0]
        ok = T.mentions(v, lambda a: a[0] == "mcall" and a[2] == "drop") and T.mentions(v, lambda a: a[0] == "mcall" and a[2] == "sample") and \
            T.mentions(v, lambda a: a[0] == "mcall" and a[2] == "groupby")
        smp = [a for a in T.walk(v) if a[0] == "mcall" and a[2] == "sample"]
        okn = len(smp) >= 1 and dict(smp[0][4]).get("random_state") == P("random_state")
        if okn:
            n = dict(smp[0][4]).get("n")
            na = n.single_atom() if n is not None else None
            okn = na is not None and na[0] == "floordiv" and na[1] == P("sample_size")
        dr = [a for a in T.walk(v) if a[0] == "mcall" and a[2] == "drop"]
        okd = len(dr) >= 1 and dict(dr[0][4]).get("columns") == atom(("list", (P("col"),)))
        ctx.ob("FRM", site, "sample_size // (number of groups) rows per group, then the hidden column is dropped", ok and okn and okd, q.short(v, 200), post[0])
    c15.injector_state(ctx, "FeatureCoverInjector", tr)


def dirichlet(ctx):
    site = "LabelDirichletInjector.__call__"
    tr = ctx.trace("LabelDirichletInjector", "__call__")
    new = [e for e in tr.calls() if e.callee == ("new", "LabelProbabilityInjector")]
    dyn = [e for e in tr.calls() if e.callee[0] == "foreign" and e.callee[1] == "LabelProbabilityInjector" and e.callee[2] == "__call__"] or \
        [e for e in tr.calls() if e.callee[0] == "dynamic" and (e.callee[1].single_atom() or ("",))[0] == "new"]
    ok = len(new) == 1 and len(dyn) == 1
    if ok:
        kw = dict(dyn[0].kwargs)
        ok = dyn[0].args[:1] == (P("data"),) and kw.get("from_index") == FROM and kw.get("to_index") == TO and kw.get("target_col") == P("target_col")
        cp = kw.get("class_probabilities")
        ok = ok and cp is not None and cp == tr.final.attrs.get("_dirichlet_probabilities") if tr.final else False
    ctx.ob("FWD", site, "delegates to LabelProbabilityInjector with the same data, window and column and the drawn probabilities", ok, "", dyn[0] if dyn else None)
    dr = [e for e in tr.calls() if e.callee == ("lib", "numpy.random.dirichlet")]
    ok = len(dr) == 1 and dr[0].args and (dr[0].args[0].single_atom() or ("",))[0] == "comp"
    ctx.ob("FRM", site, "class probabilities drawn from Dirichlet(alpha values)", ok, "")


# ---------------------------------------------------------------------------
# resampling distribution of LabelProbabilityInjector as formulas; Dirichlet wiring; column resolution

def distribution(ctx):
    site = "LabelProbabilityInjector.__call__"
    tr = ctx.trace("LabelProbabilityInjector", "__call__")
    cp = atom(("call", "dict", (P("class_probabilities"),), ()))
    total = atom(("call", "sum", (atom(("mcall", cp, "values", (), ())),), ()))
    # in __call__ itself or in a helper it calls, but not in the shared pre/post-processing
    own = lambda e: e.func is not None and q.within(e, site, ("_preprocess", "_postprocess"))
    gof = lambda e: q.guards(e)
    rs = [e for e in tr.raises() if own(e) and e.exc == "ValueError"]
    over = [e for e in rs if gof(e) == [T.mk_cmp(">", total, const(1.0))] or gof(e) == [T.mk_cmp(">", total, const(1))]]
    ctx.ob("GRD", site, "probabilities that sum to more than 1 are refused", len(over) == 1, "guards: %s" % "; ".join(q.short(g, 80) for e in rs for g in gof(e)[:1]), rs[0] if rs else None)
    unk = [e for e in rs if e not in over]
    ok = len(unk) == 1
    if ok:
        g = gof(unk[0])[-1]
        c = q.is_cmp(g)
        sides = [q.set_operands(atom(x)) for x in c[2].atoms()] if c is not None and c[1] == "!=" and c[2].single_atom() is None else []
        ok = len(sides) == 2 and None not in sides
        if ok:
            present = [s for s in sides if len(s) == 1 and (s[0].single_atom() or ("", ""))[:2] == ("call", "numpy.unique")]
            asked = [s for s in sides if len(s) == 2 and any(x == cp or x == P("class_probabilities") for x in s)]
            ok = len(present) == 1 and len(asked) == 1
    ctx.ob("GRD", site, "classes that do not occur in the data are refused (set of given + unspecified classes != set of classes present)", ok, "", unk[0] if unk else None)
    # unspecified classes share what is left, uniformly
    fill = [e for e in tr.of("localmut") if own(e) and e.how == "setitem" and e.name is not None and len(e.path) == 1 and (e.path[0][1].single_atom() or ("",))[0] == "iter"
            and T.mentions(e.value, lambda z: z[0] == "call" and z[1] == "sum")]
    ok = len(fill) == 1
    if ok:
        it = fill[0].path[0][1].single_atom()
        undefined = it[1]
        want = (const(1) - total) / atom(("call", "len", (undefined,), ()))
        ua = undefined.single_atom()
        ok = T.same(fill[0].value, want) and ua is not None and ua[0] == "comp" and bool(ua[4]) and T.mentions(undefined, lambda z: z[0] in ("notin",) or (z[0] == "not"))
    ctx.ob("FRM", site, "every unspecified class gets (1 - sum of the given probabilities) / number of unspecified classes", ok, q.short(fill[0].value, 160) if fill else "", fill[0] if fill else None)
    # normalisation of the per-row weights
    st = [e for e in tr.stores("_p_distribution") if own(e)]
    ok = len(st) == 2 and st[0].value in (atom(("list", ())), atom(("call", "list", (), ())))
    ctx.ob("FRM", site, "the per-row weights of a call start from an empty list", ok, "", st[0] if st else None)
    ok = len(st) == 2
    if ok:
        fa = st[1].value.single_atom()
        ok = fa is not None and fa[0] == "comp" and fa[1] == "list"
        if ok:
            dist = fa[3][0]
            elt = fa[2][0]
            its = [a for a in T.walk(elt) if a[0] == "iter" and a[1] == dist]
            ok = len(set(its)) == 1 and T.same(elt, atom(its[0]) + (const(1) - atom(("call", "sum", (dist,), ()))) / atom(("call", "len", (dist,), ()))) and \
                (dist.single_atom() or ("", "", ""))[0] == "loopvar" and dist.single_atom()[2] == "_p_distribution"
    ctx.ob("FRM", site, "weights are completed to sum to 1 by adding (1 - sum) / n to each", ok, q.short(st[1].value, 200) if len(st) == 2 else "", st[1] if len(st) == 2 else None)
    ch = [e for e in tr.calls() if e.callee == ("lib", "numpy.random.choice")]
    ctx.ob("FWD", site, "rows are drawn with exactly those weights", len(ch) == 1 and len(st) == 2 and len(ch[0].args) >= 4 and ch[0].args[3] == st[1].value, "", ch[0] if ch else None)
    # candidate rows of a class: rows whose target equals that class
    ext = [e for e in tr.of("localmut") if own(e) and e.how == "method:extend" and e.name is not None]
    ok = len(ext) == 1
    if ok:
        v = ext[0].value.single_atom()[1][0]
        wh = [a for a in T.walk(v) if a[0] == "call" and a[1] == "numpy.where"]
        ok = bool(wh)
        for w_ in wh[:1]:
            c = q.is_cmp(w_[2][0])
            ok = c is not None and c[1] == "==" and len([a for a in c[2].atoms() if a[0] == "iter"]) == 1 and len([a for a in c[2].atoms() if a[0] == "sub"]) == 1 and T.mentions(w_[2][0], copy_atom)
    ctx.ob("FRM", site, "the candidate rows of a class are the rows of the copy whose target equals that class", ok, "", ext[0] if ext else None)


def copy_atom(a):
    return a[0] == "call" and a[1] in ("numpy.copy", "copy.deepcopy", "numpy.array")


def dirichlet_wiring(ctx):
    site = "LabelDirichletInjector.__call__"
    tr = ctx.trace("LabelDirichletInjector", "__call__")
    fin = tr.final.attrs if tr.final is not None else {}
    al = P("alpha")
    ctx.ob("FRM", site, "classes are the keys of alpha, in order", fin.get("_alpha_classes") == atom(("call", "list", (atom(("mcall", al, "keys", (), ())),), ())), q.short(fin.get("_alpha_classes"), 60) if fin.get("_alpha_classes") is not None else "unset")
    av = fin.get("_alpha_values")
    a = av.single_atom() if av is not None else None
    ok = a is not None and a[0] == "comp" and a[3] == (al,) and (a[2][0].single_atom() or ("",))[0] == "sub" and a[2][0].single_atom()[1] == al and (a[2][0].single_atom()[2].single_atom() or ("",))[0] in ("iter", "iterkey")
    ctx.ob("FRM", site, "weights are alpha's values in the same order", ok, q.short(av, 80) if av is not None else "unset")
    dr = [e for e in tr.calls() if e.callee == ("lib", "numpy.random.dirichlet")]
    ctx.ob("FWD", site, "the Dirichlet draw uses those weights", len(dr) == 1 and dr[0].args[:1] == (av,), "", dr[0] if dr else None)
    pr = fin.get("_dirichlet_probabilities")
    dv = q.dict_view(tr, pr) if pr is not None else None
    ok = False
    if dv is not None and dr:
        ac = fin.get("_alpha_classes")
        ok = dv[0] == q.sub(ac, q.POS) and dv[1] == q.sub(dr[0].result, q.POS) and dv[2] == atom(("call", "len", (ac,), ()))
    ctx.ob("FRM", site, "class i gets the i-th drawn probability", bool(ok), q.short(pr, 120) if pr is not None else "unset")


def column_resolution(ctx):
    tr = ctx.trace("Injector", "_preprocess")
    rv = tr.retval
    bad = [q.short(l, 60) for _c, l in q.ite_leaves(rv)] if rv is not None and T.mentions(rv, lambda a: a[0] == "undef") else []
    ctx.ob("DA", "Injector._preprocess", "the resolved column indices are defined for both supported containers", rv is not None and not bad, "; ".join(bad[:2]))
    if rv is not None:
        cols = P("columns")
        for conds, l in q.ite_leaves(rv):
            a = l.single_atom()
            if a is None or a[0] != "tuple" or len(a[1]) != 2:
                continue
            first = a[1][0].single_atom()
            if first is not None and first[0] == "call" and first[1] == "pandas.DataFrame":
                # the frame-returning variant hands the column names back as given
                ctx.ob("FRM", "Injector._preprocess", "with return_df the requested names are returned unchanged", a[1][1] == cols, q.short(a[1][1], 80))
                continue
            isdf = atom(("call", "isinstance", (P("data"), atom(("global", "pandas.DataFrame"))), ()))
            isnd = atom(("call", "isinstance", (P("data"), atom(("global", "numpy.ndarray"))), ()))
            for c2, idx in q.ite_leaves(a[1][1]):
                cs_ = [y for x in tuple(conds) + tuple(c2) for y in q.conjuncts(x)]
                if not q.feasible(cs_):
                    continue
                frame = isdf in cs_ or (T.mk_not(isnd) in cs_ and T.mk_not(isdf) not in cs_)   # the DataFrame case of this leaf
                if T.mentions(idx, lambda z: z[0] == "mcall" and z[2] == "get_loc") or frame:
                    ia = idx.single_atom()
                    ok = frame and ia is not None and ia[0] == "call" and ia[1] == "tuple" and len(ia[2]) == 1
                    v = q.seq_view(tr, ia[2][0]) if ok else None
                    if ok and v is None:
                        vc = ia[2][0].single_atom()  # one get_loc per element of `columns`
                        if vc is not None and vc[0] == "comp" and len(vc[2]) == 1 and len(vc[3]) == 1 and not vc[4] and vc[3][0] == cols:
                            v = (vc[2][0], None)
                    el = v[0].single_atom() if v is not None else None
                    ok = ok and el is not None and el[0] == "mcall" and el[2] == "get_loc" and el[1] == atom(("getattr", P("data"), "columns")) and \
                        len(el[3]) == 1 and (el[3][0].single_atom() or ("",))[0] == "iter" and el[3][0].single_atom()[1] == cols
                    ctx.ob("FRM", "Injector._preprocess", "DataFrame column names are resolved to positions (get_loc, one per requested column)", ok, q.short(idx, 100))
                else:
                    ctx.ob("FRM", "Injector._preprocess", "array column indices are used as given", idx == cols and T.mk_not(isdf) in cs_ or idx == cols and isnd in cs_, q.short(idx, 100))
