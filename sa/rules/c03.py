"""C03 - ADWIN statistics and cut rule; ADWINAccuracy."""
from .. import terms as T
from ..terms import const, atom
from .. import q
from ..q import A, P, S, guards
from ..evalr import Evaluator

PARAMS = ["delta", "max_buckets", "new_sample_thresh", "window_size_thresh", "subwindow_size_thresh", "conservative_bound"]


def mcalls(tr, name, func=None):
    return [e for e in tr.calls() if e.callee[0] in ("mcall", "foreign") and e.callee[-1] == name and (func is None or e.func.qualname == func)]


def run(ctx):
    ctx.explanation = (
        "ADWINAccuracy constructor forwarding and indicator; who-may-write the window size; formula conformance of the incremental "
        "variance step, bucket merge (Chan et al.), removal correction, mean/variance accessors and both epsilon-cut branches; "
        "complementary bookkeeping of the split scan; bucket size 2^row agreement; bounded write of the bucket arrays")
    ctx.assumptions += ["real arithmetic", "exactness of mean/variance over arbitrary compress/shrink histories is NOT decided (runtime quantity); only the per-step formulas are"]
    accuracy(ctx)
    window_writers(ctx)
    formulas(ctx)
    epsilon(ctx)
    scan(ctx)
    bounded(ctx)
    linked_list(ctx)
    structures(ctx)
    compress_loop(ctx)
    shrink_loops(ctx)
    # streams span epochs: prologue, counting, constructor wiring, univariate guard
    from . import common, c14, c01
    common.lifecycle(ctx, ["ADWIN", "ADWINAccuracy"], clean_slate=False)
    c14.univariate(ctx, "ADWIN")
    c01.clause_recs_for(ctx, ["ADWIN", "ADWINAccuracy"])
    # documented: delta outside [0, 1] is rejected at construction
    ti = ctx.trace("ADWIN", "__init__")
    rs = [e for e in ti.raises() if e.exc == "ValueError" and q.stack_has(e, "ADWIN.__init__")]
    inside = T.mk_and([T.mk_cmp("<=", const(0), P("delta")), T.mk_cmp("<=", P("delta"), const(1))])
    ctx.ob("GRD", "ADWIN.__init__", "delta outside [0, 1] raises ValueError", len(rs) == 1 and q.has_guard(rs[0], T.mk_not(inside)),
           "guards: %s" % ("; ".join(q.short(g, 80) for g in guards(rs[0])) if rs else "no raise"), rs[0] if rs else None)


def accuracy(ctx):
    tr = ctx.trace("ADWINAccuracy", "__init__")
    cs = q.find_calls(tr, "ADWIN.__init__")
    ctx.anchor("ADWINAccuracy.__init__", "calls ADWIN.__init__", len(cs) == 1, "")
    for p in PARAMS:
        fv = tr.final.attrs.get(p) if tr.final else None
        ctx.ob("FWD", "ADWINAccuracy.__init__", "constructor parameter %s reaches the detector" % p, fv == P(p),
               "ADWINAccuracy(%s=v) must configure the underlying ADWIN with v (found %s)" % (p, q.short(fv, 40) if fv is not None else "nothing"))
    tr = ctx.trace("ADWINAccuracy", "update", assume={"_drift_state": None}, nonnull=("y_true", "y_pred"))
    cs = q.find_calls(tr, "ADWIN.update")
    ctx.ob("ROLE", "ADWINAccuracy.update", "delegates to ADWIN.update exactly once", len(cs) == 1, "")
    if cs:
        x = cs[0].args[0] if cs[0].args else dict(cs[0].kwargs).get("X")
        a = x.single_atom() if x is not None else None
        ok = a is not None and a[0] == "call" and a[1] == "int" and q.is_cmp(a[2][0]) is not None and q.is_cmp(a[2][0])[1] == "=="
        ext = False
        if ok:
            d = q.is_cmp(a[2][0])[2]
            ats = [y for y in d.atoms()]
            ext = len(ats) == 2 and all(y[0] == "sub" and y[2] == const(0) for y in ats) and \
                {("y_true" if T.mentions(atom(y), lambda z: z == ("param", "y_true")) else "y_pred") for y in ats} == {"y_true", "y_pred"}
        ctx.ob("FRM", "ADWINAccuracy.update", "observation is int(y_true == y_pred)", ok, q.short(x, 120) if x is not None else "", cs[0])
        ctx.ob("ORD", "ADWINAccuracy.update", "the indicator compares the extracted scalars (extraction precedes the comparison)", ok and ext,
               "int() of a comparison of the validated arrays fails for numpy >= 2; compare y[0] values", cs[0])
        rest = list(cs[0].args[1:]) + [v for k, v in cs[0].kwargs if k in ("y_true", "y_pred")]
        ctx.ob("FWD", "ADWINAccuracy.update", "labels are not passed on as data", all(r == T.NONE for r in rest), "", cs[0])


def _neg_pow(d):
    """d = -(2 ** k): a negative power of two"""
    a = (-d).single_atom()
    return a is not None and a[0] == "pow" and a[1] == const(2)


def window_writers(ctx):
    tr = ctx.trace("ADWIN", "update", assume={"_drift_state": None}, nonnull=("X",))
    st = tr.stores("_window_size")
    ctx.floor("_window_size stores", len(st), 2)
    for e in st:
        if e.func.qualname == "ADWIN.update":
            ok = T.same(e.value, e.old + const(1))
            what = "W grows by one per update"
        elif e.func.qualname == "ADWIN._remove_last":
            ok = e.aug is not None and e.aug[0] == "Add" and T.mentions(e.aug[1], lambda a: a[0] == "pow") and T.same(e.value, e.old + e.aug[1]) and _neg_pow(e.aug[1])
            what = "W shrinks by the size of the dropped bucket"
        else:
            ok, what = False, "window size written outside update/_remove_last"
        ctx.ob("WR", e.func.qualname, what, ok, q.short(e.value, 100), e)
    rm = q.find_calls(tr, "ADWIN._remove_last")
    ctx.ob("ROLE", "ADWIN._shrink_window", "_remove_last is called", len(rm) >= 1, "")
    drift = [e for e in tr.stores("_drift_state") if e.value == const("drift")]
    for c in rm:
        ok = False
        for d in drift:
            from .c01 import _site_pc_ev
            sp = _site_pc_ev(tr, d).pc
            if d.seq < c.seq and c.pc[: len(sp)] == sp:
                ok = True
        ctx.ob("PAIR", c.func.qualname, "window shrinks only in an update that reports drift", ok,
               "every call of _remove_last must be dominated by a store of drift_state = 'drift' in the same block", c)
    # nothing else in the class calls _remove_last
    for m in ("reset", "mean", "variance", "_add_sample", "_compress_buckets"):
        t2 = ctx.trace("ADWIN", m)
        ctx.ob("WR", "ADWIN." + m, "does not shrink the window", not q.find_calls(t2, "ADWIN._remove_last"), "", nontrivial=False)


def formulas(ctx):
    tr = ctx.trace("ADWIN", "update", assume={"_drift_state": None}, nonnull=("X",))
    xv = q.validated(tr, 0)
    x = q.sub(q.sub(xv, 0), 0)
    W, Tt, V = A("_window_size"), A("_curr_total"), A("_curr_variance")
    env = {"x": x, "W": W + const(1)}
    # incremental variance step
    sv = [e for e in tr.stores("_curr_variance") if q.stack_has(e, "ADWIN._add_sample")]
    spec = S("A__curr_variance + (W - 1) * (x - A__curr_total / (W - 1)) ** 2 / W", env)
    ctx.ob("FRM", "ADWIN._add_sample", "incremental sum of squared deviations (Welford/West step)", len(sv) == 1 and T.same(sv[0].value, spec),
           q.short(sv[0].value, 240) if sv else "", sv[0] if sv else None)
    if sv:
        ctx.ob("GRD", "ADWIN._add_sample", "variance step only for W > 1", q.has_guard(sv[0], S("W > 1", env)), "", sv[0])
    stt = [e for e in tr.stores("_curr_total") if q.stack_has(e, "ADWIN._add_sample")]
    ctx.ob("FRM", "ADWIN._add_sample", "total gains the new value", len(stt) == 1 and T.same(stt[0].value, Tt + x), "", stt[0] if stt else None)
    if sv and stt:
        ctx.ob("ORD", "ADWIN._add_sample", "variance step uses the total before the new value is added", sv[0].seq < stt[0].seq, "", sv[0])
    hb = [e for e in mcalls(tr, "add_bucket", "ADWIN._add_sample")]
    ctx.ob("FRM", "ADWIN._add_sample", "new bucket holds (value, variance 0)", len(hb) == 1 and tuple(hb[0].args) == (x, const(0)), "", hb[0] if hb else None)
    # merge of the two oldest buckets of a full row
    tc = ctx.trace("ADWIN", "_compress_buckets")
    ab = mcalls(tc, "add_bucket")
    rb = mcalls(tc, "remove_buckets")
    ctx.anchor("ADWIN._compress_buckets", "merge adds one bucket to the next row and removes two", len(ab) == 1 and len(rb) == 1 and rb[0].args == (const(2),), "")
    if ab and rb:
        row = rb[0].recv
        def bt(i, what):
            return atom(("sub", atom(("getattr", row, what)), const(i)))
        posv = [a for a in T.atoms_of(ab[0].args[1], "pow")]
        ctx.anchor("ADWIN._compress_buckets", "bucket size is a power of two of the row position", len(set(posv)) == 1, "")
        if posv:
            n = atom(posv[0])
            ok_n = posv[0][1] == const(2)
            env = {"t0": bt(0, "bucket_totals"), "t1": bt(1, "bucket_totals"), "v0": bt(0, "bucket_variances"), "v1": bt(1, "bucket_variances"), "n": n}
            ctx.ob("FRM", "ADWIN._compress_buckets", "merged total", T.same(ab[0].args[0], S("t0 + t1", env)), q.short(ab[0].args[0], 120), ab[0])
            ctx.ob("FRM", "ADWIN._compress_buckets", "merged variance (Chan et al. pairwise update, equal sizes)",
                   ok_n and T.same(ab[0].args[1], S("v0 + v1 + n * (t0 / n - t1 / n) ** 2 / 2", env)), q.short(ab[0].args[1], 240), ab[0])
            # row position: starts at 0 at the head and grows by one per row
            ex = posv[0][2].single_atom()
            pos_name = ex[2][1:] if ex is not None and ex[0] == "loopvar" else None
            lp = [e for e in tc.of("local") if e.name == pos_name]
            if ctx.anchor("ADWIN._compress_buckets", "the row position is a variable carried by the traversal loop", pos_name is not None, q.short(posv[0][2], 60)):
                ok = any(e.value == const(0) for e in lp) and any(e.aug is not None and e.aug == ("Add", const(1)) for e in lp)
                ctx.ob("AGREE", "ADWIN._compress_buckets", "row position counts from the head (2^0 elements per bucket)", ok, "")
            ctx.ob("ORD", "ADWIN._compress_buckets", "buckets are read before they are removed", ab[0].seq < rb[0].seq, "", ab[0])
    # removal of the oldest bucket
    trm = ctx.trace("ADWIN", "_remove_last")
    tail = atom(("getattr", A("_bucket_row_list"), "tail"))
    n = atom(("pow", const(2), atom(("getattr", A("_bucket_row_list"), "size")) - const(1)))
    t0 = atom(("sub", atom(("getattr", tail, "bucket_totals")), const(0)))
    v0 = atom(("sub", atom(("getattr", tail, "bucket_variances")), const(0)))
    env = {"n": n, "t0": t0, "v0": v0, "W": W, "Tt": Tt, "V": V}
    fin = trm.final.attrs if trm.final else {}
    ctx.ob("FRM", "ADWIN._remove_last", "W' = W - 2^(rows-1)", fin.get("_window_size") is not None and T.same(fin["_window_size"], S("W - n", env)), q.short(fin.get("_window_size"), 100) if fin.get("_window_size") is not None else "")
    ctx.ob("FRM", "ADWIN._remove_last", "T' = T - total of the oldest bucket", fin.get("_curr_total") is not None and T.same(fin["_curr_total"], S("Tt - t0", env)), "")
    spec = S("V - (v0 + n * (W - n) * (t0 / n - (Tt - t0) / (W - n)) ** 2 / (n + (W - n)))", env)
    ctx.ob("FRM", "ADWIN._remove_last", "variance correction (inverse pairwise update with post-removal size and total)",
           fin.get("_curr_variance") is not None and T.same(fin["_curr_variance"], spec), q.short(fin.get("_curr_variance"), 300) if fin.get("_curr_variance") is not None else "")
    ctx.ob("FRM", "ADWIN._remove_last", "returns the number of dropped elements", trm.retval is not None and T.same(trm.retval, n), "")
    rb = mcalls(trm, "remove_buckets")
    ctx.ob("ROLE", "ADWIN._remove_last", "drops exactly one bucket of the tail row", len(rb) == 1 and rb[0].args == (const(1),) and rb[0].recv == tail, "")
    # accessors
    for name, num in (("mean", Tt), ("variance", V)):
        ta = ctx.trace("ADWIN", name)
        want = T.mk_ite(T.mk_cmp("==", W, const(0)), const(0), num / W)
        ctx.ob("FRM", "ADWIN." + name, "%s() = accumulator / W (0 for an empty window)" % name, ta.retval == want, q.short(ta.retval, 100))


def epsilon(ctx):
    fi = ctx.prog.method("ADWIN", "_check_epsilon")
    for cons in (False, True):
        tr = Evaluator(ctx.prog, ctx.prog.cls("ADWIN"), assume={"conservative_bound": cons}).run(fi)
        ctx._traces[("eps", cons)] = tr
        W, V, s, dl = A("_window_size"), A("_curr_variance"), A("subwindow_size_thresh"), A("delta")
        env = {"n0": P("n_elements0"), "t0": P("total0"), "n1": P("n_elements1"), "t1": P("total1"), "s": s, "W": W,
               "var": T.mk_ite(T.mk_cmp("==", W, const(0)), const(0), V / W)}
        env["m"] = S("1 / (n0 - s + 1) + 1 / (n1 - s + 1)", env)
        if not cons:
            env["dp"] = S("log(2 * log(W) / A_delta)", env)
            eps = S("sqrt(2 * m * var * dp) + (2 / 3) * m * dp", env)
        else:
            env["dp"] = S("log(4 * log(W) / A_delta)", env)
            eps = S("sqrt(m * dp / 2)", env)
        want = T.mk_cmp(">", S("abs(t0 / n0 - t1 / n1)", env), eps)
        got = tr.retval
        ok = got == want
        if not ok and q.is_cmp(got) and q.is_cmp(want):
            ok = q.is_cmp(got)[1] == ">" and _eq_mod_sqrt(q.is_cmp(got)[2], q.is_cmp(want)[2])
        ctx.ob("FRM", "ADWIN._check_epsilon", "epsilon-cut test (conservative_bound=%s)" % cons, ok,
               "computed %s ; documented %s" % (q.short(got, 400), q.short(want, 400)))


def _eq_mod_sqrt(a, b):
    if T.same(a, b):
        return True
    # compare after renaming sqrt(...) atoms whose radicands are algebraically equal
    sa = [x for x in a.atoms() if x[0] == "call" and x[1] == "sqrt"]
    sb = [x for x in b.atoms() if x[0] == "call" and x[1] == "sqrt"]
    if len(sa) != len(sb):
        return False
    m = {}
    for x in sa:
        for y in sb:
            if T.same(x[2][0], y[2][0]):
                m[x] = y
    if len(m) != len(sa):
        return False
    a2 = T.subst(a, lambda z: atom(m[z]) if z in m else None)
    return T.same(a2, b)


def _lv_names(t):
    return [a[2][1:] for a in T.atoms_of(t, "loopvar") if a[2].startswith("$")]


def scan(ctx):
    tr = ctx.trace("ADWIN", "_shrink_window")
    ce = [e for e in q.find_calls(tr, "ADWIN._check_epsilon") if q.stack_has(e, "ADWIN._shrink_window")]
    if not ctx.anchor("ADWIN._shrink_window", "the split test _check_epsilon(n0, total0, n1, total1)", len(ce) == 1 and len(ce[0].args) == 4):
        return
    # the four running quantities of the scan are the locals passed to the split test
    names = []
    for a_ in ce[0].args:
        # the running quantity itself: a loop variable that occurs as a plain summand (not inside a subscript)
        ns = sorted({m_[0][0][2][1:] for m_, cf in a_.num if len(m_) == 1 and m_[0][1] == 1 and m_[0][0][0] == "loopvar" and m_[0][0][2].startswith("$") and cf == 1})
        names.append(ns[0] if len(ns) == 1 else None)
    if None in names or len(set(names)) != 4:
        roles = ("size of the older part", "total of the older part", "size of the newer part", "total of the newer part")
        for nm, role in zip(names, roles):
            ctx.ob("PAIR", "ADWIN._shrink_window", "the %s is a running quantity of the scan" % role, nm is not None,
                   "the value passed to the split test is not updated bucket by bucket: what is added to the older part must be taken from the newer part", ce[0])
        return
    N0, T0, N1, T1 = names
    loc = [e for e in tr.of("local") if q.stack_has(e, "ADWIN._shrink_window") and e.aug is not None]
    by = {}
    for e in loc:
        by.setdefault(e.name, []).append(e)
    def aug(name):
        return by.get(name, [None])[0]
    n0, n1, t0, t1 = aug(N0), aug(N1), aug(T0), aug(T1)
    ok = n0 is not None and n1 is not None and n0.aug[0] == "Add" and n1.aug[0] == "Add" and T.same(n0.aug[1], -n1.aug[1])
    ctx.ob("PAIR", "ADWIN._shrink_window", "elements added to the older part are taken from the newer part", ok, "")
    ok = t0 is not None and t1 is not None and t0.aug[0] == "Add" and t1.aug[0] == "Add" and T.same(t0.aug[1], -t1.aug[1])
    ctx.ob("PAIR", "ADWIN._shrink_window", "totals added to the older part are taken from the newer part", ok, "")
    pos_name = None
    if n0 is not None:
        inc = n0.aug[1].single_atom()
        ok = inc is not None and inc[0] == "pow" and inc[1] == const(2) and (inc[2].single_atom() or ("",))[0] == "loopvar"
        if ok:
            pos_name = inc[2].single_atom()[2][1:]
        is_pow2 = inc is not None and inc[0] == "pow" and inc[1] == const(2)
        if ctx.anchor("ADWIN._shrink_window", "the scan's row position is a variable carried by the scan loop", ok or not is_pow2, ""):
            ctx.ob("AGREE", "ADWIN._shrink_window", "scan uses bucket size 2^row", ok, "")
    lp = [e for e in tr.of("local") if e.name == pos_name and q.stack_has(e, "ADWIN._shrink_window")]
    size1 = atom(("getattr", A("_bucket_row_list"), "size")) - const(1)
    ok = any(e.aug is None and T.mentions(e.value, lambda a: a[0] == "getattr" and a[2] == "size") and
             T.same(e.value - atom([a for a in T.atoms_of(e.value, "getattr") if a[2] == "size"][0]), const(-1)) for e in lp)
    dec = any(e.aug == ("Add", const(-1)) for e in lp)
    ctx.ob("AGREE", "ADWIN._shrink_window", "scan starts at the tail row (position rows-1) and moves towards the head", ok and dec, "")
    # initial split: everything in the newer part
    init = [e for e in tr.of("local") if e.name in (N1, T1) and e.aug is None and q.stack_has(e, "ADWIN._shrink_window")]
    okv = {e.name: e.value for e in init}
    ctx.ob("FRM", "ADWIN._shrink_window", "scan starts with the whole window in the newer part",
           _is_cur(okv.get(N1), "_window_size") and _is_cur(okv.get(T1), "_curr_total"), "")
    init0 = [e for e in tr.of("local") if e.name in (N0, T0) and e.aug is None and q.stack_has(e, "ADWIN._shrink_window")]
    ctx.ob("FRM", "ADWIN._shrink_window", "and nothing in the older part", len(init0) >= 2 and all(e.value == const(0) for e in init0), "")
    # after a removal the dropped elements leave the older part
    rm = q.find_calls(tr, "ADWIN._remove_last")
    ctx.ob("ROLE", "ADWIN._shrink_window", "removal inside the scan", len(rm) >= 1, "")


def _is_cur(v, attr):
    if v is None:
        return False
    a = v.single_atom()
    return a == ("attr", attr) or (a is not None and a[0] == "loopvar" and a[2] == attr)


def bounded(ctx):
    """Write index of a bucket row never exceeds the array capacity."""
    prog = ctx.prog
    row = prog.cls("_BucketRow")
    tr = Evaluator(prog, row).run(prog.lookup(row, "__init__"))
    cap = []
    for attr in ("bucket_totals", "bucket_variances"):
        v = tr.final.attrs.get(attr)
        a = v.single_atom() if v is not None else None
        if a is not None and a[0] == "call" and a[1] == "numpy.zeros":
            cap.append(a[2][0])
    ok = len(cap) == 2 and cap[0] == cap[1] and T.same(cap[0], P("max_buckets") + const(1))
    ctx.ob("AGREE", "_BucketRow.__init__", "both arrays have capacity max_buckets + 1", ok, "")
    ta = Evaluator(prog, row).run(prog.lookup(row, "add_bucket"))
    muts = [e for e in ta.mutations() if e.attr in ("bucket_totals", "bucket_variances")]
    ok = len(muts) == 2 and all(e.path == (("item", A("bucket_count")),) for e in muts)
    ctx.ob("IDX", "_BucketRow.add_bucket", "writes at index bucket_count", ok, "")
    ctx.ob("FRM", "_BucketRow.add_bucket", "bucket_count grows by one", ta.final.attrs.get("bucket_count") is not None and T.same(ta.final.attrs["bucket_count"], A("bucket_count") + const(1)), "")
    # compression trigger equals the capacity
    tc = ctx.trace("ADWIN", "_compress_buckets")
    # the (in)equality tests on a row's bucket_count, also when they are one operand of a compound condition
    trig = []
    for e in tc.of("test"):
        for a_ in T.walk(e.cond):
            if a_[0] == "cmp" and a_[1] in ("==", "!=") and T.mentions(atom(a_), lambda z: z[0] == "getattr" and z[2] == "bucket_count") and atom(a_) not in trig:
                trig.append(atom(a_))
    ok = len(trig) >= 1 and all(T.same(_rhs_eq(t_, "bucket_count"), A("max_buckets") + const(1)) for t_ in trig)
    ctx.ob("AGREE", "ADWIN._compress_buckets", "a row is compressed exactly when it holds max_buckets + 1 buckets (= capacity)", ok,
           "capacity expression and trigger expression must agree, otherwise add_bucket can write past the arrays")
    brk = [e for e in tc.of("test") if q.is_cmp(e.cond) and T.mentions(e.cond, lambda a: a[0] == "getattr" and a[2] == "bucket_count") and q.is_cmp(e.cond)[1] in (">", ">=")]
    ok = any(q.cmp_equiv(e.cond, T.mk_cmp("<=", _bc(e.cond), A("max_buckets")), lambda a: True) for e in brk)
    ctx.ob("GRD", "ADWIN._compress_buckets", "the cascade continues while the next row is over max_buckets", ok, "")
    # every add_bucket on the head is followed by compression
    tr2 = ctx.trace("ADWIN", "_add_sample")
    hb = mcalls(tr2, "add_bucket", "ADWIN._add_sample")
    cc = q.find_calls(tr2, "ADWIN._compress_buckets")
    ok = len(hb) == 1 and len(cc) == 1 and hb[0].seq < cc[0].seq and cc[0].pc == hb[0].pc
    ctx.ob("MC", "ADWIN._add_sample", "every new bucket is followed by compression on the same path", ok, "")
    # the list of rows passes the same max_buckets on
    lst = prog.cls("_BucketRowList")
    for m in ("append_head", "append_tail"):
        t3 = Evaluator(prog, lst).run(prog.lookup(lst, m))
        news = [e for e in t3.calls() if e.callee == ("new", "_BucketRow")]
        ok = len(news) == 1 and news[0].args and news[0].args[0] == A("max_buckets")
        ctx.ob("FWD", "_BucketRowList." + m, "new rows get the list's max_buckets", ok, "")
    ti = ctx.trace("ADWIN", "__init__")
    news = [e for e in ti.calls() if e.callee == ("new", "_BucketRowList")]
    ctx.ob("FWD", "ADWIN.__init__", "the row list gets the detector's max_buckets", len(news) == 1 and news[0].args[0] == P("max_buckets"), "")


def _bc(cond):
    for a in T.atoms_of(cond, "getattr"):
        if a[2] == "bucket_count":
            return atom(a)
    return const(0)


def _rhs_eq(cond, name):
    c = q.is_cmp(cond)
    d = c[2]
    b = _bc(cond)
    r = d - b
    if T.mentions(r, lambda a: a[0] == "getattr" and a[2] == name):
        r = d + b
        return r
    return -r


def linked_list(ctx):
    """The rows form a doubly linked list from head (newest, 2^0) to tail (oldest);
    the scan walks tail->head through prev_bucket, compression head->tail through
    next_bucket: both directions must stay consistent when rows are added / removed."""
    prog = ctx.prog
    lst = prog.cls("_BucketRowList")
    tr = Evaluator(prog, lst).run(prog.lookup(lst, "remove_tail"))
    fin = tr.final.attrs
    newtail = atom(("getattr", A("tail"), "prev_bucket"))
    st = tr.stores("tail")
    ctx.ob("FRM", "_BucketRowList.remove_tail", "tail moves to the previous row", len(st) == 1 and st[0].value == newtail, "", st[0] if st else None)
    cut = [e for e in tr.mutations("tail") if e.how == "setattr" and e.path == (("attr", "next_bucket"),) and e.value == T.NONE]
    ok = len(cut) == 1 and q.has_guard(cut[0], T.mk_cmp("!=", newtail, T.NONE))
    ctx.ob("PAIR", "_BucketRowList.remove_tail", "the new tail's forward link is cut (no dangling row stays reachable)", ok,
           "after removing the oldest row, tail.next_bucket must be None, otherwise later merges go into a detached row", cut[0] if cut else None)
    hd = [e for e in tr.stores("head") if e.value == T.NONE]
    ctx.ob("PAIR", "_BucketRowList.remove_tail", "an emptied list also clears head", len(hd) == 1 and q.has_guard(hd[0], T.mk_cmp("==", newtail, T.NONE)), "")
    ctx.ob("FRM", "_BucketRowList.remove_tail", "size decreases by one", fin.get("size") is not None and T.same(fin["size"], A("size") - const(1)), "")
    for m in ("append_tail", "append_head"):
        t2 = Evaluator(prog, lst).run(prog.lookup(lst, m))
        ctx.ob("FRM", "_BucketRowList." + m, "size increases by one", t2.final.attrs.get("size") is not None and T.same(t2.final.attrs["size"], A("size") + const(1)), "")
        news = [e for e in t2.calls() if e.callee == ("new", "_BucketRow")]
        kw = dict(news[0].kwargs) if news else {}
        if m == "append_tail":
            ok = kw.get("prev_bucket") == A("tail") and "next_bucket" not in kw
            ctx.ob("PAIR", "_BucketRowList.append_tail", "the new tail is linked behind the old tail", ok, "")
        else:
            ok = kw.get("next_bucket") == A("head") and "prev_bucket" not in kw
            ctx.ob("PAIR", "_BucketRowList.append_head", "the new head is linked before the old head", ok, "")
    row = prog.cls("_BucketRow")
    t3 = Evaluator(prog, row).run(prog.lookup(row, "__init__"))
    lm = [e for e in t3.of("localmut") if e.how == "setattr"]
    ok = any(e.name == "next_bucket" and e.path == (("attr", "prev_bucket"),) and e.value.single_atom() == ("self",) for e in lm) and \
        any(e.name == "prev_bucket" and e.path == (("attr", "next_bucket"),) and e.value.single_atom() == ("self",) for e in lm)
    ctx.ob("PAIR", "_BucketRow.__init__", "a new row links itself into both neighbours", ok, "")
    rb = Evaluator(prog, row).run(prog.lookup(row, "remove_buckets"))
    fin = rb.final.attrs
    ok = fin.get("bucket_count") is not None and T.same(fin["bucket_count"], A("bucket_count") - P("num_buckets"))
    ctx.ob("FRM", "_BucketRow.remove_buckets", "bucket_count decreases by the number removed", ok, "")
    sh = Evaluator(prog, row).run(prog.lookup(row, "shift"))
    root = q.unmut(sh.retval) if sh.retval is not None else None
    muts = [e for e in sh.of("localmut") if isinstance(e.d.get("old"), T.R) and root is not None and q.unmut(e.old) == root]
    # result[:-num] = arr[num:] ; result[-num:] = fill   (num buckets dropped from the front)
    okc = False
    for e in muts:
        if e.how == "setitem" and e.path and T.mentions(e.value, lambda a: a == ("param", "arr")):
            src = e.value.single_atom()
            dst = e.path[0][1].single_atom()
            if src and src[0] == "sub" and dst and dst[0] == "slice":
                sidx = src[2].single_atom()
                okc = sidx is not None and sidx[0] == "slice" and T.same(sidx[1], P("num")) and sidx[2] == T.NONE and dst[1] == T.NONE and T.same(dst[2], -P("num"))
    ctx.ob("FRM", "_BucketRow.shift", "the oldest buckets (front of the arrays) are the ones dropped", okc, "")


# ---------------------------------------------------------------------------
# Loop protocol of compression and of the split scan (induction form: initial value, step on the paths that reach the
# end of the body, continuation test, guards of every break).  The evaluator summarises a loop as (pre-state, body
# transition on loop variables); the rules below compare that summary with the documented traversal.

def LV(lid, name):
    return atom(("loopvar", lid, "$" + name))


def _only_loopvar(t):
    a = t.single_atom() if t is not None else None
    if a is not None and a[0] == "loopvar" and a[2].startswith("$"):
        return a[2][1:]
    return None


def _cur(attr, lid=None):
    """Current value of a receiver attribute: entry value, or its havoc'd value inside loop lid."""
    out = [A(attr)]
    if lid:
        out.append(atom(("loopvar", lid, attr)))
    return out


def _nest(tr):
    """Loops of a trace ordered outermost first (by source containment)."""
    import ast as _ast
    items = list(tr.loops.items())
    def depth(node):
        return sum(1 for _l, L in items if L["node"] is not node and any(n is node for n in _ast.walk(L["node"])))
    return sorted(items, key=lambda kv: depth(kv[1]["node"]))


def compress_loop(ctx):
    site = "ADWIN._compress_buckets"
    tc = ctx.trace("ADWIN", "_compress_buckets")
    loops = _nest(tc)
    if not ctx.anchor(site, "one traversal loop", len(loops) == 1):
        return
    lid, L = loops[0]
    rm = mcalls(tc, "remove_buckets", site)
    ab = mcalls(tc, "add_bucket", site)
    if not ctx.anchor(site, "merge = one add_bucket into the next row and one remove_buckets from the current row", len(rm) == 1 and len(ab) == 1):
        return
    row = _only_loopvar(rm[0].recv)
    pw = [a for a in T.walk(ab[0].args[1]) if a[0] == "pow" and a[1] == const(2)] if len(ab[0].args) == 2 else []
    pos = _only_loopvar(pw[0][2]) if pw else None
    ctx.ob("PAIR", site, "the merged buckets are removed from the row the traversal stands on", row is not None, q.short(rm[0].recv, 80), rm[0])
    ctx.ob("AGREE", site, "the bucket size of the merge is 2^(position of that row)", pos is not None, "", ab[0])
    if row is None or pos is None:
        return
    R, Pn = LV(lid, row), LV(lid, pos)
    head = [atom(("getattr", b, "head")) for b in _cur("_bucket_row_list")]
    pre, end = L["pre"].locs, (L["body_end"].locs if L["body_end"] is not None else {})
    ctx.ob("LOOP-init", site, "compression starts at the head row (newest, buckets of one element)", pre.get(row) in head, q.short(pre.get(row), 80) if pre.get(row) is not None else "unset")
    ctx.ob("LOOP-init", site, "with row position 0", pre.get(pos) == const(0), q.short(pre.get(pos), 40) if pre.get(pos) is not None else "unset")
    ctx.ob("LOOP-step", site, "the traversal moves to the next (older) row", end.get(row) == atom(("getattr", R, "next_bucket")), q.short(end.get(row), 80) if end.get(row) is not None else "no path reaches the end of the body")
    ctx.ob("LOOP-step", site, "and the position grows by one with it", end.get(pos) is not None and T.same(end[pos], Pn + const(1)), q.short(end.get(pos), 60) if end.get(pos) is not None else "")
    tests = [e for e in tc.of("test") if e.node is L["node"]]
    ctx.ob("LOOP-test", site, "the traversal continues while there is a row", len(tests) == 1 and tests[0].cond == T.mk_cmp("!=", R, T.NONE),
           q.short(tests[0].cond, 80) if tests else "")
    full = T.mk_cmp("==", atom(("getattr", R, "bucket_count")), A("max_buckets") + const(1))
    nxt = atom(("getattr", R, "next_bucket"))
    for e, what in ((ab[0], "the two oldest buckets are merged into the next row"), (rm[0], "and removed from this row")):
        ctx.ob("GRD", site, what + " exactly when the row holds max_buckets + 1 buckets", q.has_guard(e, full),
               "guards: %s" % "; ".join(q.short(g, 70) for g in guards(e)[1:]), e)
    ctx.ob("PAIR", site, "the merged bucket goes to the row after the current one", ab[0].recv == nxt, q.short(ab[0].recv, 80), ab[0])
    ctx.ob("FRM", site, "two buckets are removed per merge", rm[0].args == (const(2),), "", rm[0])
    ctx.ob("ORD", site, "the merged bucket is stored before the two buckets are dropped", ab[0].seq < rm[0].seq, "", rm[0])
    # a missing next row is created first, and the row variable is read again afterwards
    at = mcalls(tc, "append_tail", site)
    ctx.ob("ROLE", site, "a missing next row is created", len(at) == 1, "")
    for e in at:
        ctx.ob("GRD", site, "a row is appended exactly when the current row has no successor", q.has_guard(e, T.mk_cmp("==", nxt, T.NONE)) and q.has_guard(e, full), "", e)
        import ast as _ast
        rn = ab[0].node.func.value.id if isinstance(ab[0].node.func, _ast.Attribute) and isinstance(ab[0].node.func.value, _ast.Name) else None
        rd = [x for x in tc.of("local") if x.name == rn and e.seq < x.seq < ab[0].seq and (x.pc[: len(e.pc)] == e.pc or e.pc[: len(x.pc)] == x.pc)]  # on the appending path: inside its branch, or after the branch rejoined
        ctx.ob("ORD", site, "the successor is read again after the row was appended", rn is None or bool(rd),
               "the variable holding the next row still holds None on the path that appended it", e)
    # breaks: only when this row is not full, or after a merge that left the next row within bounds
    brk = [e for e in tc.of("break") if q.stack_has(e, site)]
    within = T.mk_cmp("<=", atom(("getattr", nxt, "bucket_count")), A("max_buckets"))
    for e in brk:
        ok = q.has_guard(e, T.mk_not(full)) or (q.has_guard(e, full) and q.has_guard(e, within))
        ctx.ob("BRK", site, "the cascade stops only at a row that is not full or after a merge that did not fill the next row", ok,
               "guards: %s" % "; ".join(q.short(g, 70) for g in guards(e)[1:]), e)
    ctx.floor("compress loop exits examined", len(brk) + 1, 2)


def shrink_loops(ctx):
    site = "ADWIN._shrink_window"
    tr = ctx.trace("ADWIN", "_shrink_window")
    loops = _nest(tr)
    if not ctx.anchor(site, "restart loop > row traversal > bucket loop", len(loops) == 3):
        return
    (l1, L1), (l2, L2), (l3, L3) = loops
    ce = [e for e in q.find_calls(tr, "ADWIN._check_epsilon") if q.stack_has(e, site)]
    if len(ce) != 1 or len(ce[0].args) != 4:
        return  # reported by scan()
    # roles: restart flag = the variable the outer loop tests; exit flag / row from the traversal test
    t1 = [e for e in tr.of("test") if e.node is L1["node"]]
    flag = _only_loopvar(t1[0].cond) if len(t1) == 1 else None
    # how the repetition is driven (a flag variable / a helper's verdict) is an idiom, not the property: unrecognised = no verdict
    ctx.anchor(site, "the scan is repeated while a restart flag is set", flag is not None, q.short(t1[0].cond, 80) if t1 else "")
    t2 = [e for e in tr.of("test") if e.node is L2["node"]]
    ex = rw = None
    if len(t2) == 1:
        for cj in q.conjuncts(t2[0].cond):
            a = cj.single_atom()
            if a is not None and a[0] == "not" and _only_loopvar(a[1]):
                ex = _only_loopvar(a[1])
            c = q.is_cmp(cj)
            if c is not None and c[1] == "!=" and len(list(T.atoms_of(cj, "loopvar"))) == 1:
                nm = _only_loopvar(atom(list(T.atoms_of(cj, "loopvar"))[0]))
                if nm and cj == T.mk_cmp("!=", LV(l2, nm), T.NONE):
                    rw = nm
    ok = ex is not None and rw is not None and len(q.conjuncts(t2[0].cond)) == 2
    ctx.anchor(site, "rows are visited while the scan has not finished and there is a row", ok, q.short(t2[0].cond, 120) if t2 else "")
    # bucket size of the scan
    names = []
    for a_ in ce[0].args:
        ns = sorted({m_[0][0][2][1:] for m_, cf in a_.num if len(m_) == 1 and m_[0][1] == 1 and m_[0][0][0] == "loopvar" and m_[0][0][2].startswith("$") and cf == 1})
        names.append(ns[0] if len(ns) == 1 else None)
    if None in names or len(set(names)) != 4 or flag is None or not ok:
        return
    N0, T0, N1, T1 = names
    e3 = L3["body_end"].locs if L3["body_end"] is not None else {}
    inc = (e3.get(N0) - LV(l3, N0)) if e3.get(N0) is not None else None
    ia = inc.single_atom() if inc is not None else None
    ps = _only_loopvar(ia[2]) if ia is not None and ia[0] == "pow" and ia[1] == const(2) else None
    if not ctx.anchor(site, "the scan adds 2^position elements per bucket", ps is not None):
        return
    # ---- start of one scan (state at the head of the row traversal)
    p2 = L2["pre"].locs
    lst = _cur("_bucket_row_list", l1)
    want = [
        (flag, [T.FALSE], "the restart flag is cleared when a scan starts"),
        (ex, [T.FALSE], "the finished flag is cleared when a scan starts"),
        (N0, [const(0)], "the older part starts empty (size)"),
        (T0, [const(0)], "the older part starts empty (total)"),
        (N1, _cur("_window_size", l1), "the newer part starts as the whole current window (size)"),
        (T1, _cur("_curr_total", l1), "the newer part starts as the whole current window (total)"),
        (rw, [atom(("getattr", b, "tail")) for b in lst], "the scan starts at the tail row (oldest buckets)"),
        (ps, [atom(("getattr", b, "size")) - const(1) for b in lst], "whose position is rows - 1"),
    ]
    for nm, vals, what in want:
        got = p2.get(nm)
        ctx.ob("LOOP-init", site, what, got is not None and any(got == v or T.same(got, v) for v in vals), q.short(got, 80) if got is not None else "unset")
    ctx.ob("LOOP-init", site, "the first scan is unconditional", L1["pre"].locs.get(flag) == T.TRUE, "")
    # ---- row traversal step
    e2 = L2["body_end"].locs if L2["body_end"] is not None else {}
    ctx.ob("LOOP-step", site, "the traversal moves to the previous (younger) row", e2.get(rw) == atom(("getattr", LV(l2, rw), "prev_bucket")), q.short(e2.get(rw), 80) if e2.get(rw) is not None else "")
    ctx.ob("LOOP-step", site, "and the position decreases by one with it", e2.get(ps) is not None and T.same(e2[ps], LV(l2, ps) - const(1)), q.short(e2.get(ps), 80) if e2.get(ps) is not None else "")
    # ---- bucket loop
    cnt = atom(("getattr", LV(l2, rw), "bucket_count"))
    it = L3["iter"]
    ia_ = it.single_atom() if it is not None else None
    ctx.ob("LOOP-test", site, "every bucket of the row is visited, oldest first", ia_ is not None and ia_[0] == "call" and ia_[1] == "range" and tuple(ia_[2]) == (cnt,),
           q.short(it, 80) if it is not None else "")
    idx = atom(("idx", l3))
    bt = atom(("sub", atom(("getattr", LV(l2, rw), "bucket_totals")), idx))
    n_inc = atom(("pow", const(2), LV(l2, ps)))
    n0, t0, n1, t1_ = LV(l3, N0) + n_inc, LV(l3, T0) + bt, LV(l3, N1) - n_inc, LV(l3, T1) - bt
    for nm, w, what in ((N0, n0, "size of the older part grows by the bucket size"), (T0, t0, "total of the older part grows by the bucket total"),
                        (N1, n1, "size of the newer part shrinks by the bucket size"), (T1, t1_, "total of the newer part shrinks by the same bucket total")):
        got = e3.get(nm)
        ctx.ob("LOOP-step", site, what, got is not None and T.same(got, w), q.short(got, 120) if got is not None else "")
    ctx.ob("AGREE", site, "the split test receives (older size, older total, newer size, newer total) after this bucket was moved",
           all(T.same(a, b) for a, b in zip(ce[0].args, (n0, t0, n1, t1_))), "", ce[0])
    # ---- exits of the bucket loop
    brk = [e for e in tr.of("break") if q.stack_has(e, site)]
    ds = [e for e in tr.stores("_drift_state") if e.value == const("drift") and q.stack_has(e, site)]
    ctx.ob("ROLE", site, "the scan stores 'drift'", len(ds) == 1, "found %d" % len(ds))
    ret = None
    for x in tr.events[ce[0].seq:]:
        if x.kind == "exit" and x.d.get("fi") is not None and x.fi.name == "_check_epsilon":
            ret = x.d.get("value")
            break
    sub_t = A("subwindow_size_thresh")
    cut = [T.mk_cmp(">=", n0, sub_t), T.mk_cmp(">=", n1, sub_t)] + ([ret] if ret is not None else [])
    youngest = [T.mk_cmp("==", LV(l2, ps), const(0)), T.mk_cmp("==", idx, cnt - const(1))]
    if ctx.anchor(site, "the split test's verdict is available", ret is not None):
        for e in ds:
            se = _site(tr, e)
            miss = [g for g in cut if not q.has_guard(se, g)]
            ctx.ob("GRD", site, "drift is stored exactly under: both parts >= subwindow_size_thresh and the split test fires", not miss,
                   "missing: %s" % "; ".join(q.short(g, 80) for g in miss), se)
            ctx.ob("GRD", site, "and not at the youngest bucket (nothing newer to compare with)", q.has_guard(se, T.mk_not(T.mk_and(youngest))) or
                   any(q.has_guard(se, T.mk_not(y)) for y in youngest), "", se)
    n_a = n_b = 0
    for e in brk:
        locs = e.d.get("locs", {})
        if all(q.has_guard(e, y) for y in youngest):
            n_a += 1
            ctx.ob("BRK", site, "reaching the youngest bucket finishes the scan", locs.get(ex) == T.TRUE and locs.get(flag) == LV(l3, flag),
                   "finished flag %s, restart flag %s" % (q.short(locs.get(ex), 30), q.short(locs.get(flag), 30)), e)
        elif all(q.has_guard(e, g) for g in cut):
            n_b += 1
            rl = [x for x in q.find_calls(tr, "ADWIN._remove_last") if q.stack_has(x, site)]
            removed = None
            for x in tr.events[rl[0].seq:] if rl else ():
                if x.kind == "exit" and x.d.get("fi") is not None and x.fi.name == "_remove_last":
                    removed = x.d.get("value")
                    break
            ctx.ob("BRK", site, "a cut finishes this scan and requests another one", locs.get(ex) == T.TRUE and locs.get(flag) == T.TRUE, "", e)
            ctx.ob("FRM", site, "the dropped elements leave the older part", removed is not None and locs.get(N0) is not None and T.same(locs[N0], n0 - removed),
                   q.short(locs.get(N0), 120) if locs.get(N0) is not None else "", e)
            wcur = [A("_window_size")] + [atom(("loopvar", l, "_window_size")) for l in (l1, l2, l3)]
            ws = [g for g in guards(e) if any(g == T.mk_cmp(">", w, const(0)) for w in wcur)]
            ctx.ob("GRD", site, "a bucket is dropped exactly when the window is non-empty", bool(ws),
                   "guards: %s" % "; ".join(q.short(g, 60) for g in guards(e)[-3:]), e)
        else:
            ctx.ob("BRK", site, "the bucket loop is left only at the youngest bucket or after a cut", False,
                   "guards: %s" % "; ".join(q.short(g, 60) for g in guards(e)[-4:]), e)
    ctx.ob("ROLE", site, "the scan ends at the youngest bucket", n_a == 1, "found %d such exits" % n_a)
    ctx.ob("ROLE", site, "a cut restarts the scan", n_b == 1, "found %d such exits" % n_b)
    # the restart request is made wherever drift is stored (also when nothing can be dropped)
    for e in ds:
        later = [x for x in tr.of("local") if x.name == flag and x.value == T.TRUE and x.seq > ce[0].seq and q.stack_has(x, site)]
        se = _site(tr, e)
        ok = any(set(map(id, x.pc)) == set(map(id, se.pc)) for x in later)
        ctx.ob("PAIR", site, "storing drift requests another scan", ok, "", se)
    # entry condition of the whole procedure
    lp = [e for e in tr.of("loop") if e.node is L1["node"]]
    if lp:
        g1 = T.mk_cmp("==", atom(("mod", A("_total_samples"), A("new_sample_thresh"))), const(0))
        g2 = T.mk_cmp(">", A("_window_size"), A("window_size_thresh"))
        ctx.ob("GRD", site, "cuts are looked for every new_sample_thresh samples once the window exceeds window_size_thresh",
               q.has_guard(lp[0], g1) and q.has_guard(lp[0], g2), "guards: %s" % "; ".join(q.short(g, 70) for g in guards(lp[0])), lp[0])


def _site(tr, ev):
    from .c01 import _site_pc_ev
    return _site_pc_ev(tr, ev)


def structures(ctx):
    """Final states of the small list / row methods against their documented effect."""
    prog = ctx.prog
    lst, row = prog.cls("_BucketRowList"), prog.cls("_BucketRow")
    mb = A("max_buckets")
    def new(**kw):
        return atom(("new", "_BucketRow", (mb,), tuple(sorted(kw.items()))))
    def fin(ci, m):
        t = Evaluator(prog, ci).run(prog.lookup(ci, m))
        return t, (t.final.attrs if t.final is not None else {})
    def tab(site, attrs, table):
        for k, w in table.items():
            got = attrs.get(k)
            ctx.ob("TAB-struct", site, "%s after the call" % k, got is not None and (got == w or T.same(got, w)),
                   "is %s ; documented %s" % (q.short(got, 120) if got is not None else "unchanged/unset", q.short(w, 120)))
    isnone = lambda t: T.mk_cmp("==", t, T.NONE)
    # append_head
    t, a = fin(lst, "append_head")
    nh = new(next_bucket=A("head"))
    tab("_BucketRowList.append_head", a, {"head": nh, "size": A("size") + const(1), "tail": T.mk_ite(isnone(A("tail")), nh, A("tail"))})
    bk = [e for e in t.mutations("head") if e.how == "setattr" and e.path == (("attr", "prev_bucket"),)]
    ctx.ob("PAIR", "_BucketRowList.append_head", "the old head points back to the new head", len(bk) == 1 and bk[0].value == nh and q.has_guard(bk[0], T.mk_cmp("!=", A("head"), T.NONE)), "")
    # append_tail
    t, a = fin(lst, "append_tail")
    nt = new(prev_bucket=A("tail"))
    tab("_BucketRowList.append_tail", a, {"tail": nt, "size": A("size") + const(1), "head": T.mk_ite(isnone(A("head")), nt, A("head"))})
    # __init__ : one empty row that is both head and tail
    t = Evaluator(prog, lst).run(prog.lookup(lst, "__init__"))
    a = t.final.attrs if t.final is not None else {}
    first = atom(("new", "_BucketRow", (P("max_buckets"),), (("next_bucket", T.NONE),)))
    tab("_BucketRowList.__init__", a, {"max_buckets": P("max_buckets"), "size": const(1), "head": first, "tail": first})
    # row constructor
    t = Evaluator(prog, row).run(prog.lookup(row, "__init__"))
    a = t.final.attrs if t.final is not None else {}
    tab("_BucketRow.__init__", a, {"bucket_count": const(0), "max_buckets": P("max_buckets"), "prev_bucket": P("prev_bucket"), "next_bucket": P("next_bucket")})
    lm = [e for e in t.of("localmut") if e.how == "setattr"]
    for nm, other in (("next_bucket", "prev_bucket"), ("prev_bucket", "next_bucket")):
        es = [e for e in lm if e.name == nm and e.path == (("attr", other),)]
        ctx.ob("PAIR", "_BucketRow.__init__", "the %s neighbour is linked back only when it exists" % nm.split("_")[0],
               len(es) == 1 and q.has_guard(es[0], T.mk_cmp("!=", P(nm), T.NONE)), "")
    # remove_buckets: both arrays shifted by the same amount
    t = Evaluator(prog, row).run(prog.lookup(row, "remove_buckets"))
    sh = [e for e in q.find_calls(t, "_BucketRow.shift")]
    okk = len(sh) == 2 and {q.short(e.args[0], 40) for e in sh} == {q.short(A("bucket_totals"), 40), q.short(A("bucket_variances"), 40)} and all(e.args[1] == P("num_buckets") for e in sh)
    ctx.ob("AGREE", "_BucketRow.remove_buckets", "totals and variances are shifted by the same number of buckets", okk, "")
    for arr in ("bucket_totals", "bucket_variances"):
        v = t.final.attrs.get(arr) if t.final is not None else None
        ctx.ob("FRM", "_BucketRow.remove_buckets", "%s is replaced by its shifted copy" % arr,
               v is not None and T.mentions(v, lambda z: z[0] == "sub" and z[1] == A(arr)) and not T.mentions(v, lambda z: z[0] == "sub" and z[1] != A(arr) and z[1].single_atom() and z[1].single_atom()[0] == "attr"), "")
    # detector construction
    ti = ctx.trace("ADWIN", "__init__")
    a = ti.final.attrs if ti.final is not None else {}
    tab("ADWIN.__init__", a, {"_curr_total": const(0), "_curr_variance": const(0), "_window_size": const(0)})
    # removal of the last bucket empties the tail row -> the row is unlinked
    trm = ctx.trace("ADWIN", "_remove_last")
    rt = mcalls(trm, "remove_tail")
    tail = [atom(("getattr", A("_bucket_row_list"), "tail"))]
    okk = len(rt) == 1 and any(q.has_guard(rt[0], T.mk_cmp("==", atom(("getattr", tl, "bucket_count")), const(0))) for tl in tail)
    ctx.ob("GRD", "ADWIN._remove_last", "the tail row is unlinked exactly when it became empty", okk,
           "guards: %s" % ("; ".join(q.short(g, 80) for g in guards(rt[0])) if rt else "no remove_tail call"), rt[0] if rt else None)
    rb = mcalls(trm, "remove_buckets")
    if rb and rt:
        ctx.ob("ORD", "ADWIN._remove_last", "the bucket is dropped before the row is tested for emptiness", rb[0].seq < rt[0].seq, "", rt[0])
