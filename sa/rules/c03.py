"""C03 - ADWIN statistics and cut rule; ADWINAccuracy."""
from .. import terms as T
from ..terms import const, atom
from .. import q
from ..q import A, P, S, guards
from ..evalr import Evaluator

PARAMS = ["delta", "max_buckets", "new_sample_thresh", "window_size_thresh", "subwindow_size_thresh", "conservative_bound"]


def mcalls(tr, name, func=None):
    return [e for e in tr.calls() if e.callee[0] in ("mcall", "foreign") and e.callee[-1] == name and (func is None or e.func.qualname == func)]


def run(ctx):
    ctx.explanation = (
        "ADWINAccuracy constructor forwarding and indicator; who-may-write the window size; formula conformance of the incremental "
        "variance step, bucket merge (Chan et al.), removal correction, mean/variance accessors and both epsilon-cut branches; "
        "complementary bookkeeping of the split scan; bucket size 2^row agreement; bounded write of the bucket arrays")
    ctx.assumptions += ["real arithmetic", "exactness of mean/variance over arbitrary compress/shrink histories is NOT decided (runtime quantity); only the per-step formulas are"]
    accuracy(ctx)
    window_writers(ctx)
    formulas(ctx)
    epsilon(ctx)
    scan(ctx)
    bounded(ctx)
    linked_list(ctx)


def accuracy(ctx):
    tr = ctx.trace("ADWINAccuracy", "__init__")
    cs = q.find_calls(tr, "ADWIN.__init__")
    ctx.anchor("ADWINAccuracy.__init__", "calls ADWIN.__init__", len(cs) == 1, "")
    for p in PARAMS:
        fv = tr.final.attrs.get(p) if tr.final else None
        ctx.ob("FWD", "ADWINAccuracy.__init__", "constructor parameter %s reaches the detector" % p, fv == P(p),
               "ADWINAccuracy(%s=v) must configure the underlying ADWIN with v (found %s)" % (p, q.short(fv, 40) if fv is not None else "nothing"))
    tr = ctx.trace("ADWINAccuracy", "update", assume={"_drift_state": None}, nonnull=("y_true", "y_pred"))
    cs = q.find_calls(tr, "ADWIN.update")
    ctx.ob("ROLE", "ADWINAccuracy.update", "delegates to ADWIN.update exactly once", len(cs) == 1, "")
    if cs:
        x = cs[0].args[0] if cs[0].args else dict(cs[0].kwargs).get("X")
        a = x.single_atom() if x is not None else None
        ok = a is not None and a[0] == "call" and a[1] == "int" and q.is_cmp(a[2][0]) is not None and q.is_cmp(a[2][0])[1] == "=="
        ext = False
        if ok:
            d = q.is_cmp(a[2][0])[2]
            ats = [y for y in d.atoms()]
            ext = len(ats) == 2 and all(y[0] == "sub" and y[2] == const(0) for y in ats) and \
                {("y_true" if T.mentions(atom(y), lambda z: z == ("param", "y_true")) else "y_pred") for y in ats} == {"y_true", "y_pred"}
        ctx.ob("FRM", "ADWINAccuracy.update", "observation is int(y_true == y_pred)", ok, q.short(x, 120) if x is not None else "", cs[0])
        ctx.ob("ORD", "ADWINAccuracy.update", "the indicator compares the extracted scalars (extraction precedes the comparison)", ok and ext,
               "int() of a comparison of the validated arrays fails for numpy >= 2; compare y[0] values", cs[0])
        rest = list(cs[0].args[1:]) + [v for k, v in cs[0].kwargs if k in ("y_true", "y_pred")]
        ctx.ob("FWD", "ADWINAccuracy.update", "labels are not passed on as data", all(r == T.NONE for r in rest), "", cs[0])


def _neg_pow(d):
    """d = -(2 ** k): a negative power of two"""
    a = (-d).single_atom()
    return a is not None and a[0] == "pow" and a[1] == const(2)


def window_writers(ctx):
    tr = ctx.trace("ADWIN", "update", assume={"_drift_state": None}, nonnull=("X",))
    st = tr.stores("_window_size")
    ctx.floor("_window_size stores", len(st), 2)
    for e in st:
        if e.func.qualname == "ADWIN.update":
            ok = T.same(e.value, e.old + const(1))
            what = "W grows by one per update"
        elif e.func.qualname == "ADWIN._remove_last":
            ok = e.aug is not None and e.aug[0] == "Add" and T.mentions(e.aug[1], lambda a: a[0] == "pow") and T.same(e.value, e.old + e.aug[1]) and _neg_pow(e.aug[1])
            what = "W shrinks by the size of the dropped bucket"
        else:
            ok, what = False, "window size written outside update/_remove_last"
        ctx.ob("WR", e.func.qualname, what, ok, q.short(e.value, 100), e)
    rm = q.find_calls(tr, "ADWIN._remove_last")
    ctx.ob("ROLE", "ADWIN._shrink_window", "_remove_last is called", len(rm) >= 1, "")
    drift = [e for e in tr.stores("_drift_state") if e.value == const("drift")]
    for c in rm:
        ok = False
        for d in drift:
            from .c01 import _site_pc_ev
            sp = _site_pc_ev(tr, d).pc
            if d.seq < c.seq and c.pc[: len(sp)] == sp:
                ok = True
        ctx.ob("PAIR", c.func.qualname, "window shrinks only in an update that reports drift", ok,
               "every call of _remove_last must be dominated by a store of drift_state = 'drift' in the same block", c)
    # nothing else in the class calls _remove_last
    for m in ("reset", "mean", "variance", "_add_sample", "_compress_buckets"):
        t2 = ctx.trace("ADWIN", m)
        ctx.ob("WR", "ADWIN." + m, "does not shrink the window", not q.find_calls(t2, "ADWIN._remove_last"), "", nontrivial=False)


def formulas(ctx):
    tr = ctx.trace("ADWIN", "update", assume={"_drift_state": None}, nonnull=("X",))
    xv = q.validated(tr, 0)
    x = q.sub(q.sub(xv, 0), 0)
    W, Tt, V = A("_window_size"), A("_curr_total"), A("_curr_variance")
    env = {"x": x, "W": W + const(1)}
    # incremental variance step
    sv = [e for e in tr.stores("_curr_variance") if e.func.qualname == "ADWIN._add_sample"]
    spec = S("A__curr_variance + (W - 1) * (x - A__curr_total / (W - 1)) ** 2 / W", env)
    ctx.ob("FRM", "ADWIN._add_sample", "incremental sum of squared deviations (Welford/West step)", len(sv) == 1 and T.same(sv[0].value, spec),
           q.short(sv[0].value, 240) if sv else "", sv[0] if sv else None)
    if sv:
        ctx.ob("GRD", "ADWIN._add_sample", "variance step only for W > 1", q.has_guard(sv[0], S("W > 1", env)), "", sv[0])
    stt = [e for e in tr.stores("_curr_total") if e.func.qualname == "ADWIN._add_sample"]
    ctx.ob("FRM", "ADWIN._add_sample", "total gains the new value", len(stt) == 1 and T.same(stt[0].value, Tt + x), "", stt[0] if stt else None)
    if sv and stt:
        ctx.ob("ORD", "ADWIN._add_sample", "variance step uses the total before the new value is added", sv[0].seq < stt[0].seq, "", sv[0])
    hb = [e for e in mcalls(tr, "add_bucket", "ADWIN._add_sample")]
    ctx.ob("FRM", "ADWIN._add_sample", "new bucket holds (value, variance 0)", len(hb) == 1 and tuple(hb[0].args) == (x, const(0)), "", hb[0] if hb else None)
    # merge of the two oldest buckets of a full row
    tc = ctx.trace("ADWIN", "_compress_buckets")
    ab = mcalls(tc, "add_bucket")
    rb = mcalls(tc, "remove_buckets")
    ctx.anchor("ADWIN._compress_buckets", "merge adds one bucket to the next row and removes two", len(ab) == 1 and len(rb) == 1 and rb[0].args == (const(2),), "")
    if ab and rb:
        row = rb[0].recv
        def bt(i, what):
            return atom(("sub", atom(("getattr", row, what)), const(i)))
        posv = [a for a in T.atoms_of(ab[0].args[1], "pow")]
        ctx.anchor("ADWIN._compress_buckets", "bucket size is a power of two of the row position", len(set(posv)) == 1, "")
        if posv:
            n = atom(posv[0])
            ok_n = posv[0][1] == const(2)
            env = {"t0": bt(0, "bucket_totals"), "t1": bt(1, "bucket_totals"), "v0": bt(0, "bucket_variances"), "v1": bt(1, "bucket_variances"), "n": n}
            ctx.ob("FRM", "ADWIN._compress_buckets", "merged total", T.same(ab[0].args[0], S("t0 + t1", env)), q.short(ab[0].args[0], 120), ab[0])
            ctx.ob("FRM", "ADWIN._compress_buckets", "merged variance (Chan et al. pairwise update, equal sizes)",
                   ok_n and T.same(ab[0].args[1], S("v0 + v1 + n * (t0 / n - t1 / n) ** 2 / 2", env)), q.short(ab[0].args[1], 240), ab[0])
            # row position: starts at 0 at the head and grows by one per row
            ex = posv[0][2].single_atom()
            pos_name = ex[2][1:] if ex is not None and ex[0] == "loopvar" else None
            lp = [e for e in tc.of("local") if e.name == pos_name]
            ok = any(e.value == const(0) for e in lp) and any(e.aug is not None and e.aug == ("Add", const(1)) for e in lp)
            ctx.ob("AGREE", "ADWIN._compress_buckets", "row position counts from the head (2^0 elements per bucket)", ok, "")
            ctx.ob("ORD", "ADWIN._compress_buckets", "buckets are read before they are removed", ab[0].seq < rb[0].seq, "", ab[0])
    # removal of the oldest bucket
    trm = ctx.trace("ADWIN", "_remove_last")
    tail = atom(("getattr", A("_bucket_row_list"), "tail"))
    n = atom(("pow", const(2), atom(("getattr", A("_bucket_row_list"), "size")) - const(1)))
    t0 = atom(("sub", atom(("getattr", tail, "bucket_totals")), const(0)))
    v0 = atom(("sub", atom(("getattr", tail, "bucket_variances")), const(0)))
    env = {"n": n, "t0": t0, "v0": v0, "W": W, "Tt": Tt, "V": V}
    fin = trm.final.attrs if trm.final else {}
    ctx.ob("FRM", "ADWIN._remove_last", "W' = W - 2^(rows-1)", fin.get("_window_size") is not None and T.same(fin["_window_size"], S("W - n", env)), q.short(fin.get("_window_size"), 100) if fin.get("_window_size") is not None else "")
    ctx.ob("FRM", "ADWIN._remove_last", "T' = T - total of the oldest bucket", fin.get("_curr_total") is not None and T.same(fin["_curr_total"], S("Tt - t0", env)), "")
    spec = S("V - (v0 + n * (W - n) * (t0 / n - (Tt - t0) / (W - n)) ** 2 / (n + (W - n)))", env)
    ctx.ob("FRM", "ADWIN._remove_last", "variance correction (inverse pairwise update with post-removal size and total)",
           fin.get("_curr_variance") is not None and T.same(fin["_curr_variance"], spec), q.short(fin.get("_curr_variance"), 300) if fin.get("_curr_variance") is not None else "")
    ctx.ob("FRM", "ADWIN._remove_last", "returns the number of dropped elements", trm.retval is not None and T.same(trm.retval, n), "")
    rb = mcalls(trm, "remove_buckets")
    ctx.ob("ROLE", "ADWIN._remove_last", "drops exactly one bucket of the tail row", len(rb) == 1 and rb[0].args == (const(1),) and rb[0].recv == tail, "")
    # accessors
    for name, num in (("mean", Tt), ("variance", V)):
        ta = ctx.trace("ADWIN", name)
        want = T.mk_ite(T.mk_cmp("==", W, const(0)), const(0), num / W)
        ctx.ob("FRM", "ADWIN." + name, "%s() = accumulator / W (0 for an empty window)" % name, ta.retval == want, q.short(ta.retval, 100))


def epsilon(ctx):
    fi = ctx.prog.method("ADWIN", "_check_epsilon")
    for cons in (False, True):
        tr = Evaluator(ctx.prog, ctx.prog.cls("ADWIN"), assume={"conservative_bound": cons}).run(fi)
        ctx._traces[("eps", cons)] = tr
        W, V, s, dl = A("_window_size"), A("_curr_variance"), A("subwindow_size_thresh"), A("delta")
        env = {"n0": P("n_elements0"), "t0": P("total0"), "n1": P("n_elements1"), "t1": P("total1"), "s": s, "W": W,
               "var": T.mk_ite(T.mk_cmp("==", W, const(0)), const(0), V / W)}
        env["m"] = S("1 / (n0 - s + 1) + 1 / (n1 - s + 1)", env)
        if not cons:
            env["dp"] = S("log(2 * log(W) / A_delta)", env)
            eps = S("sqrt(2 * m * var * dp) + (2 / 3) * m * dp", env)
        else:
            env["dp"] = S("log(4 * log(W) / A_delta)", env)
            eps = S("sqrt(m * dp / 2)", env)
        want = T.mk_cmp(">", S("abs(t0 / n0 - t1 / n1)", env), eps)
        got = tr.retval
        ok = got == want
        if not ok and q.is_cmp(got) and q.is_cmp(want):
            ok = q.is_cmp(got)[1] == ">" and _eq_mod_sqrt(q.is_cmp(got)[2], q.is_cmp(want)[2])
        ctx.ob("FRM", "ADWIN._check_epsilon", "epsilon-cut test (conservative_bound=%s)" % cons, ok,
               "computed %s ; documented %s" % (q.short(got, 400), q.short(want, 400)))


def _eq_mod_sqrt(a, b):
    if T.same(a, b):
        return True
    # compare after renaming sqrt(...) atoms whose radicands are algebraically equal
    sa = [x for x in a.atoms() if x[0] == "call" and x[1] == "sqrt"]
    sb = [x for x in b.atoms() if x[0] == "call" and x[1] == "sqrt"]
    if len(sa) != len(sb):
        return False
    m = {}
    for x in sa:
        for y in sb:
            if T.same(x[2][0], y[2][0]):
                m[x] = y
    if len(m) != len(sa):
        return False
    a2 = T.subst(a, lambda z: atom(m[z]) if z in m else None)
    return T.same(a2, b)


def _lv_names(t):
    return [a[2][1:] for a in T.atoms_of(t, "loopvar") if a[2].startswith("$")]


def scan(ctx):
    tr = ctx.trace("ADWIN", "_shrink_window")
    ce = [e for e in q.find_calls(tr, "ADWIN._check_epsilon") if e.func.qualname == "ADWIN._shrink_window"]
    if not ctx.anchor("ADWIN._shrink_window", "the split test _check_epsilon(n0, total0, n1, total1)", len(ce) == 1 and len(ce[0].args) == 4):
        return
    # the four running quantities of the scan are the locals passed to the split test
    names = []
    for a_ in ce[0].args:
        # the running quantity itself: a loop variable that occurs as a plain summand (not inside a subscript)
        ns = sorted({m_[0][0][2][1:] for m_, cf in a_.num if len(m_) == 1 and m_[0][1] == 1 and m_[0][0][0] == "loopvar" and m_[0][0][2].startswith("$") and cf == 1})
        names.append(ns[0] if len(ns) == 1 else None)
    if None in names or len(set(names)) != 4:
        roles = ("size of the older part", "total of the older part", "size of the newer part", "total of the newer part")
        for nm, role in zip(names, roles):
            ctx.ob("PAIR", "ADWIN._shrink_window", "the %s is a running quantity of the scan" % role, nm is not None,
                   "the value passed to the split test is not updated bucket by bucket: what is added to the older part must be taken from the newer part", ce[0])
        return
    N0, T0, N1, T1 = names
    loc = [e for e in tr.of("local") if e.func.qualname == "ADWIN._shrink_window" and e.aug is not None]
    by = {}
    for e in loc:
        by.setdefault(e.name, []).append(e)
    def aug(name):
        return by.get(name, [None])[0]
    n0, n1, t0, t1 = aug(N0), aug(N1), aug(T0), aug(T1)
    ok = n0 is not None and n1 is not None and n0.aug[0] == "Add" and n1.aug[0] == "Add" and T.same(n0.aug[1], -n1.aug[1])
    ctx.ob("PAIR", "ADWIN._shrink_window", "elements added to the older part are taken from the newer part", ok, "")
    ok = t0 is not None and t1 is not None and t0.aug[0] == "Add" and t1.aug[0] == "Add" and T.same(t0.aug[1], -t1.aug[1])
    ctx.ob("PAIR", "ADWIN._shrink_window", "totals added to the older part are taken from the newer part", ok, "")
    pos_name = None
    if n0 is not None:
        inc = n0.aug[1].single_atom()
        ok = inc is not None and inc[0] == "pow" and inc[1] == const(2) and (inc[2].single_atom() or ("",))[0] == "loopvar"
        if ok:
            pos_name = inc[2].single_atom()[2][1:]
        ctx.ob("AGREE", "ADWIN._shrink_window", "scan uses bucket size 2^row", ok, "")
    lp = [e for e in tr.of("local") if e.name == pos_name and e.func.qualname == "ADWIN._shrink_window"]
    size1 = atom(("getattr", A("_bucket_row_list"), "size")) - const(1)
    ok = any(e.aug is None and T.mentions(e.value, lambda a: a[0] == "getattr" and a[2] == "size") and
             T.same(e.value - atom([a for a in T.atoms_of(e.value, "getattr") if a[2] == "size"][0]), const(-1)) for e in lp)
    dec = any(e.aug == ("Add", const(-1)) for e in lp)
    ctx.ob("AGREE", "ADWIN._shrink_window", "scan starts at the tail row (position rows-1) and moves towards the head", ok and dec, "")
    # initial split: everything in the newer part
    init = [e for e in tr.of("local") if e.name in (N1, T1) and e.aug is None and e.func.qualname == "ADWIN._shrink_window"]
    okv = {e.name: e.value for e in init}
    ctx.ob("FRM", "ADWIN._shrink_window", "scan starts with the whole window in the newer part",
           _is_cur(okv.get(N1), "_window_size") and _is_cur(okv.get(T1), "_curr_total"), "")
    init0 = [e for e in tr.of("local") if e.name in (N0, T0) and e.aug is None and e.func.qualname == "ADWIN._shrink_window"]
    ctx.ob("FRM", "ADWIN._shrink_window", "and nothing in the older part", len(init0) >= 2 and all(e.value == const(0) for e in init0), "")
    # after a removal the dropped elements leave the older part
    rm = q.find_calls(tr, "ADWIN._remove_last")
    ctx.ob("ROLE", "ADWIN._shrink_window", "removal inside the scan", len(rm) >= 1, "")


def _is_cur(v, attr):
    if v is None:
        return False
    a = v.single_atom()
    return a == ("attr", attr) or (a is not None and a[0] == "loopvar" and a[2] == attr)


def bounded(ctx):
    """Write index of a bucket row never exceeds the array capacity."""
    prog = ctx.prog
    row = prog.cls("_BucketRow")
    tr = Evaluator(prog, row).run(prog.lookup(row, "__init__"))
    cap = []
    for attr in ("bucket_totals", "bucket_variances"):
        v = tr.final.attrs.get(attr)
        a = v.single_atom() if v is not None else None
        if a is not None and a[0] == "call" and a[1] == "numpy.zeros":
            cap.append(a[2][0])
    ok = len(cap) == 2 and cap[0] == cap[1] and T.same(cap[0], P("max_buckets") + const(1))
    ctx.ob("AGREE", "_BucketRow.__init__", "both arrays have capacity max_buckets + 1", ok, "")
    ta = Evaluator(prog, row).run(prog.lookup(row, "add_bucket"))
    muts = [e for e in ta.mutations() if e.attr in ("bucket_totals", "bucket_variances")]
    ok = len(muts) == 2 and all(e.path == (("item", A("bucket_count")),) for e in muts)
    ctx.ob("IDX", "_BucketRow.add_bucket", "writes at index bucket_count", ok, "")
    ctx.ob("FRM", "_BucketRow.add_bucket", "bucket_count grows by one", ta.final.attrs.get("bucket_count") is not None and T.same(ta.final.attrs["bucket_count"], A("bucket_count") + const(1)), "")
    # compression trigger equals the capacity
    tc = ctx.trace("ADWIN", "_compress_buckets")
    trig = [e for e in tc.of("test") if T.mentions(e.cond, lambda a: a[0] == "getattr" and a[2] == "bucket_count") and q.is_cmp(e.cond) and q.is_cmp(e.cond)[1] in ("==", "!=")]
    ok = len(trig) >= 1 and all(T.same(_rhs_eq(e.cond, "bucket_count"), A("max_buckets") + const(1)) for e in trig)
    ctx.ob("AGREE", "ADWIN._compress_buckets", "a row is compressed exactly when it holds max_buckets + 1 buckets (= capacity)", ok,
           "capacity expression and trigger expression must agree, otherwise add_bucket can write past the arrays")
    brk = [e for e in tc.of("test") if q.is_cmp(e.cond) and T.mentions(e.cond, lambda a: a[0] == "getattr" and a[2] == "bucket_count") and q.is_cmp(e.cond)[1] in (">", ">=")]
    ok = any(q.cmp_equiv(e.cond, T.mk_cmp("<=", _bc(e.cond), A("max_buckets")), lambda a: True) for e in brk)
    ctx.ob("GRD", "ADWIN._compress_buckets", "the cascade continues while the next row is over max_buckets", ok, "")
    # every add_bucket on the head is followed by compression
    tr2 = ctx.trace("ADWIN", "_add_sample")
    hb = mcalls(tr2, "add_bucket", "ADWIN._add_sample")
    cc = q.find_calls(tr2, "ADWIN._compress_buckets")
    ok = len(hb) == 1 and len(cc) == 1 and hb[0].seq < cc[0].seq and cc[0].pc == hb[0].pc
    ctx.ob("MC", "ADWIN._add_sample", "every new bucket is followed by compression on the same path", ok, "")
    # the list of rows passes the same max_buckets on
    lst = prog.cls("_BucketRowList")
    for m in ("append_head", "append_tail"):
        t3 = Evaluator(prog, lst).run(prog.lookup(lst, m))
        news = [e for e in t3.calls() if e.callee == ("new", "_BucketRow")]
        ok = len(news) == 1 and news[0].args and news[0].args[0] == A("max_buckets")
        ctx.ob("FWD", "_BucketRowList." + m, "new rows get the list's max_buckets", ok, "")
    ti = ctx.trace("ADWIN", "__init__")
    news = [e for e in ti.calls() if e.callee == ("new", "_BucketRowList")]
    ctx.ob("FWD", "ADWIN.__init__", "the row list gets the detector's max_buckets", len(news) == 1 and news[0].args[0] == P("max_buckets"), "")


def _bc(cond):
    for a in T.atoms_of(cond, "getattr"):
        if a[2] == "bucket_count":
            return atom(a)
    return const(0)


def _rhs_eq(cond, name):
    c = q.is_cmp(cond)
    d = c[2]
    b = _bc(cond)
    r = d - b
    if T.mentions(r, lambda a: a[0] == "getattr" and a[2] == name):
        r = d + b
        return r
    return -r


def linked_list(ctx):
    """The rows form a doubly linked list from head (newest, 2^0) to tail (oldest);
    the scan walks tail->head through prev_bucket, compression head->tail through
    next_bucket: both directions must stay consistent when rows are added / removed."""
    prog = ctx.prog
    lst = prog.cls("_BucketRowList")
    tr = Evaluator(prog, lst).run(prog.lookup(lst, "remove_tail"))
    fin = tr.final.attrs
    newtail = atom(("getattr", A("tail"), "prev_bucket"))
    st = tr.stores("tail")
    ctx.ob("FRM", "_BucketRowList.remove_tail", "tail moves to the previous row", len(st) == 1 and st[0].value == newtail, "", st[0] if st else None)
    cut = [e for e in tr.mutations("tail") if e.how == "setattr" and e.path == (("attr", "next_bucket"),) and e.value == T.NONE]
    ok = len(cut) == 1 and q.has_guard(cut[0], T.mk_cmp("!=", newtail, T.NONE))
    ctx.ob("PAIR", "_BucketRowList.remove_tail", "the new tail's forward link is cut (no dangling row stays reachable)", ok,
           "after removing the oldest row, tail.next_bucket must be None, otherwise later merges go into a detached row", cut[0] if cut else None)
    hd = [e for e in tr.stores("head") if e.value == T.NONE]
    ctx.ob("PAIR", "_BucketRowList.remove_tail", "an emptied list also clears head", len(hd) == 1 and q.has_guard(hd[0], T.mk_cmp("==", newtail, T.NONE)), "")
    ctx.ob("FRM", "_BucketRowList.remove_tail", "size decreases by one", fin.get("size") is not None and T.same(fin["size"], A("size") - const(1)), "")
    for m in ("append_tail", "append_head"):
        t2 = Evaluator(prog, lst).run(prog.lookup(lst, m))
        ctx.ob("FRM", "_BucketRowList." + m, "size increases by one", t2.final.attrs.get("size") is not None and T.same(t2.final.attrs["size"], A("size") + const(1)), "")
        news = [e for e in t2.calls() if e.callee == ("new", "_BucketRow")]
        kw = dict(news[0].kwargs) if news else {}
        if m == "append_tail":
            ok = kw.get("prev_bucket") == A("tail") and "next_bucket" not in kw
            ctx.ob("PAIR", "_BucketRowList.append_tail", "the new tail is linked behind the old tail", ok, "")
        else:
            ok = kw.get("next_bucket") == A("head") and "prev_bucket" not in kw
            ctx.ob("PAIR", "_BucketRowList.append_head", "the new head is linked before the old head", ok, "")
    row = prog.cls("_BucketRow")
    t3 = Evaluator(prog, row).run(prog.lookup(row, "__init__"))
    lm = [e for e in t3.of("localmut") if e.how == "setattr"]
    ok = any(e.name == "next_bucket" and e.path == (("attr", "prev_bucket"),) and e.value.single_atom() == ("self",) for e in lm) and \
        any(e.name == "prev_bucket" and e.path == (("attr", "next_bucket"),) and e.value.single_atom() == ("self",) for e in lm)
    ctx.ob("PAIR", "_BucketRow.__init__", "a new row links itself into both neighbours", ok, "")
    rb = Evaluator(prog, row).run(prog.lookup(row, "remove_buckets"))
    fin = rb.final.attrs
    ok = fin.get("bucket_count") is not None and T.same(fin["bucket_count"], A("bucket_count") - P("num_buckets"))
    ctx.ob("FRM", "_BucketRow.remove_buckets", "bucket_count decreases by the number removed", ok, "")
    sh = Evaluator(prog, row).run(prog.lookup(row, "shift"))
    root = q.unmut(sh.retval) if sh.retval is not None else None
    muts = [e for e in sh.of("localmut") if isinstance(e.d.get("old"), T.R) and root is not None and q.unmut(e.old) == root]
    # result[:-num] = arr[num:] ; result[-num:] = fill   (num buckets dropped from the front)
    okc = False
    for e in muts:
        if e.how == "setitem" and e.path and T.mentions(e.value, lambda a: a == ("param", "arr")):
            src = e.value.single_atom()
            dst = e.path[0][1].single_atom()
            if src and src[0] == "sub" and dst and dst[0] == "slice":
                sidx = src[2].single_atom()
                okc = sidx is not None and sidx[0] == "slice" and T.same(sidx[1], P("num")) and sidx[2] == T.NONE and dst[1] == T.NONE and T.same(dst[2], -P("num"))
    ctx.ob("FRM", "_BucketRow.shift", "the oldest buckets (front of the arrays) are the ones dropped", okc, "")
