"""C06 - Linear Four Rates."""
import ast
from .. import terms as T
from ..terms import const, atom
from .. import q
from ..q import A, P, S, guards
from ..evalr import Evaluator
from . import c01

NN = ("y_true", "y_pred")
RATES = ("tpr", "tnr", "ppv", "npv")
FRESH_CALLS = {"numpy.array", "numpy.copy", "copy.deepcopy", "copy.copy", "numpy.ones", "numpy.full"}


def run(ctx):
    ctx.explanation = (
        "reader/writer agreement of the confusion matrix layout, the four rates and their denominators, pseudo-counts in __init__ "
        "and reset, the exponentially weighted statistic and its update condition, the Monte-Carlo statistic and percentile levels, "
        "wiring of warning_level / detect_level to the warning / alarm flags, untracked rates, cache-key completeness, cadence")
    ctx.assumptions += ["labels are 0/1 after the 1*y coercion (documented)", "the Monte-Carlo bounds are validated statistically elsewhere; only the statistic and levels are decided"]
    layout(ctx)
    pseudo(ctx)
    statistic(ctx)
    montecarlo(ctx)
    wiring(ctx)
    cache(ctx)
    c01.clause_recs_for(ctx, ["LinearFourRates"])
    c01.lfr_cadence(ctx)
    steps(ctx)
    decision(ctx)
    cache_complete(ctx)
    lifecycle(ctx)


def _static(ctx, name, **kw):
    fi = ctx.prog.method("LinearFourRates", name)
    return Evaluator(ctx.prog, ctx.prog.cls("LinearFourRates"), **kw).run(fi)


def layout(ctx):
    tr = ctx.trace("LinearFourRates", "update", assume={"_drift_state": None}, nonnull=NN)
    mu = [e for e in tr.mutations("_confusion")]
    ctx.ob("ROLE", "LinearFourRates.update", "one increment of the confusion matrix per sample", len(mu) == 1 and mu[0].aug == ("Add", const(1)), "")
    ctx.require(mu, "confusion matrix increment")
    path = [p[1] for p in mu[0].path if p[0] == "item"]
    if len(path) == 1 and (path[0].single_atom() or ("",))[0] == "tuple" and len(path[0].single_atom()[1]) == 2:
        path = list(path[0].single_atom()[1])  # confusion[a, b]
    ctx.require(len(path) == 2, "confusion[a][b] += 1")
    # a boolean label used as an index selects by mask, not by position: the labels must be coerced to integers first
    coerced = {T.akey(e.value) for e in tr.of("coerce")} | {T.akey(e.result) for e in tr.calls() if e.callee == ("lib", "int")}
    ctx.ob("IDX", "LinearFourRates.update", "the labels index the matrix as integers (coerced with 1 * y / int(y)), whatever their dtype", all(T.akey(i) in coerced for i in path),
           "with boolean labels an uncoerced index is a mask: (True, True) touches every cell, anything else none", mu[0])
    def who(t):
        yp = T.mentions(t, lambda a: a == ("param", "y_pred"))
        yt = T.mentions(t, lambda a: a == ("param", "y_true"))
        return "pred" if yp and not yt else ("true" if yt and not yp else "?")
    order = (who(path[0]), who(path[1]))
    ctx.ob("AGREE", "LinearFourRates.update", "confusion matrix is indexed by one label each", set(order) == {"pred", "true"}, str(order), mu[0])
    # flat index of cell (pred, true) under ravel()
    def flat(pred, true):
        i, j = (pred, true) if order == ("pred", "true") else (true, pred)
        return 2 * i + j
    for fn, keys in (("_get_four_rates", RATES), ("_get_four_denominators", tuple(r + "_N" for r in RATES))):
        ts = _static(ctx, fn)
        rv = atom(("mcall", P("confusion"), "ravel", (), ()))
        cell = {"tp": q.sub(rv, flat(1, 1)), "tn": q.sub(rv, flat(0, 0)), "fp": q.sub(rv, flat(1, 0)), "fn": q.sub(rv, flat(0, 1))}
        spec = {"tpr": ("tp", "tp + fn"), "tnr": ("tn", "tn + fp"), "ppv": ("tp", "fp + tp"), "npv": ("tn", "tn + fn")}
        for k in keys:
            got = q.sub(ts.retval, const(k))
            r = k[:3]
            num, den = S(spec[r][0], cell), S(spec[r][1], cell)
            want = num / den if fn == "_get_four_rates" else den
            ctx.ob("AGREE" if fn == "_get_four_rates" else "AGREE-denom", "LinearFourRates." + fn,
                   "%s read from the cells the writer increments ([%s][%s] layout)" % (k, order[0], order[1]), T.same(got, want),
                   "computed %s ; with the writer's layout it must be %s" % (q.short(got, 120), q.short(want, 120)))


def _ones22(prog, mi, t, depth=0):
    """Is the term a fresh 2x2 array of ones?"""
    a = t.single_atom()
    if a is None:
        return False
    if a[0] == "call" and a[1] == "numpy.ones" and a[2]:
        # np.ones((2, 2)) / np.ones((2, 2), dtype=int): a fresh array of ones of that shape
        sh = a[2][0].single_atom()
        return sh is not None and sh[0] in ("tuple", "list") and tuple(sh[1]) == (const(2), const(2))
    if a[0] == "call" and a[1] in FRESH_CALLS and a[2]:
        return _ones_literal(prog, mi, a[2][0])
    if a[0] == "mcall" and a[2] == "copy":
        return _ones_literal(prog, mi, a[1])
    return False


def _ones_literal(prog, mi, t):
    a = t.single_atom()
    if a is None:
        return False
    if a[0] in ("list", "tuple"):
        return len(a[1]) == 2 and all((x.single_atom() or ("",))[0] in ("list", "tuple") and x.single_atom()[1] == (const(1), const(1)) for x in a[1])
    if a[0] == "global":
        # module level constant: resolve its defining expression
        mod, _, name = a[1].rpartition(".")
        m = prog.modules.get(mod)
        if m is None:
            return False
        for st in m.tree.body:
            if isinstance(st, ast.Assign) and any(isinstance(x, ast.Name) and x.id == name for x in st.targets):
                ev = Evaluator(prog, None)
                ev.silent = 1
                from ..evalr import Frame, State
                from ..loader import FuncInfo
                dummy = ast.parse("def f():\n    pass").body[0]
                ev.frames.append(Frame(FuncInfo(dummy, m), None, False, None, 0))
                v = ev.ev(st.value, State({}, {}))
                va = v.single_atom()
                if va is not None and va[0] == "call" and va[1] in FRESH_CALLS | {"numpy.asarray"}:
                    return _ones_literal(prog, m, va[2][0])
                return _ones_literal(prog, m, v)
    if a[0] == "call" and a[1] in ("numpy.ones",):
        return True
    return False


def pseudo(ctx):
    mi = ctx.prog.cls("LinearFourRates").module
    for m in ("__init__", "reset"):
        tr = ctx.trace("LinearFourRates", m)
        v = tr.final.attrs.get("_confusion")
        ok = v is not None and _ones22(ctx.prog, mi, v)
        ctx.ob("AGREE", "LinearFourRates." + m, "confusion matrix starts as a fresh 2x2 array of ones (one pseudo-count per cell)", ok,
               "found %s; it must be a new array each time (the matrix is incremented in place)" % (q.short(v, 80) if v is not None else None))
        p = tr.final.attrs.get("_p_table")
        d = tr.final.attrs.get("_denominators")
        okp = p is not None and all(q.sub(q.sub(p, 0), const(r)) == const(0.5) for r in RATES)
        okd = d is not None and all(q.sub(q.sub(d, 0), const(r + "_N")) == const(2) for r in RATES)
        ctx.ob("AGREE", "LinearFourRates." + m, "initial rates 0.5 and denominators 2 (consistent with the pseudo-counts)", okp and okd, "")


def statistic(ctx):
    tr = ctx.trace("LinearFourRates", "update", assume={"_drift_state": None, "parallelize": False}, nonnull=NN)
    ssr = A("_samples_since_reset") + const(1)
    mu = [e for e in tr.mutations("_r_stat") if e.how == "setitem" and len(e.path) == 2]   # _r_stat[step][rate] = ...
    ctx.anchor("LinearFourRates.update", "statistic stored per rate", len(mu) == 1, "found %d" % len(mu))
    if not mu:
        return
    e = mu[0]
    idx = [p[1] for p in e.path]
    ctx.ob("IDX", "LinearFourRates.update", "statistic stored at the current step", len(idx) == 2 and T.same(idx[0], ssr), "", e)
    a = e.value.single_atom()
    ok = a is not None and a[0] == "ite"
    ctx.ob("FRM", "LinearFourRates.update", "statistic is updated only when the rate changed", ok, q.short(e.value, 160), e)
    if not ok:
        return
    c, tv, fv = a[1], a[2], a[3]
    if q.is_cmp(c) is not None and q.is_cmp(c)[1] == "==":
        c, tv, fv = T.mk_not(c), fv, tv  # gated phis are kept with a canonical polarity of the condition
    cc = q.is_cmp(c)
    okc = cc is not None and cc[1] == "!=" and len(cc[2].atoms()) == 2 and all(x[0] == "sub" for x in cc[2].atoms())
    if okc:
        # new_rates[rate] - old_rates[rate]: one side derives from the incremented matrix, the other not
        sides = list(cc[2].atoms())
        inc = [T.mentions(atom(s_), lambda z: z[0] == "mutated") for s_ in sides]
        okc = inc.count(True) == 1
    ctx.ob("FRM", "LinearFourRates.update", "update condition is new_rate != old_rate (exact comparison)", okc, q.short(c, 200), e)
    eta = A("time_decay_factor")
    ind = [x for x in T.atoms_of(tv, "cmp") if x[1] == "==" and T.mentions(atom(x), lambda z: z == ("param", "y_true")) and T.mentions(atom(x), lambda z: z == ("param", "y_pred"))]
    okf = False
    msg = q.short(tv, 200)
    if len(set(ind)) == 1:
        i = atom(ind[0])
        rest = (tv - (const(1) - eta) * i) / eta
        ra = rest.single_atom()
        okf = ra is not None and ra[0] == "sub" and c01._rooted(q.sub(A("_r_stat"), 0) if False else _strip_sub(rest), "_r_stat")
    ctx.ob("FRM", "LinearFourRates.update", "R <- eta*R + (1-eta)*[y_true == y_pred]", okf, msg, e)
    fa = fv.single_atom()
    okp = fa is not None and fa[0] == "sub" and c01._rooted(_strip_sub(fv), "_r_stat")
    if okp:
        inner = fa[1].single_atom()
        ssr0 = A("_samples_since_reset")
        okp = inner is not None and inner[0] == "sub" and (T.same(inner[2], ssr0) or T.same(inner[2], ssr0 + const(1))) and fa[2] == idx[1]
    ctx.ob("FRM", "LinearFourRates.update", "otherwise the previous value is kept", okp, q.short(fv, 120), e)


def _strip_sub(t):
    a = t.single_atom()
    while a is not None and a[0] in ("sub",):
        t = a[1]
        a = t.single_atom()
    if a is not None and a[0] == "mcall" and a[2] == "copy":
        return _strip_sub(a[1])
    return t


def montecarlo(ctx):
    tr = _static(ctx, "_sim_bounds")
    eta, N = A("time_decay_factor"), P("denom")
    # the weights are what is repeated into the simulation matrix: prods = [eta ** exps[i] ...], exps = [N - i for i in 1..N]
    rp = [e for e in tr.calls() if e.callee == ("lib", "numpy.repeat") and e.func.name == "_sim_bounds"]
    if not ctx.anchor("LinearFourRates._sim_bounds", "weight vector repeated into the simulation matrix (np.repeat)", len(rp) == 1 and rp[0].args):
        return
    pr = rp[0].args[0]
    ce = q.comp_elem(pr)
    want = atom(("pow", eta, N - const(1) - q.POS))
    ctx.ob("FRM", "LinearFourRates._sim_bounds", "weights are eta ** (N - i)", ce is not None and (ce[0] == want or T.same(ce[0], want)),
           q.short(ce[0] if ce else pr, 120))
    ctx.ob("FRM", "LinearFourRates._sim_bounds", "weights have exponents N - i for i = 1..N", ce is not None and T.same(ce[1], N),
           "position j of the weight vector holds %s, its length is %s" % ((q.short(ce[0], 80), q.short(ce[1], 40)) if ce else ("?", "?")))
    # get_Rj
    fi = ctx.prog.method("LinearFourRates", "_sim_bounds").nested.get("get_Rj")
    ctx.require(fi is not None, "_sim_bounds.get_Rj")
    tg = Evaluator(ctx.prog, ctx.prog.cls("LinearFourRates")).run(fi, has_self=False)
    bn = [e for e in tg.calls() if e.callee == ("lib", "numpy.random.binomial")]
    ok = len(bn) == 1 and dict(bn[0].kwargs).get("n") == const(1) and dict(bn[0].kwargs).get("p") == P("est_rate") and dict(bn[0].kwargs).get("size") == P("denom")
    ctx.ob("FRM", "LinearFourRates._sim_bounds.get_Rj", "B_i ~ Bernoulli(p_hat), N draws", ok, "")
    want = (const(1) - P("eta")) * atom(("call", "sum", (P("vec") * bn[0].result,), ())) if bn else None
    ctx.ob("FRM", "LinearFourRates._sim_bounds.get_Rj", "statistic (1 - eta) * sum(eta^(N-i) * B_i)", bn and T.same(tg.retval, want), q.short(tg.retval, 120))
    ap = [e for e in tr.calls() if e.callee[0] == "mcall" and e.callee[1] == "apply"]
    okw = len(ap) == 1 and dict(ap[0].kwargs).get("args") is not None and dict(ap[0].kwargs)["args"] == atom(("tuple", (eta, P("est_rate"), N)))
    if len(ap) == 1 and dict(ap[0].kwargs).get("args") is None and [a.arg for a in fi.node.args.args] == ["vec"]:
        # get_Rj(vec) as a closure over the enclosing function's eta / est_rate / denom
        rec = Evaluator._closure_envs.get(fi.qualname)
        locs = rec[1] if rec else {}
        okw = rec is not None and all(locs.get(n, P(n)) == w for n, w in (("eta", eta), ("est_rate", P("est_rate")), ("denom", N)))
    ctx.ob("FWD", "LinearFourRates._sim_bounds", "the simulation receives (eta, est_rate, denom)", okw, "")
    ctx.ob("FWD", "LinearFourRates._sim_bounds", "one statistic per simulated column (axis=0)", len(ap) == 1 and dict(ap[0].kwargs).get("axis", const(0)) == const(0), "")
    # percentile levels
    ret = tr.retval
    lv = {"lb_warn": A("warning_level") * const(100), "ub_warn": const(100) - A("warning_level") * const(100),
          "lb_detect": A("detect_level") * const(100), "ub_detect": const(100) - A("detect_level") * const(100)}
    for k, want in lv.items():
        v = q.sub(ret, const(k)).single_atom()
        ok = v is not None and v[0] == "call" and v[1] == "numpy.percentile" and T.same(dict(v[3]).get("q", v[2][1] if len(v[2]) > 1 else const(-1)), want)
        ctx.ob("FRM", "LinearFourRates._sim_bounds", "%s is the %s percentile" % (k, q.short(want, 40)), ok, "")


def wiring(ctx):
    tr = ctx.trace("LinearFourRates", "update", assume={"_drift_state": None, "parallelize": False}, nonnull=NN)
    rs = [e for e in tr.mutations("_r_stat") if e.how == "setitem" and len(e.path) == 2]   # _r_stat[step][rate] = ..., wherever the per-rate step lives
    ctx.require(rs, "statistic store")
    stat = rs[0].value
    for attr, lo, hi in (("_warning_states", "lb_warn", "ub_warn"), ("_alarm_states", "lb_detect", "ub_detect")):
        mu = [e for e in tr.mutations(attr) if e.how == "setitem" and len(e.path) == 2]   # flags[step][rate] = ... (not the creation of the step's entry)
        ctx.ob("ROLE", "LinearFourRates.update", "flag store into %s" % attr, len(mu) == 1, "")
        for e in mu:
            ds = q.disjuncts(e.value)
            okv = len(ds) == 2
            keys = set()
            for d in ds:
                c = q.is_cmp(d)
                if c is None or c[1] != ">":
                    okv = False
                    continue
                # stat - bound  or  bound - stat
                for sgn, nm in ((1, "upper"), (-1, "lower")):
                    rest = (c[2] - stat) if sgn == 1 else (c[2] + stat)
                    bound = -rest if sgn == 1 else rest
                    if T.mentions(bound, lambda z: z == stat.single_atom()):
                        continue
                    ks = {_bound_key(l) for _cc, l in q.ite_leaves(bound)}
                    if len(ks) == 1 and None not in ks:
                        keys.add((nm, ks.pop()))
            ok = okv and keys == {("lower", lo), ("upper", hi)}
            ctx.ob("TNT-wiring", "LinearFourRates.update", "%s = statistic outside [%s, %s]" % (attr, lo, hi), ok, "found %s" % sorted(keys), e)
            # only tracked rates
            it = e.path[1][1].single_atom() if len(e.path) == 2 else None
            okr = it is not None and ((it[0] == "iter" and it[1] == A("rates_tracked")) or it[0] == "param")
            ctx.ob("TNT-untracked", "LinearFourRates.update", "%s written only for rates in rates_tracked" % attr, okr, "", e)
    # the loop runs over rates_tracked in both modes
    for par in (False, True):
        t2 = ctx.trace("LinearFourRates", "update", assume={"_drift_state": None, "parallelize": par}, nonnull=NN)
        cs = _per_rate_calls(t2)
        ok = len(cs) == 1
        ctx.ob("TNT-untracked", "LinearFourRates.update", "rates processed are exactly rates_tracked (parallelize=%s)" % par, ok, "")


def _per_rate_calls(tr):
    """calls from update of the per-rate step (a closure, a method or a function of the repository) with the rate of this
    iteration over rates_tracked among its arguments"""
    def is_rate(t):
        a = t.single_atom()
        return a is not None and a[0] == "iter" and a[1] == A("rates_tracked")
    return [e for e in tr.calls() if e.d.get("fi") is not None and e.callee[0] in ("closure", "self", "static", "function", "explicit")
            and len(e.stack) == 1 and any(is_rate(x) for x in list(e.args) + [v for _k, v in (e.d.get("kwargs") or ())])]


LEVELS = {"lb_warn": ("warning_level", False), "ub_warn": ("warning_level", True), "lb_detect": ("detect_level", False), "ub_detect": ("detect_level", True)}


def _bound_key(leaf):
    """Which bound does this term denote: a dictionary entry keyed by name, or the percentile that defines it."""
    a = leaf.single_atom()
    if a is None:
        return None
    if a[0] == "sub" and T.is_pure_const(a[2]):
        return T.const_py(a[2])
    if a[0] == "call" and a[1] == "numpy.percentile":
        qv = dict(a[3]).get("q", a[2][1] if len(a[2]) > 1 else None)
        for k, (lvl, upper) in LEVELS.items():
            want = (const(100) - A(lvl) * const(100)) if upper else A(lvl) * const(100)
            if qv is not None and T.same(qv, want):
                # warning and detect levels give the same expression only if the attributes coincide
                return k
    return None


def cache(ctx):
    tr = ctx.trace("LinearFourRates", "update", assume={"_drift_state": None, "parallelize": False}, nonnull=NN)
    cs = q.find_calls(tr, "LinearFourRates._update_bounds_dict")
    ctx.anchor("LinearFourRates.update", "bounds looked up through the cache", len(cs) == 1, "")
    if cs:
        a = cs[0].args
        rv = A("round_val")
        ok = len(a) == 4 and a[2] == atom(("call", "round", (a[0], rv), ())) and a[3] == atom(("call", "round", (a[1], rv), ()))
        ctx.ob("AGREE-cache", "LinearFourRates.update", "cache keys are roundings of exactly the simulated (rate, denominator)", ok,
               "args %s" % ", ".join(q.short(x, 60) for x in a), cs[0])
    ts = _static(ctx, "_update_bounds_dict")
    sims = q.find_calls(ts, "LinearFourRates._sim_bounds")
    ok = len(sims) >= 1 and all(tuple(e.args) == (P("est_rate"), P("curr_denom")) for e in sims)
    ctx.ob("AGREE-cache", "LinearFourRates._update_bounds_dict", "a miss simulates for the un-rounded (rate, denominator)", ok, "", firm=True)  # decided from the call's arguments alone
    # hit path returns the entry under both keys; every simulated result is stored under both keys
    leaves = [l for _c, l in q.ite_leaves(ts.retval)]
    hit = [l for l in leaves if (l.single_atom() or ("",))[0] == "sub"]
    okh = bool(hit) and all(_two_keys(l) for l in hit)
    ctx.ob("AGREE-cache", "LinearFourRates._update_bounds_dict", "a hit is keyed by both the rounded rate and the rounded denominator", okh,
           "a key that drops one of them would hand out bounds simulated for another denominator")
    stores = [e for e in ts.of("mutate", "localmut") if e.how == "setitem"]
    keyed = [e for e in stores if any(p[1] == P("r_curr_denom") for p in e.path)] + [e for e in ts.of("local") if e.name == "denom_dict" and T.mentions(e.value, lambda a: a == ("param", "r_curr_denom"))]
    keyed_r = [e for e in ts.mutations("_bounds") if any(p[1] == P("r_est_rate") for p in e.path)]
    ctx.ob("AGREE-cache", "LinearFourRates._update_bounds_dict", "simulated bounds are stored under both keys", bool(keyed) and bool(keyed_r), "")


def _two_keys(l):
    a = l.single_atom()
    if a is None or a[0] != "sub" or a[2] != P("r_curr_denom"):
        return False
    b = a[1].single_atom()
    return b is not None and b[0] == "sub" and b[2] == P("r_est_rate") and b[1] == A("_bounds")


# ---------------------------------------------------------------------------
# per-step tables, decision chain, cache completeness, lifecycle

U = "LinearFourRates.update"


def _upd(ctx):
    return ctx.trace("LinearFourRates", "update", assume={"_drift_state": None, "parallelize": False}, nonnull=NN)


def _dict_items(t):
    """items of a dict display term, seeing through the one-element argument tuple of dict.update(...)"""
    a = t.single_atom() if t is not None else None
    if a is not None and a[0] == "tuple" and len(a[1]) == 1:
        a = a[1][0].single_atom()
    if a is not None and a[0] == "dict":
        return list(a[1])
    return None


def _all_false(t):
    it = _dict_items(t)
    return it is not None and {T.const_py(k) if T.is_pure_const(k) else None for k, _v in it} == set(RATES) and all(v == T.FALSE for _k, v in it)


def steps(ctx):
    tr = _upd(ctx)
    ssr0 = A("_samples_since_reset")
    ssr = ssr0 + const(1)
    lp = [e for e in tr.of("loop") if q.stack_has(e, U)]
    first_call = _per_rate_calls(tr)
    first_rate_store = [e for a_ in ("_r_stat", "_p_table") for e in tr.mutations(a_) if e.how == "setitem" and len(e.path) == 2]
    barrier = min([e.seq for e in lp + first_call + first_rate_store] or [10 ** 9])
    for attr, kind in (("_r_stat", "copy"), ("_p_table", "copy"), ("_warning_states", "false"), ("_alarm_states", "false")):
        # the entry of the step is created with table.update({step: entry}) or table[step] = entry
        mu = [e for e in tr.mutations(attr) if q.stack_has(e, U) and (e.how == "method:update" or (e.how == "setitem" and len(e.path) == 1))]
        ok = len(mu) == 1
        why = "found %d creations of the step's entry" % len(mu)
        if ok:
            it = _dict_items(mu[0].value) if mu[0].how == "method:update" else [(mu[0].path[0][1], mu[0].value)]
            ok = it is not None and len(it) == 1 and T.same(it[0][0], ssr)
            why = "key %s" % (q.short(it[0][0], 60) if it else None)
            if ok and kind == "copy":
                want = atom(("mcall", q.sub(A(attr), ssr0), "copy", (), ()))
                ok = it[0][1] == want
                why = "entry %s ; documented: a copy of the previous step's entry %s" % (q.short(it[0][1], 80), q.short(want, 80))
            elif ok:
                ok = _all_false(it[0][1])
                why = "entry %s" % q.short(it[0][1], 100)
            ok = ok and mu[0].seq < barrier
        ctx.ob("IDX-step", U, "%s gets its entry for the current step before the rates are processed (%s)" % (attr, "copy of the previous step" if kind == "copy" else "all flags False"), ok, why, mu[0] if mu else None)
    # rate table and denominators written by the per-rate step
    rets = [x.d.get("value") for x in tr.events if x.kind == "exit" and x.d.get("fi") is not None and x.fi.name == "_get_four_rates"]
    pm = [e for e in tr.mutations("_p_table") if e.how == "setitem" and len(e.path) == 2]
    ctx.ob("ROLE", U, "the rate table is updated per rate", len(pm) == 1 and len(rets) == 2, "")
    rate = None
    if len(pm) == 1 and len(rets) == 2:
        e = pm[0]
        ok = len(e.path) == 2 and T.same(e.path[0][1], ssr)
        rate = e.path[1][1] if len(e.path) == 2 else None
        ctx.ob("IDX-step", U, "the rate is stored at the current step", ok, "", e)
        ctx.ob("FRM", U, "the stored rate is the rate of the incremented matrix for the same key", rate is not None and e.value == q.sub(rets[1], rate),
               q.short(e.value, 100), e)
    dm = [e for e in tr.mutations("_denominators") if e.how == "setitem"]
    R4 = "LinearFourRates._get_four_rates"  # the rates may themselves be computed from the denominators: those inner calls are not the per-rate refresh
    dret = [x.d.get("value") for x in tr.events if x.kind == "exit" and x.d.get("fi") is not None and x.fi.name == "_get_four_denominators" and not q.stack_has(x, R4)]
    ctx.ob("ROLE", U, "the denominator is refreshed per rate", len(dm) == 1 and len(dret) >= 1, "")
    cs = q.find_calls(tr, "LinearFourRates._update_bounds_dict")
    if len(dm) == 1 and dret and rate is not None:
        e = dm[0]
        key = e.path[0][1] if len(e.path) == 1 else None
        okk = key is not None and T.same(key - rate, const("_N")) if key is not None else False
        ctx.ob("AGREE-denom", U, "the denominator is stored under <rate>_N", okk, q.short(key, 60) if key is not None else "", e)
        ctx.ob("AGREE-denom", U, "and is the denominator of the same rate in the incremented matrix", key is not None and e.value == q.sub(dret[0], key), q.short(e.value, 100), e)
        dc = [x for x in tr.calls() if x.callee == ("static", "LinearFourRates._get_four_denominators") and not q.stack_has(x, R4)]
        ctx.ob("FWD", U, "denominators are computed from the incremented matrix", bool(dc) and all(T.mentions(x.args[0], lambda z: z[0] == "mutated") for x in dc), "")
        if len(cs) == 1 and len(cs[0].args) == 4:
            a = cs[0].args
            ctx.ob("FWD", U, "the bounds are requested for this rate's current estimate", a[0] == q.sub(rets[1], rate), q.short(a[0], 100), cs[0])
            ctx.ob("FWD", U, "and this rate's current denominator", a[1] == e.value, q.short(a[1], 100), cs[0])
    # the two rate snapshots bracket the increment
    mu = [e for e in tr.mutations("_confusion")]
    fr = [x for x in tr.calls() if x.callee == ("static", "LinearFourRates._get_four_rates")]
    if mu and len(fr) == 2:
        ctx.ob("ORD", U, "rates are taken once before and once after the increment", fr[0].seq < mu[0].seq < fr[1].seq and fr[0].args[0] == A("_confusion"), "", mu[0])
        from . import c16
        ext, _v = c16.extracted_labels(ctx, tr, U)
        path = [p[1] for p in mu[0].path if p[0] == "item"]
        if len(path) == 1 and (path[0].single_atom() or ("",))[0] == "tuple" and len(path[0].single_atom()[1]) == 2:
            path = list(path[0].single_atom()[1])  # confusion[a, b]
        ok = len(path) == 2 and {q.short(p, 200) for p in path} == {q.short(ext["y_true"], 200), q.short(ext["y_pred"], 200)}
        ctx.ob("FWD-label", U, "the cell incremented is indexed by the validated label and prediction themselves (element 0 of each)", ok,
               "indices %s" % ", ".join(q.short(p, 60) for p in path), mu[0])


def decision(ctx):
    tr = _upd(ctx)
    ssr = A("_samples_since_reset") + const(1)
    def anyof(attr):
        out = []
        for base in (A(attr), atom(("loopvar", "LinearFourRates.update#L1", attr))):
            out.append(atom(("call", "any", (atom(("mcall", q.sub(base, ssr), "values", (), ())),), ())))
        return out
    def has(e, cands, neg=False):
        return any(q.has_guard(e, T.mk_not(c) if neg else c) for c in cands)
    al, wa = anyof("_alarm_states"), anyof("_warning_states")
    st = [e for e in tr.stores("_drift_state") if q.stack_has(e, U)]
    by = {}
    for e in st:
        by.setdefault(q.short(e.value, 20), []).append(e)
    for val, conds, what in (("'drift'", ((al, False),), "drift exactly when some tracked rate's alarm flag of this step is set"),
                             ("'warning'", ((al, True), (wa, False)), "warning exactly when no alarm flag but some warning flag of this step is set"),
                             ("None", ((al, True), (wa, True)), "None exactly when no flag of this step is set")):
        evs = by.get(val, [])
        ctx.ob("ROLE", U, "store of %s exists" % val, len(evs) == 1, "found %d" % len(evs))
        for e in evs:
            se = c01._site_pc_ev(tr, e)
            ok = all(has(se, c, neg) for c, neg in conds) and len(guards(se)) == len(conds)
            ctx.ob("GRD-chain", U, what, ok, "guards: %s" % "; ".join(q.short(g, 90) for g in guards(se)), se)
            # the public log gets the same value on the same path: decided on the final state (log' = log + [state'] in every case),
            # however the three cases are written (one append per branch, or one append of the value computed first)
            from .common import joint_leaves
            fa = tr.final.attrs.get("all_drift_states") if tr.final is not None else None
            fd = tr.final.attrs.get("_drift_state") if tr.final is not None else None
            okl = fa is not None and fd is not None
            seen_val = False
            if okl:
                for _cs, (la_, ld_) in joint_leaves([fa, fd]):
                    if q.short(ld_, 20) != val:
                        continue
                    seen_val = True
                    okl = okl and la_ == atom(("appended", A("all_drift_states"), ld_))
            ctx.ob("PAIR", U, "all_drift_states records the state stored (%s)" % val, okl and seen_val, q.short(fa, 120) if fa is not None else "", se)


def cache_complete(ctx):
    ts = _static(ctx, "_update_bounds_dict")
    sims = q.find_calls(ts, "LinearFourRates._sim_bounds")
    # every leaf of the result is a cache entry under both keys or the value of a simulation on that path
    bad = []
    for conds, l in q.ite_leaves(ts.retval):
        a = l.single_atom()
        if a is not None and a[0] == "undef":
            bad.append("unassigned on the path %s" % "; ".join(q.short(c, 40) for c in conds))
        elif not (_two_keys(l) or T.mentions(l, lambda z: z[0] in ("mcall", "call", "dict") or z == ("param", "est_rate"))):
            bad.append(q.short(l, 60))
    # the table is looked up with `in` tests and filled at two simulation sites (rate missing / denominator missing); any other
    # organisation of the cache (dict.get with a sentinel, one shared simulation site) is not followed
    ctx.anchor("LinearFourRates._update_bounds_dict", "two simulation sites behind membership tests", len(sims) == 2, "found %d simulation call(s)" % len(sims))
    ctx.ob("AGREE-cache", "LinearFourRates._update_bounds_dict", "every path returns a cached entry or a fresh simulation", not bad and len(sims) == 2, "; ".join(bad[:2]))
    in_rate = atom(("in", P("r_est_rate"), A("_bounds")))
    in_den = atom(("in", P("r_curr_denom"), q.sub(A("_bounds"), P("r_est_rate"))))
    for conds, l in q.ite_leaves(ts.retval):
        if _two_keys(l):
            ctx.ob("GRD", "LinearFourRates._update_bounds_dict", "a cached entry is read only when both keys are present", in_rate in conds and in_den in conds,
                   "conditions: %s" % "; ".join(q.short(c_, 60) for c_ in conds))
    for e in sims:
        gs = guards(e)
        ok = (T.mk_not(in_rate) in gs) or (in_rate in gs and T.mk_not(in_den) in gs)
        ctx.ob("GRD", "LinearFourRates._update_bounds_dict", "a simulation is run exactly when a key is missing", ok, "guards: %s" % "; ".join(q.short(g, 60) for g in gs), e)
    # each miss path stores what it simulated under the rounded denominator, and the per-rate dictionary under the rounded rate
    for e in sims:
        after = [x for x in ts.events[e.seq:] if x.kind in ("mutate", "localmut", "local") and len(x.pc) >= len(e.pc) and x.pc[: len(e.pc)] == e.pc]
        k_denom = any((x.kind in ("localmut", "mutate") and any(p[1] == P("r_curr_denom") for p in x.path)) or
                      (x.kind in ("local", "mutate") and isinstance(x.d.get("value"), T.R) and _dict_items(x.value) and any(k == P("r_curr_denom") for k, _v in _dict_items(x.value))) for x in after)
        k_rate = any(x.kind == "mutate" and x.attr == "_bounds" and any(p[1] == P("r_est_rate") for p in x.path) for x in after) or \
            any(x.kind == "localmut" and any(p[1] == P("r_curr_denom") for p in x.path) and _from_bounds(x.old) for x in after if isinstance(x.d.get("old"), T.R))
        ctx.ob("AGREE-cache", "LinearFourRates._update_bounds_dict", "a simulated result is stored under the rounded denominator on its path", k_denom, "", e)
        ctx.ob("AGREE-cache", "LinearFourRates._update_bounds_dict", "and reachable from the cache under the rounded rate", k_rate, "", e)
    # membership tests use the same keys as the lookups
    tests = [e for e in ts.of("test")]
    keys = []
    for e in tests:
        for a in T.walk(e.cond):
            if a[0] in ("in", "notin"):
                keys.append(a[1])
    ctx.ob("AGREE-cache", "LinearFourRates._update_bounds_dict", "cache membership is tested with the rounded rate, then the rounded denominator",
           keys[:2] == [P("r_est_rate"), P("r_curr_denom")], "tested keys: %s" % ", ".join(q.short(k, 30) for k in keys))


def _from_bounds(t):
    """t denotes (an entry of) the cache attribute itself, so that mutating it in place changes the cache"""
    a = t.single_atom()
    while a is not None:
        if a == ("attr", "_bounds"):
            return True
        if a[0] in ("sub", "setitem", "mutated"):
            a = a[1].single_atom()
            continue
        return False
    return False


def lifecycle(ctx):
    from . import common
    common.lifecycle(ctx, ["LinearFourRates"], recs=["LinearFourRates"], clean_slate=False)
    f4 = atom(("dict", tuple((const(r), T.FALSE) for r in RATES)))
    for m in ("__init__", "reset"):
        tr = ctx.trace("LinearFourRates", m)
        at = tr.final.attrs if tr.final is not None else {}
        for attr in ("_warning_states", "_alarm_states"):
            v = at.get(attr)
            it = _dict_items(v) if v is not None else None
            ok = it is not None and len(it) == 1 and it[0][0] == const(0) and _all_false(it[0][1])
            ctx.ob("FRM-init", "LinearFourRates." + m, "%s starts as {0: all False}" % attr, ok, q.short(v, 100) if v is not None else "unset")
        r, p = at.get("_r_stat"), at.get("_p_table")
        ok = r is not None and p is not None and r == atom(("mcall", p, "copy", (), ()))
        ctx.ob("FRM-init", "LinearFourRates." + m, "the statistic table starts as a copy of the rate table (0.5 everywhere)", ok, q.short(r, 100) if r is not None else "unset")
    ti = ctx.trace("LinearFourRates", "__init__")
    at = ti.final.attrs if ti.final is not None else {}
    ctx.ob("FRM-init", "LinearFourRates.__init__", "the bounds cache starts empty", at.get("_bounds") in (atom(("call", "dict", (), ())), atom(("dict", ()))), q.short(at.get("_bounds"), 60) if at.get("_bounds") is not None else "unset")
    ctx.ob("FRM-init", "LinearFourRates.__init__", "the state log starts empty", at.get("all_drift_states") == atom(("list", ())), "")
