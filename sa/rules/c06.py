"""C06 - Linear Four Rates."""
import ast
from .. import terms as T
from ..terms import const, atom
from .. import q
from ..q import A, P, S, guards
from ..evalr import Evaluator
from . import c01

NN = ("y_true", "y_pred")
RATES = ("tpr", "tnr", "ppv", "npv")
FRESH_CALLS = {"numpy.array", "numpy.copy", "copy.deepcopy", "copy.copy", "numpy.ones", "numpy.full"}


def run(ctx):
    ctx.explanation = (
        "reader/writer agreement of the confusion matrix layout, the four rates and their denominators, pseudo-counts in __init__ "
        "and reset, the exponentially weighted statistic and its update condition, the Monte-Carlo statistic and percentile levels, "
        "wiring of warning_level / detect_level to the warning / alarm flags, untracked rates, cache-key completeness, cadence")
    ctx.assumptions += ["labels are 0/1 after the 1*y coercion (documented)", "the Monte-Carlo bounds are validated statistically elsewhere; only the statistic and levels are decided"]
    layout(ctx)
    pseudo(ctx)
    statistic(ctx)
    montecarlo(ctx)
    wiring(ctx)
    cache(ctx)
    c01.clause_recs_for(ctx, ["LinearFourRates"])
    c01.lfr_cadence(ctx)


def _static(ctx, name, **kw):
    fi = ctx.prog.method("LinearFourRates", name)
    return Evaluator(ctx.prog, ctx.prog.cls("LinearFourRates"), **kw).run(fi)


def layout(ctx):
    tr = ctx.trace("LinearFourRates", "update", assume={"_drift_state": None}, nonnull=NN)
    mu = [e for e in tr.mutations("_confusion")]
    ctx.ob("ROLE", "LinearFourRates.update", "one increment of the confusion matrix per sample", len(mu) == 1 and mu[0].aug == ("Add", const(1)), "")
    ctx.require(mu, "confusion matrix increment")
    path = [p[1] for p in mu[0].path if p[0] == "item"]
    ctx.require(len(path) == 2, "confusion[a][b] += 1")
    def who(t):
        yp = T.mentions(t, lambda a: a == ("param", "y_pred"))
        yt = T.mentions(t, lambda a: a == ("param", "y_true"))
        return "pred" if yp and not yt else ("true" if yt and not yp else "?")
    order = (who(path[0]), who(path[1]))
    ctx.ob("AGREE", "LinearFourRates.update", "confusion matrix is indexed by one label each", set(order) == {"pred", "true"}, str(order), mu[0])
    # flat index of cell (pred, true) under ravel()
    def flat(pred, true):
        i, j = (pred, true) if order == ("pred", "true") else (true, pred)
        return 2 * i + j
    for fn, keys in (("_get_four_rates", RATES), ("_get_four_denominators", tuple(r + "_N" for r in RATES))):
        ts = _static(ctx, fn)
        rv = atom(("mcall", P("confusion"), "ravel", (), ()))
        cell = {"tp": q.sub(rv, flat(1, 1)), "tn": q.sub(rv, flat(0, 0)), "fp": q.sub(rv, flat(1, 0)), "fn": q.sub(rv, flat(0, 1))}
        spec = {"tpr": ("tp", "tp + fn"), "tnr": ("tn", "tn + fp"), "ppv": ("tp", "fp + tp"), "npv": ("tn", "tn + fn")}
        for k in keys:
            got = q.sub(ts.retval, const(k))
            r = k[:3]
            num, den = S(spec[r][0], cell), S(spec[r][1], cell)
            want = num / den if fn == "_get_four_rates" else den
            ctx.ob("AGREE" if fn == "_get_four_rates" else "AGREE-denom", "LinearFourRates." + fn,
                   "%s read from the cells the writer increments ([%s][%s] layout)" % (k, order[0], order[1]), T.same(got, want),
                   "computed %s ; with the writer's layout it must be %s" % (q.short(got, 120), q.short(want, 120)))


def _ones22(prog, mi, t, depth=0):
    """Is the term a fresh 2x2 array of ones?"""
    a = t.single_atom()
    if a is None:
        return False
    if a[0] == "call" and a[1] in FRESH_CALLS and a[2]:
        return _ones_literal(prog, mi, a[2][0])
    if a[0] == "mcall" and a[2] == "copy":
        return _ones_literal(prog, mi, a[1])
    return False


def _ones_literal(prog, mi, t):
    a = t.single_atom()
    if a is None:
        return False
    if a[0] in ("list", "tuple"):
        return len(a[1]) == 2 and all((x.single_atom() or ("",))[0] in ("list", "tuple") and x.single_atom()[1] == (const(1), const(1)) for x in a[1])
    if a[0] == "global":
        # module level constant: resolve its defining expression
        mod, _, name = a[1].rpartition(".")
        m = prog.modules.get(mod)
        if m is None:
            return False
        for st in m.tree.body:
            if isinstance(st, ast.Assign) and any(isinstance(x, ast.Name) and x.id == name for x in st.targets):
                ev = Evaluator(prog, None)
                ev.silent = 1
                from ..evalr import Frame, State
                from ..loader import FuncInfo
                dummy = ast.parse("def f():\n    pass").body[0]
                ev.frames.append(Frame(FuncInfo(dummy, m), None, False, None, 0))
                v = ev.ev(st.value, State({}, {}))
                va = v.single_atom()
                if va is not None and va[0] == "call" and va[1] in FRESH_CALLS | {"numpy.asarray"}:
                    return _ones_literal(prog, m, va[2][0])
                return _ones_literal(prog, m, v)
    if a[0] == "call" and a[1] in ("numpy.ones",):
        return True
    return False


def pseudo(ctx):
    mi = ctx.prog.cls("LinearFourRates").module
    for m in ("__init__", "reset"):
        tr = ctx.trace("LinearFourRates", m)
        v = tr.final.attrs.get("_confusion")
        ok = v is not None and _ones22(ctx.prog, mi, v)
        ctx.ob("AGREE", "LinearFourRates." + m, "confusion matrix starts as a fresh 2x2 array of ones (one pseudo-count per cell)", ok,
               "found %s; it must be a new array each time (the matrix is incremented in place)" % (q.short(v, 80) if v is not None else None))
        p = tr.final.attrs.get("_p_table")
        d = tr.final.attrs.get("_denominators")
        okp = p is not None and all(q.sub(q.sub(p, 0), const(r)) == const(0.5) for r in RATES)
        okd = d is not None and all(q.sub(q.sub(d, 0), const(r + "_N")) == const(2) for r in RATES)
        ctx.ob("AGREE", "LinearFourRates." + m, "initial rates 0.5 and denominators 2 (consistent with the pseudo-counts)", okp and okd, "")


def statistic(ctx):
    tr = ctx.trace("LinearFourRates", "update", assume={"_drift_state": None, "parallelize": False}, nonnull=NN)
    ssr = A("_samples_since_reset") + const(1)
    mu = [e for e in tr.mutations("_r_stat") if e.how == "setitem" and e.func.name == "_calculate_rate_bounds"]
    ctx.anchor("LinearFourRates.update", "statistic stored per rate", len(mu) == 1, "found %d" % len(mu))
    if not mu:
        return
    e = mu[0]
    idx = [p[1] for p in e.path]
    ctx.ob("IDX", "LinearFourRates.update", "statistic stored at the current step", len(idx) == 2 and T.same(idx[0], ssr), "", e)
    a = e.value.single_atom()
    ok = a is not None and a[0] == "ite"
    ctx.ob("FRM", "LinearFourRates.update", "statistic is updated only when the rate changed", ok, q.short(e.value, 160), e)
    if not ok:
        return
    c, tv, fv = a[1], a[2], a[3]
    if q.is_cmp(c) is not None and q.is_cmp(c)[1] == "==":
        c, tv, fv = T.mk_not(c), fv, tv  # gated phis are kept with a canonical polarity of the condition
    cc = q.is_cmp(c)
    okc = cc is not None and cc[1] == "!=" and len(cc[2].atoms()) == 2 and all(x[0] == "sub" for x in cc[2].atoms())
    if okc:
        # new_rates[rate] - old_rates[rate]: one side derives from the incremented matrix, the other not
        sides = list(cc[2].atoms())
        inc = [T.mentions(atom(s_), lambda z: z[0] == "mutated") for s_ in sides]
        okc = inc.count(True) == 1
    ctx.ob("FRM", "LinearFourRates.update", "update condition is new_rate != old_rate (exact comparison)", okc, q.short(c, 200), e)
    eta = A("time_decay_factor")
    ind = [x for x in T.atoms_of(tv, "cmp") if x[1] == "==" and T.mentions(atom(x), lambda z: z == ("param", "y_true")) and T.mentions(atom(x), lambda z: z == ("param", "y_pred"))]
    okf = False
    msg = q.short(tv, 200)
    if len(set(ind)) == 1:
        i = atom(ind[0])
        rest = (tv - (const(1) - eta) * i) / eta
        ra = rest.single_atom()
        okf = ra is not None and ra[0] == "sub" and c01._rooted(q.sub(A("_r_stat"), 0) if False else _strip_sub(rest), "_r_stat")
    ctx.ob("FRM", "LinearFourRates.update", "R <- eta*R + (1-eta)*[y_true == y_pred]", okf, msg, e)
    fa = fv.single_atom()
    okp = fa is not None and fa[0] == "sub" and c01._rooted(_strip_sub(fv), "_r_stat")
    ctx.ob("FRM", "LinearFourRates.update", "otherwise the previous value is kept", okp, q.short(fv, 120), e)


def _strip_sub(t):
    a = t.single_atom()
    while a is not None and a[0] in ("sub",):
        t = a[1]
        a = t.single_atom()
    if a is not None and a[0] == "mcall" and a[2] == "copy":
        return _strip_sub(a[1])
    return t


def montecarlo(ctx):
    tr = _static(ctx, "_sim_bounds")
    eta, N = A("time_decay_factor"), P("denom")
    # the weights are what is repeated into the simulation matrix: prods = [eta ** exps[i] ...], exps = [N - i for i in 1..N]
    rp = [e for e in tr.calls() if e.callee == ("lib", "numpy.repeat") and e.func.name == "_sim_bounds"]
    if not ctx.anchor("LinearFourRates._sim_bounds", "weight vector repeated into the simulation matrix (np.repeat)", len(rp) == 1 and rp[0].args):
        return
    pr = rp[0].args[0]
    pa = pr.single_atom()
    ok = False
    ex = None
    if pa is not None and pa[0] == "comp":
        elt = pa[2][0].single_atom()
        if elt is not None and elt[0] == "pow" and elt[1] == eta and (elt[2].single_atom() or ("",))[0] == "sub":
            ex = elt[2].single_atom()[1]
            ra = pa[3][0].single_atom()
            ok = ra is not None and ra[0] == "call" and ra[1] == "range" and tuple(ra[2]) == (N,) and (elt[2].single_atom()[2].single_atom() or ("",))[0] == "idx"
    ctx.ob("FRM", "LinearFourRates._sim_bounds", "weights are eta ** (N - i)", ok, q.short(pr, 120))
    ea = ex.single_atom() if ex is not None else None
    ok = False
    if ea is not None and ea[0] == "comp":
        elt, its = ea[2][0], ea[3]
        ra = its[0].single_atom() if its else None
        ix = [x for x in elt.atoms() if x[0] == "idx"]
        ok = ra is not None and ra[0] == "call" and ra[1] == "range" and tuple(ra[2]) == (const(1), N + const(1)) and len(ix) == 1 and T.same(elt, N - atom(ix[0]))
    ctx.ob("FRM", "LinearFourRates._sim_bounds", "weights have exponents N - i for i = 1..N", ok, q.short(ex, 120) if ex is not None else "")
    # get_Rj
    fi = ctx.prog.method("LinearFourRates", "_sim_bounds").nested.get("get_Rj")
    ctx.require(fi is not None, "_sim_bounds.get_Rj")
    tg = Evaluator(ctx.prog, ctx.prog.cls("LinearFourRates")).run(fi, has_self=False)
    bn = [e for e in tg.calls() if e.callee == ("lib", "numpy.random.binomial")]
    ok = len(bn) == 1 and dict(bn[0].kwargs).get("n") == const(1) and dict(bn[0].kwargs).get("p") == P("est_rate") and dict(bn[0].kwargs).get("size") == P("denom")
    ctx.ob("FRM", "LinearFourRates._sim_bounds.get_Rj", "B_i ~ Bernoulli(p_hat), N draws", ok, "")
    want = (const(1) - P("eta")) * atom(("call", "sum", (P("vec") * bn[0].result,), ())) if bn else None
    ctx.ob("FRM", "LinearFourRates._sim_bounds.get_Rj", "statistic (1 - eta) * sum(eta^(N-i) * B_i)", bn and T.same(tg.retval, want), q.short(tg.retval, 120))
    ap = [e for e in tr.calls() if e.callee[0] == "mcall" and e.callee[1] == "apply"]
    okw = len(ap) == 1 and dict(ap[0].kwargs).get("args") is not None and dict(ap[0].kwargs)["args"] == atom(("tuple", (eta, P("est_rate"), N)))
    ctx.ob("FWD", "LinearFourRates._sim_bounds", "the simulation receives (eta, est_rate, denom)", okw, "")
    # percentile levels
    ret = tr.retval
    lv = {"lb_warn": A("warning_level") * const(100), "ub_warn": const(100) - A("warning_level") * const(100),
          "lb_detect": A("detect_level") * const(100), "ub_detect": const(100) - A("detect_level") * const(100)}
    for k, want in lv.items():
        v = q.sub(ret, const(k)).single_atom()
        ok = v is not None and v[0] == "call" and v[1] == "numpy.percentile" and T.same(dict(v[3]).get("q", v[2][1] if len(v[2]) > 1 else const(-1)), want)
        ctx.ob("FRM", "LinearFourRates._sim_bounds", "%s is the %s percentile" % (k, q.short(want, 40)), ok, "")


def wiring(ctx):
    tr = ctx.trace("LinearFourRates", "update", assume={"_drift_state": None, "parallelize": False}, nonnull=NN)
    rs = [e for e in tr.mutations("_r_stat") if e.how == "setitem" and e.func.name == "_calculate_rate_bounds"]
    ctx.require(rs, "statistic store")
    stat = rs[0].value
    for attr, lo, hi in (("_warning_states", "lb_warn", "ub_warn"), ("_alarm_states", "lb_detect", "ub_detect")):
        mu = [e for e in tr.mutations(attr) if e.how == "setitem"]
        ctx.ob("ROLE", "LinearFourRates.update", "flag store into %s" % attr, len(mu) == 1, "")
        for e in mu:
            ds = q.disjuncts(e.value)
            okv = len(ds) == 2
            keys = set()
            for d in ds:
                c = q.is_cmp(d)
                if c is None or c[1] != ">":
                    okv = False
                    continue
                # stat - bound  or  bound - stat
                for sgn, nm in ((1, "upper"), (-1, "lower")):
                    rest = (c[2] - stat) if sgn == 1 else (c[2] + stat)
                    bound = -rest if sgn == 1 else rest
                    if T.mentions(bound, lambda z: z == stat.single_atom()):
                        continue
                    ks = {_bound_key(l) for _cc, l in q.ite_leaves(bound)}
                    if len(ks) == 1 and None not in ks:
                        keys.add((nm, ks.pop()))
            ok = okv and keys == {("lower", lo), ("upper", hi)}
            ctx.ob("TNT-wiring", "LinearFourRates.update", "%s = statistic outside [%s, %s]" % (attr, lo, hi), ok, "found %s" % sorted(keys), e)
            # only tracked rates
            it = e.path[1][1].single_atom() if len(e.path) == 2 else None
            okr = it is not None and ((it[0] == "iter" and it[1] == A("rates_tracked")) or it[0] == "param")
            ctx.ob("TNT-untracked", "LinearFourRates.update", "%s written only for rates in rates_tracked" % attr, okr, "", e)
    # the loop runs over rates_tracked in both modes
    for par in (False, True):
        t2 = ctx.trace("LinearFourRates", "update", assume={"_drift_state": None, "parallelize": par}, nonnull=NN)
        cs = [e for e in t2.calls() if e.callee[0] == "closure" and e.callee[1].endswith("_calculate_rate_bounds")]
        ok = len(cs) == 1 and (cs[0].args[0].single_atom() or ("",))[0] == "iter" and cs[0].args[0].single_atom()[1] == A("rates_tracked")
        ctx.ob("TNT-untracked", "LinearFourRates.update", "rates processed are exactly rates_tracked (parallelize=%s)" % par, ok, "")


LEVELS = {"lb_warn": ("warning_level", False), "ub_warn": ("warning_level", True), "lb_detect": ("detect_level", False), "ub_detect": ("detect_level", True)}


def _bound_key(leaf):
    """Which bound does this term denote: a dictionary entry keyed by name, or the percentile that defines it."""
    a = leaf.single_atom()
    if a is None:
        return None
    if a[0] == "sub" and T.is_pure_const(a[2]):
        return T.const_py(a[2])
    if a[0] == "call" and a[1] == "numpy.percentile":
        qv = dict(a[3]).get("q", a[2][1] if len(a[2]) > 1 else None)
        for k, (lvl, upper) in LEVELS.items():
            want = (const(100) - A(lvl) * const(100)) if upper else A(lvl) * const(100)
            if qv is not None and T.same(qv, want):
                # warning and detect levels give the same expression only if the attributes coincide
                return k
    return None


def cache(ctx):
    tr = ctx.trace("LinearFourRates", "update", assume={"_drift_state": None, "parallelize": False}, nonnull=NN)
    cs = q.find_calls(tr, "LinearFourRates._update_bounds_dict")
    ctx.anchor("LinearFourRates.update", "bounds looked up through the cache", len(cs) == 1, "")
    if cs:
        a = cs[0].args
        rv = A("round_val")
        ok = len(a) == 4 and a[2] == atom(("call", "round", (a[0], rv), ())) and a[3] == atom(("call", "round", (a[1], rv), ()))
        ctx.ob("AGREE-cache", "LinearFourRates.update", "cache keys are roundings of exactly the simulated (rate, denominator)", ok,
               "args %s" % ", ".join(q.short(x, 60) for x in a), cs[0])
    ts = _static(ctx, "_update_bounds_dict")
    sims = q.find_calls(ts, "LinearFourRates._sim_bounds")
    ok = len(sims) >= 1 and all(tuple(e.args) == (P("est_rate"), P("curr_denom")) for e in sims)
    ctx.ob("AGREE-cache", "LinearFourRates._update_bounds_dict", "a miss simulates for the un-rounded (rate, denominator)", ok, "")
    # hit path returns the entry under both keys; every simulated result is stored under both keys
    leaves = [l for _c, l in q.ite_leaves(ts.retval)]
    hit = [l for l in leaves if (l.single_atom() or ("",))[0] == "sub"]
    okh = bool(hit) and all(_two_keys(l) for l in hit)
    ctx.ob("AGREE-cache", "LinearFourRates._update_bounds_dict", "a hit is keyed by both the rounded rate and the rounded denominator", okh,
           "a key that drops one of them would hand out bounds simulated for another denominator")
    stores = [e for e in ts.of("mutate", "localmut") if e.how == "setitem"]
    keyed = [e for e in stores if any(p[1] == P("r_curr_denom") for p in e.path)] + [e for e in ts.of("local") if e.name == "denom_dict" and T.mentions(e.value, lambda a: a == ("param", "r_curr_denom"))]
    keyed_r = [e for e in ts.mutations("_bounds") if any(p[1] == P("r_est_rate") for p in e.path)]
    ctx.ob("AGREE-cache", "LinearFourRates._update_bounds_dict", "simulated bounds are stored under both keys", bool(keyed) and bool(keyed_r), "")


def _two_keys(l):
    a = l.single_atom()
    if a is None or a[0] != "sub" or a[2] != P("r_curr_denom"):
        return False
    b = a[1].single_atom()
    return b is not None and b[0] == "sub" and b[2] == P("r_est_rate") and b[1] == A("_bounds")
