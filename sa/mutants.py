"""Seeded and benign variants for the self-test (sa/selftest.py).

Each seeded variant is a small edit of the *current* source that breaks the
property while still compiling; `expect` names (a substring of) the rule that
must report it.  Benign variants are behaviour-preserving rewrites."""

SEEDED = []
BENIGN = []

CD = "menelaus/change_detection/"
CO = "menelaus/concept_drift/"
DD = "menelaus/data_drift/"
PA = "menelaus/partitioners/"
EN = "menelaus/ensemble/"
IN = "menelaus/injection/"
DET = "menelaus/detector.py"


def s(pid, mid, file, old, new, expect=None, **kw):
    SEEDED.append(dict(pid=pid, id=pid + ":" + mid, file=file, old=old, new=new, expect=expect, **kw))


def s2(pid, mid, file, edits, expect=None, **kw):
    SEEDED.append(dict(pid=pid, id=pid + ":" + mid, file=file, edits=edits, expect=expect, **kw))


def b(pids, mid, file, old, new, **kw):
    BENIGN.append(dict(pids=pids, id="benign:" + mid, file=file, old=old, new=new, **kw))


def b2(pids, mid, file, edits, **kw):
    BENIGN.append(dict(pids=pids, id="benign:" + mid, file=file, edits=edits, **kw))


# ---------------------------------------------------------------- C01
s("C01", "ddm-drop-prologue", CO + "ddm.py",
  '        if self.drift_state == "drift":\n            self.reset()\n\n        _, y_true',
  '        _, y_true', "RESTART")
s("C01", "ph-burnin-ge", CD + "page_hinkley.py", "self.samples_since_reset > self.burn_in", "self.samples_since_reset >= self.burn_in", "GRD-warmup")
s("C01", "stepd-one-window", CO + "stepd.py", "self.samples_since_reset >= 2 * self.window_size", "self.samples_since_reset > self.window_size", "GRD-warmup")
s("C01", "lfr-burnin-ge", CO + "lfr.py", "(self.samples_since_reset > self.burn_in) & (", "(self.samples_since_reset >= self.burn_in) & (", "GRD-warmup")
s("C01", "kdq-persistence-ge", DD + "kdq_tree.py", "self._drift_counter > self.persistence * self.window_size", "self._drift_counter >= self.persistence * self.window_size", "GRD-warmup")
s("C01", "hdm-detect3-early", DD + "histogram_density_method.py", "self.batches_since_reset >= 3 and self.detect_batch == 3", "self.batches_since_reset >= 2 and self.detect_batch == 3", "GRD-warmup")
s("C01", "adwin-drop-schedule", CD + "adwin.py", "            self.total_samples % self.new_sample_thresh == 0\n            and self._window_size", "            self._window_size", "GRD-warmup")
s("C01", "adwin-subwindow", CD + "adwin.py", "(n_elements0 >= self.subwindow_size_thresh)\n                            and ", "", "GRD-warmup")
s("C01", "ddm-recs-off-by-one", CO + "ddm.py", "            self._retraining_recs[1] = self.total_samples - 1", "            self._retraining_recs[1] = self.total_samples", "FRM-recs")
s("C01", "eddm-reset-keeps-recs", CO + "eddm.py", "        self._test_statistic = None\n        self._initialize_retraining_recs()\n\n    # XXX", "        self._test_statistic = None\n\n    # XXX", "MC-recs")
s("C01", "nndvi-state-typo", DD + "nndvi.py", 'self._drift_state = "drift"', 'self._drift_state = "Drift"', "WR-domain")
s("C01", "pcacd-drop-flag", DD + "pca_cd.py", "                    self._build_reference_and_test = True\n                    self.drift_state", "                    self.drift_state", "PAIR")
s("C01", "stepd-reset-counter", CO + "stepd.py", "        self._test_p = None\n        self._initialize_retraining_recs()\n\n    def update", "        self._test_p = None\n        self.samples_since_reset = 1\n        self._initialize_retraining_recs()\n\n    def update", "WR-counter")
s("C01", "cusum-double-count", CD + "cusum.py", "        super().update(X, None, None)\n        self._stream.append(X)", "        super().update(X, None, None)\n        super().update(X, None, None)\n        self._stream.append(X)", "MC-count")
s("C01", "eddm-nthreshold-samples", CO + "eddm.py", "if self._n_errors < self.n_threshold:", "if self.samples_since_reset < self.n_threshold:", "GRD-warmup")
s("C01", "base-reset-keeps-state", DET, "        self.samples_since_reset = 0\n        self.drift_state = None", "        self.samples_since_reset = 0", "MC-count")
s("C01", "kdqbatch-no-rebuild", DD + "kdq_tree.py", "            self.set_reference(self.ref_data)\n", "            pass\n", "RESTART")
s("C01", "cusum-count-before-validate", CD + "cusum.py",
  "        X, _, _ = super()._validate_input(X, None, None)\n        if len(X.shape) > 1 and X.shape[1] != 1:\n            raise ValueError(\"CUSUM should only be used to monitor 1 variable.\")\n        super().update(X, None, None)",
  "        super().update(X, None, None)\n        X, _, _ = super()._validate_input(X, None, None)\n        if len(X.shape) > 1 and X.shape[1] != 1:\n            raise ValueError(\"CUSUM should only be used to monitor 1 variable.\")", "MC-count")
s("C01", "adwin-recs-before-removal", CD + "adwin.py",
  "                                n_elements0 -= self._remove_last()\n                                self._retraining_recs = (\n                                    self.total_samples - self._window_size,\n                                    self.total_samples - 1,\n                                )",
  "                                self._retraining_recs = (\n                                    self.total_samples - self._window_size,\n                                    self.total_samples - 1,\n                                )\n                                n_elements0 -= self._remove_last()", "FRM-recs")
s("C01", "md3-no-prologue", CO + "md3.py", '        if self.drift_state == "drift":\n            self.reset()\n\n        super().update(X, y_true, y_pred)', '        super().update(X, y_true, y_pred)', "RESTART")
s("C01", "hdm-proxy-dropped", DD + "histogram_density_method.py", "        if self.detect_batch == 1:\n            self.update(test_proxy)", "        if self.detect_batch == 1:\n            pass", "RESTART")

b(["C01", "C04", "C17"], "ph-flip-operands", CD + "page_hinkley.py", "self.samples_since_reset > self.burn_in", "self.burn_in < self.samples_since_reset")
b(["C01", "C05", "C17"], "ddm-not-lt", CO + "ddm.py", "        if self.samples_since_reset < self.n_threshold:\n            return", "        if not (self.samples_since_reset >= self.n_threshold):\n            return")
b(["C01", "C05"], "stepd-nested-if", CO + "stepd.py", "self.samples_since_reset >= 2 * self.window_size", "self.samples_since_reset >= self.window_size + self.window_size")
b(["C01", "C04", "C17"], "cusum-int-ge", CD + "cusum.py", "        if self.samples_since_reset > self.burn_in:\n            if self.direction is None:", "        if self.samples_since_reset >= self.burn_in + 1:\n            if self.direction is None:")
b(["C01", "C05"], "ddm-recs-temp", CO + "ddm.py", "            self._retraining_recs[1] = self.total_samples - 1", "            last = self.total_samples - 1\n            self._retraining_recs[1] = last")
