"""Seeded and benign variants for the self-test (sa/selftest.py).

Each seeded variant is a small edit of the *current* source that breaks the
property while still compiling; `expect` names (a substring of) the rule that
must report it.  Benign variants are behaviour-preserving rewrites."""

SEEDED = []
BENIGN = []

CD = "menelaus/change_detection/"
CO = "menelaus/concept_drift/"
DD = "menelaus/data_drift/"
PA = "menelaus/partitioners/"
EN = "menelaus/ensemble/"
IN = "menelaus/injection/"
DET = "menelaus/detector.py"


def s(pid, mid, file, old, new, expect=None, **kw):
    SEEDED.append(dict(pid=pid, id=pid + ":" + mid, file=file, old=old, new=new, expect=expect, **kw))


def s2(pid, mid, file, edits, expect=None, **kw):
    SEEDED.append(dict(pid=pid, id=pid + ":" + mid, file=file, edits=edits, expect=expect, **kw))


def b(pids, mid, file, old, new, **kw):
    BENIGN.append(dict(pids=pids, id="benign:" + mid, file=file, old=old, new=new, **kw))


def b2(pids, mid, file, edits, **kw):
    BENIGN.append(dict(pids=pids, id="benign:" + mid, file=file, edits=edits, **kw))


# ---------------------------------------------------------------- C01
s("C01", "ddm-drop-prologue", CO + "ddm.py",
  '        if self.drift_state == "drift":\n            self.reset()\n\n        _, y_true',
  '        _, y_true', "RESTART")
s("C01", "ph-burnin-ge", CD + "page_hinkley.py", "self.samples_since_reset > self.burn_in", "self.samples_since_reset >= self.burn_in", "GRD-warmup")
s("C01", "stepd-one-window", CO + "stepd.py", "self.samples_since_reset >= 2 * self.window_size", "self.samples_since_reset > self.window_size", "GRD-warmup")
s("C01", "lfr-burnin-ge", CO + "lfr.py", "(self.samples_since_reset > self.burn_in) & (", "(self.samples_since_reset >= self.burn_in) & (", "GRD-warmup")
s("C01", "kdq-persistence-ge", DD + "kdq_tree.py", "self._drift_counter > self.persistence * self.window_size", "self._drift_counter >= self.persistence * self.window_size", "GRD-warmup")
s("C01", "hdm-detect3-early", DD + "histogram_density_method.py", "self.batches_since_reset >= 3 and self.detect_batch == 3", "self.batches_since_reset >= 2 and self.detect_batch == 3", "GRD-warmup")
s("C01", "adwin-drop-schedule", CD + "adwin.py", "            self.total_samples % self.new_sample_thresh == 0\n            and self._window_size", "            self._window_size", "GRD-warmup")
s("C01", "adwin-subwindow", CD + "adwin.py", "(n_elements0 >= self.subwindow_size_thresh)\n                            and ", "", "GRD-warmup")
s("C01", "ddm-recs-off-by-one", CO + "ddm.py", "            self._retraining_recs[1] = self.total_samples - 1", "            self._retraining_recs[1] = self.total_samples", "TAB-recs")
s("C01", "eddm-reset-keeps-recs", CO + "eddm.py", "        self._test_statistic = None\n        self._initialize_retraining_recs()\n\n    # XXX", "        self._test_statistic = None\n\n    # XXX", "MC-recs")
s("C01", "nndvi-state-typo", DD + "nndvi.py", 'self._drift_state = "drift"', 'self._drift_state = "Drift"', "WR-domain")
s("C01", "pcacd-drop-flag", DD + "pca_cd.py", "                    self._build_reference_and_test = True\n                    self.drift_state", "                    self.drift_state", "PAIR")
s("C01", "stepd-reset-counter", CO + "stepd.py", "        self._test_p = None\n        self._initialize_retraining_recs()\n\n    def update", "        self._test_p = None\n        self.samples_since_reset = 1\n        self._initialize_retraining_recs()\n\n    def update", "WR-counter")
s("C01", "cusum-double-count", CD + "cusum.py", "        super().update(X, None, None)\n        self._stream.append(X)", "        super().update(X, None, None)\n        super().update(X, None, None)\n        self._stream.append(X)", "MC-count")
s("C01", "eddm-nthreshold-samples", CO + "eddm.py", "if self._n_errors < self.n_threshold:", "if self.samples_since_reset < self.n_threshold:", "GRD-warmup")
s("C01", "base-reset-keeps-state", DET, "        self.samples_since_reset = 0\n        self.drift_state = None", "        self.samples_since_reset = 0", "MC-count")
s("C01", "kdqbatch-no-rebuild", DD + "kdq_tree.py", "            self.set_reference(self.ref_data)\n", "            pass\n", "RESTART")
s("C01", "cusum-count-before-validate", CD + "cusum.py",
  "        X, _, _ = super()._validate_input(X, None, None)\n        if len(X.shape) > 1 and X.shape[1] != 1:\n            raise ValueError(\"CUSUM should only be used to monitor 1 variable.\")\n        super().update(X, None, None)",
  "        super().update(X, None, None)\n        X, _, _ = super()._validate_input(X, None, None)\n        if len(X.shape) > 1 and X.shape[1] != 1:\n            raise ValueError(\"CUSUM should only be used to monitor 1 variable.\")", "MC-count")
s("C01", "adwin-recs-before-removal", CD + "adwin.py",
  "                                n_elements0 -= self._remove_last()\n                                self._retraining_recs = (\n                                    self.total_samples - self._window_size,\n                                    self.total_samples - 1,\n                                )",
  "                                self._retraining_recs = (\n                                    self.total_samples - self._window_size,\n                                    self.total_samples - 1,\n                                )\n                                n_elements0 -= self._remove_last()", "FRM-recs")
s("C01", "md3-no-prologue", CO + "md3.py", '        if self.drift_state == "drift":\n            self.reset()\n\n        super().update(X, y_true, y_pred)', '        super().update(X, y_true, y_pred)', "RESTART")
s("C01", "hdm-proxy-dropped", DD + "histogram_density_method.py", "        if self.detect_batch == 1:\n            self.update(test_proxy)", "        if self.detect_batch == 1:\n            pass", "RESTART")

b(["C01", "C04", "C17"], "ph-flip-operands", CD + "page_hinkley.py", "self.samples_since_reset > self.burn_in", "self.burn_in < self.samples_since_reset")
b(["C01", "C05", "C17"], "ddm-not-lt", CO + "ddm.py", "        if self.samples_since_reset < self.n_threshold:\n            return", "        if not (self.samples_since_reset >= self.n_threshold):\n            return")
b(["C01", "C05"], "stepd-nested-if", CO + "stepd.py", "self.samples_since_reset >= 2 * self.window_size", "self.samples_since_reset >= self.window_size + self.window_size")
b(["C01", "C04", "C17"], "cusum-int-ge", CD + "cusum.py", "        if self.samples_since_reset > self.burn_in:\n            if self.direction is None:", "        if self.samples_since_reset >= self.burn_in + 1:\n            if self.direction is None:")
b(["C01", "C05"], "ddm-recs-temp", CO + "ddm.py", "            self._retraining_recs[1] = self.total_samples - 1", "            last = self.total_samples - 1\n            self._retraining_recs[1] = last")

# ---------------------------------------------------------------- C02
HDMF = DD + "histogram_density_method.py"
s("C02", "ddm-reset-drop-min", CO + "ddm.py", '        self._error_rate_min = float("inf")\n        self._error_std_min = float("inf")\n        self._initialize_retraining_recs()\n\n    # XXX', '        self._error_std_min = float("inf")\n        self._initialize_retraining_recs()\n\n    # XXX', "LIVE")
s("C02", "ph-reset-drop-sum", CD + "page_hinkley.py", "        self._min = 0\n        self._sum = 0\n        self._mean = 0\n\n        self._change_scores = []\n        self._page_hinkley_values = []\n        self._page_hinkley_differences = []\n        self._theta_threshold = []\n        self._drift_detected = []\n\n        self._maxes = []\n        self._mins = []\n        self._means = []\n\n    def to_dataframe", "        self._min = 0\n        self._mean = 0\n\n        self._change_scores = []\n        self._page_hinkley_values = []\n        self._page_hinkley_differences = []\n        self._theta_threshold = []\n        self._drift_detected = []\n\n        self._maxes = []\n        self._mins = []\n        self._means = []\n\n    def to_dataframe", "LIVE")
s("C02", "stepd-reset-drop-window", CO + "stepd.py", "        self._s, self._r = 0, 0\n        self._window = []\n        self._test_statistic = None\n        self._test_p = None\n        self._initialize_retraining_recs()\n\n    def update", "        self._s, self._r = 0, 0\n        self._test_statistic = None\n        self._test_p = None\n        self._initialize_retraining_recs()\n\n    def update", "LIVE")
s("C02", "kdqs-reset-drop-counter", DD + "kdq_tree.py", "        KdqTreeDetector.reset(self)\n        self._drift_counter = 0  # samples consecutively in the drift region", "        KdqTreeDetector.reset(self)", "LIVE")
s("C02", "kdq-reset-keeps-tree", DD + "kdq_tree.py", "        self._test_data_size = 0\n        self._kdqtree = None\n", "        self._test_data_size = 0\n", "LIVE")
s("C02", "revert-fix4-lambda", HDMF, "        self.total_epsilon = 0\n        self._lambda = self.total_batches\n", "        self.total_epsilon = 0\n", "LIVE")
s("C02", "eddm-reset-max-one", CO + "eddm.py", "        self._dist_std = 0\n        self._max_numerator = 0\n        self._test_statistic = None\n        self._initialize_retraining_recs()\n\n    # XXX", "        self._dist_std = 0\n        self._max_numerator = 1\n        self._test_statistic = None\n        self._initialize_retraining_recs()\n\n    # XXX", "AGREE")
s2("C02", "revert-fix3-cusum-index", CD + "cusum.py", [("                + (self._stream[-1] - self.target)", "                + (self._stream[self.samples_since_reset - 1] - self.target)"), ("                - (self._stream[-1] - self.target)", "                - (self._stream[self.samples_since_reset - 1] - self.target)")], "IDX")
s("C02", "hdm-setref-no-reset", HDMF, "        self.reference = copy.deepcopy(X)\n        self.reset()", "        self.reference = copy.deepcopy(X)\n        BatchDetector.reset(self)", ["MC", "LIVE-setref"])
s("C02", "hdm-drift-keeps-reference", HDMF, "                    self._drift_state = \"drift\"\n                    self.reference = X\n", "                    self._drift_state = \"drift\"\n", "PAIR")
s("C02", "kdq-drift-stores-old-ref", DD + "kdq_tree.py", "                        self.ref_data = ary", "                        self.ref_data = self._ref_data", "PAIR")
s("C02", "cusum-sd-from-head", CD + "cusum.py", "            self.sd_hat = np.std(self._stream[-self.burn_in :])", "            self.sd_hat = np.std(self._stream[: self.burn_in])", "AGREE")
s("C02", "cusum-reestimate-after-reset", CD + "cusum.py", "            self.target = np.mean(self._stream[-self.burn_in :])\n            self.sd_hat = np.std(self._stream[-self.burn_in :])\n            self.reset()", "            self.reset()", "LIVE")
s("C02", "ddm-total-in-rate", CO + "ddm.py", "+ (classifier_result - self._error_rate) / self.samples_since_reset", "+ (classifier_result - self._error_rate) / self.total_samples", "TNT-shift")
s("C02", "nndvi-keep-old-ref", DD + "nndvi.py", "            self.set_reference(test_batch)", "            self.set_reference(self.reference_batch)", "PAIR")
s("C02", "hdm-epsilon-survives", HDMF, "        self.epsilon = []\n        self.total_epsilon = 0", "        self.total_epsilon = 0", "LIVE")
s("C02", "eddm-new-stat-not-reset", CO + "eddm.py", "        self._n_errors = 0\n        self._index_error_curr = 0\n        self._index_error_last = 0\n        self._dist_mean = 0\n        self._dist_std = 0\n        self._max_numerator = 0\n        self._test_statistic = None\n        self._initialize_retraining_recs()\n\n    # XXX", "        self._n_errors = 0\n        self._index_error_last = 0\n        self._dist_mean = 0\n        self._dist_std = 0\n        self._max_numerator = 0\n        self._test_statistic = None\n        self._initialize_retraining_recs()\n\n    # XXX", "LIVE")
s("C02", "hdm-prevdist-unguarded", HDMF, "        if self.batches_since_reset >= 2:\n\n            if self.batches_since_reset == 2 and self.detect_batch != 3:", "        if self.total_batches >= 2:\n\n            if self.batches_since_reset == 2 and self.detect_batch != 3:", ["LIVE", "TNT-shift"])

b(["C02"], "ddm-reset-reorder", CO + "ddm.py", "        self._error_rate = 0\n        self._error_std = 0\n        self._error_rate_min = float(\"inf\")", "        self._error_std = 0\n        self._error_rate = 0\n        self._error_rate_min = float(\"inf\")", nth=1)
b(["C02", "C04"], "cusum-stream-last-temp", CD + "cusum.py", "        self._stream.append(X)\n", "        self._stream.append(X)\n        latest = self._stream[-1]\n")
b(["C02", "C15"], "kdq-no-deepcopy", DD + "kdq_tree.py", "        BatchDetector.update(self, X, None, None)\n        ary = copy.deepcopy(X)", "        BatchDetector.update(self, X, None, None)\n        ary = X")

# ---------------------------------------------------------------- C04
s("C04", "cusum-sh-plus-delta", CD + "cusum.py", "                / self.sd_hat\n                - self.delta,\n            )", "                / self.sd_hat\n                + self.delta,\n            )", "FRM")
s("C04", "cusum-sl-sign", CD + "cusum.py", "                - self.delta\n                - (self._stream[-1] - self.target)", "                - self.delta\n                + (self._stream[-1] - self.target)", "FRM")
s("C04", "ph-mean-divisor-total", CD + "page_hinkley.py", "(X - self._mean) / self.samples_since_reset", "(X - self._mean) / self.total_samples", "FRM")
s("C04", "ph-min-test-flipped", CD + "page_hinkley.py", "        if self._sum < self._min:\n            self._min = self._sum", "        if self._sum > self._min:\n            self._min = self._sum", "FRM")
s("C04", "ph-sum-before-mean", CD + "page_hinkley.py", "        self._mean = self._mean + (X - self._mean) / self.samples_since_reset\n        self._sum = self._sum + X - self._mean - self.delta", "        self._sum = self._sum + X - self._mean - self.delta\n        self._mean = self._mean + (X - self._mean) / self.samples_since_reset", "FRM")
s2("C04", "ph-directions-swapped", CD + "page_hinkley.py", [("            ph_difference = self._sum - self._min", "            ph_difference = self._max - self._sum"), ("            ph_difference = self._max - self._sum\n\n        drift_check", "            ph_difference = self._sum - self._min\n\n        drift_check")], "TAB-direction", nth=0)
s("C04", "cusum-positive-tests-lower", CD + "cusum.py", "                if self._upper_bound[self.samples_since_reset] > self.threshold:", "                if self._lower_bound[self.samples_since_reset] > self.threshold:", "TAB-direction")
s2("C04", "revert-fix3", CD + "cusum.py", [("                + (self._stream[-1] - self.target)", "                + (self._stream[self.samples_since_reset - 1] - self.target)")], ["FRM", "TNT-obs"])
s("C04", "cusum-estimate-late", CD + "cusum.py", "(self.target is None) & (self.samples_since_reset == self.burn_in)", "(self.target is None) & (self.samples_since_reset >= self.burn_in)", "GRD")
s("C04", "cusum-alarm-ge", CD + "cusum.py", "                if self._lower_bound[self.samples_since_reset] > self.threshold:\n                    self.drift_state", "                if self._lower_bound[self.samples_since_reset] >= self.threshold:\n                    self.drift_state", "TAB-direction")
s("C04", "cusum-prev-index", CD + "cusum.py", "                self._upper_bound[self.samples_since_reset - 1]\n", "                self._upper_bound[self.samples_since_reset - 2]\n", "FRM")
b(["C04", "C17"], "ph-theta-before-sum", CD + "page_hinkley.py", "        self._sum = self._sum + X - self._mean - self.delta\n        theta = self.threshold * self._mean", "        theta = self.threshold * self._mean\n        self._sum = self._sum + X - self._mean - self.delta")
s("C04", "ph-theta-old-mean", CD + "page_hinkley.py", "        self._mean = self._mean + (X - self._mean) / self.samples_since_reset\n        self._sum = self._sum + X - self._mean - self.delta\n        theta = self.threshold * self._mean", "        theta = self.threshold * self._mean\n        self._mean = self._mean + (X - self._mean) / self.samples_since_reset\n        self._sum = self._sum + X - self._mean - self.delta", "TAB-direction")
s("C04", "cusum-double-append", CD + "cusum.py", "            self._upper_bound.append(s_h)\n            self._lower_bound.append(s_l)\n\n        # derive", "            self._upper_bound.append(s_h)\n            self._lower_bound.append(s_l)\n            self._upper_bound.append(s_h)\n\n        # derive", "MC-append")
b(["C04"], "cusum-reassociate", CD + "cusum.py", "                + (self._stream[-1] - self.target)\n                / self.sd_hat\n                - self.delta,", "                - self.delta\n                + (self._stream[-1] - self.target)\n                / self.sd_hat,")
b(["C04", "C17"], "ph-mean-rewrite", CD + "page_hinkley.py", "self._mean = self._mean + (X - self._mean) / self.samples_since_reset", "self._mean = (self._mean * (self.samples_since_reset - 1) + X) / self.samples_since_reset")
b(["C04"], "ph-elif-to-if-order", CD + "page_hinkley.py", '        if self.direction == "positive":\n            ph_difference = self._sum - self._min\n        elif self.direction == "negative":\n            ph_difference = self._max - self._sum', '        if self.direction == "negative":\n            ph_difference = self._max - self._sum\n        elif self.direction == "positive":\n            ph_difference = self._sum - self._min')

# ---------------------------------------------------------------- C05
s("C05", "ddm-indicator-eq", CO + "ddm.py", "classifier_result = int(y_pred != y_true)", "classifier_result = int(y_pred == y_true)", "POLARITY")
s("C05", "eddm-block-under-correct", CO + "eddm.py", "        if not classifier_result:\n            self._n_errors += 1", "        if classifier_result:\n            self._n_errors += 1", "POLARITY")
s("C05", "eddm-drift-lt", CO + "eddm.py", "if self._test_statistic <= self.drift_thresh:", "if self._test_statistic < self.drift_thresh:", "GRD-chain")
s2("C05", "ddm-warning-first", CO + "ddm.py", [(">= self._error_rate_min + self.drift_scale * self._error_std\n        ):\n            self.drift_state = \"drift\"", ">= self._error_rate_min + self.warning_scale * self._error_std\n        ):\n            self.drift_state = \"warning\""), (">= self._error_rate_min + self.warning_scale * self._error_std\n        ):\n            self.drift_state = \"warning\"\n        else", ">= self._error_rate_min + self.drift_scale * self._error_std\n        ):\n            self.drift_state = \"drift\"\n        else")], "GRD-chain", nth=0)
s("C05", "stepd-drop-decreased", CO + "stepd.py", "if accuracy_decreased and self._test_p < self.alpha_drift:", "if self._test_p < self.alpha_drift:", "GRD-chain")
s("C05", "stepd-r-gets-newest", CO + "stepd.py", "            self._r += self._window[0]", "            self._r += self._window[-1]", "PAIR")
s("C05", "stepd-continuity-one", CO + "stepd.py", "                - 0.5\n                * (", "                - 1.0\n                * (", "FRM")
s("C05", "eddm-dist-swapped", CO + "eddm.py", "dist = self._index_error_curr - self._index_error_last", "dist = self._index_error_last - self._index_error_curr", "FRM")
s("C05", "stepd-else-keeps-recs", CO + "stepd.py", "                self.drift_state = None\n                self._initialize_retraining_recs()", "                self.drift_state = None", "TAB-recs")
s("C05", "ddm-min-lt", CO + "ddm.py", "            <= self._error_rate_min + self._error_std_min\n", "            < self._error_rate_min + self._error_std_min\n", "FRM")
s("C05", "ddm-std-old-rate-twice", CO + "ddm.py", "self._error_std = self._error_std + (classifier_result - self._error_rate) * (\n            classifier_result - error_rate_prev\n        )", "self._error_std = self._error_std + (classifier_result - error_rate_prev) * (\n            classifier_result - error_rate_prev\n        )", "FRM")
s("C05", "eddm-max-2std-to-std", CO + "eddm.py", "curr_numerator = self._dist_mean + 2 * self._dist_std", "curr_numerator = self._dist_mean + self._dist_std", "FRM")
s("C05", "stepd-p-two-sided", CO + "stepd.py", "self._test_p = 1 - scipy.stats.norm.cdf(", "self._test_p = 2 - 2 * scipy.stats.norm.cdf(", "FRM")
s("C05", "stepd-past-uses-total", CO + "stepd.py", "            out = self._r / (self.samples_since_reset - len(self._window))", "            out = self._r / (self.total_samples - len(self._window))", "FRM")
s("C05", "stepd-window-ge", CO + "stepd.py", "if len(self._window) > self.window_size:", "if len(self._window) >= self.window_size:", "PAIR")
s("C05", "eddm-index-total", CO + "eddm.py", "            self._index_error_curr = (\n                self.samples_since_reset - 1\n            )", "            self._index_error_curr = (\n                self.total_samples - 1\n            )", "FRM")
b(["C05", "C16", "C17"], "ddm-rate-rewrite", CO + "ddm.py", "            self._error_rate\n            + (classifier_result - self._error_rate) / self.samples_since_reset\n        )", "            (self._error_rate * (self.samples_since_reset - 1) + classifier_result) / self.samples_since_reset\n        )")
b(["C05", "C17"], "eddm-flip-le", CO + "eddm.py", "if self._test_statistic <= self.drift_thresh:", "if self.drift_thresh >= self._test_statistic:")
b(["C05", "C16"], "stepd-indicator-swapped-operands", CO + "stepd.py", "classifier_result = int(y_pred == y_true)", "classifier_result = int(y_true == y_pred)")
b(["C05", "C17"], "stepd-nested-decreased", CO + "stepd.py", "            if accuracy_decreased and self._test_p < self.alpha_drift:\n                self.drift_state = \"drift\"\n            elif accuracy_decreased and self._test_p < self.alpha_warning:\n                self.drift_state = \"warning\"\n            else:\n                self.drift_state = None\n                self._initialize_retraining_recs()", "            if accuracy_decreased and self._test_p < self.alpha_drift:\n                self.drift_state = \"drift\"\n            elif self._test_p < self.alpha_warning and accuracy_decreased:\n                self.drift_state = \"warning\"\n            else:\n                self.drift_state = None\n                self._initialize_retraining_recs()")

# ---------------------------------------------------------------- C03
AD = CD + "adwin.py"
AA = CO + "adwin_accuracy.py"
s("C03", "revert-fix1", AA, "            delta=delta,\n", "            delta=0.002,\n", "FWD")
s("C03", "revert-fix1-buckets", AA, "            max_buckets=max_buckets,\n", "            max_buckets=5,\n", "FWD")
s("C03", "revert-fix2", AA, "        y_true, y_pred = y_true[0], y_pred[0]\n        new_value = int(y_true == y_pred)", "        new_value = int(y_true == y_pred)\n        y_true, y_pred = y_true[0], y_pred[0]", "ORD")
s("C03", "acc-indicator-ne", AA, "new_value = int(y_true == y_pred)", "new_value = int(y_true != y_pred)", "FRM")
s("C03", "addsample-divisor", AD, "                * (new_value - self._curr_total / (self._window_size - 1))\n                / self._window_size\n", "                * (new_value - self._curr_total / (self._window_size - 1))\n                / (self._window_size - 1)\n", "FRM")
s("C03", "merge-quarter", AD, "+ n_elements * (mean1 - mean2) * (mean1 - mean2) / 2", "+ n_elements * (mean1 - mean2) * (mean1 - mean2) / 4", "FRM")
s("C03", "remove-plus", AD, "        self._curr_variance -= curr_bucket_row.bucket_variances[", "        self._curr_variance += curr_bucket_row.bucket_variances[", "FRM")
s("C03", "eps-third", AD, "+ 1.0 * (2 / 3) * n_harmonic * delta_prime_den", "+ 1.0 * (1 / 3) * n_harmonic * delta_prime_den", "FRM")
s("C03", "eps-delta-mult", AD, "                2 * log(n_elements) / self.delta\n", "                2 * log(n_elements) * self.delta\n", "FRM")
s("C03", "eps-conservative-4-to-2", AD, "delta_prime_den = log(4 * log(n_elements) / self.delta)", "delta_prime_den = log(2 * log(n_elements) / self.delta)", "FRM")
s("C03", "scan-drop-n1", AD, "                        n_elements0 += n_increment\n                        n_elements1 -= n_increment\n", "                        n_elements0 += n_increment\n", "PAIR")
s("C03", "shrink-without-drift", AD, "        self._add_sample(X)\n        self._shrink_window()", "        self._add_sample(X)\n        if self._window_size > 1000:\n            self._remove_last()\n        self._shrink_window()", "PAIR")
s("C03", "remove-total-after", AD, "        self._curr_total -= curr_bucket_row.bucket_totals[0]\n        mean_curr = curr_bucket_row.bucket_totals[0] / n_curr\n", "        mean_curr = curr_bucket_row.bucket_totals[0] / n_curr\n", "FRM")
s("C03", "trigger-max-buckets", AD, "if curr_bucket_row.bucket_count == self.max_buckets + 1:", "if curr_bucket_row.bucket_count == self.max_buckets + 2:", "AGREE")
s("C03", "capacity-shrunk", AD, "        self.bucket_totals = zeros(self.max_buckets + 1, dtype=float)", "        self.bucket_totals = zeros(self.max_buckets, dtype=float)", "AGREE")
s("C03", "compress-skipped", AD, "        self._curr_total += new_value\n        self._compress_buckets()", "        self._curr_total += new_value\n        if self._window_size % 2 == 0:\n            self._compress_buckets()", "MC")
s("C03", "remove-tail-dangling", AD, "        else:\n            self.tail.next_bucket = None\n        self.size -= 1", "        self.size -= 1", "PAIR")
s("C03", "mean-divides-total", AD, "            out = self._curr_total / self._window_size\n", "            out = self._curr_total / self.total_samples\n", "FRM")
s("C03", "merge-wrong-bucket", AD, "mean2 = curr_bucket_row.bucket_totals[1] / n_elements", "mean2 = curr_bucket_row.bucket_totals[2] / n_elements", "FRM")
s("C03", "scan-pos-from-size", AD, "                list_pos = (\n                    self._bucket_row_list.size - 1\n                )", "                list_pos = (\n                    self._bucket_row_list.size\n                )", "AGREE")
b(["C03", "C17"], "eps-reassoc", AD, "sqrt((2 * n_harmonic) * variance * delta_prime_den)", "sqrt(2 * (n_harmonic * variance) * delta_prime_den)")
b(["C03"], "addsample-square", AD, "                * (new_value - self._curr_total / (self._window_size - 1))\n                * (new_value - self._curr_total / (self._window_size - 1))\n", "                * (new_value - self._curr_total / (self._window_size - 1)) ** 2\n")
b(["C03"], "merge-expanded", AD, "+ n_elements * (mean1 - mean2) * (mean1 - mean2) / 2", "+ n_elements * n_elements * (mean1 - mean2) * (mean1 - mean2) / (n_elements + n_elements)")

# ---------------------------------------------------------------- C06
LF = CO + "lfr.py"
s("C06", "unpack-order", LF, "        tn, fn, fp, tp = confusion.ravel()\n        result = dict()\n        result[\"tpr\"]", "        tn, fp, fn, tp = confusion.ravel()\n        result = dict()\n        result[\"tpr\"]", "AGREE")
s("C06", "writer-transposed", LF, "self._confusion[y_p][y_t] += 1", "self._confusion[y_t][y_p] += 1", "AGREE")
s("C06", "tpr-wrong-denominator", LF, 'result["tpr"] = tp / (tp + fn)', 'result["tpr"] = tp / (tp + fp)', "AGREE")
s("C06", "stat-weights-swapped", LF, "][rate] + (1 - self.time_decay_factor) * (y_t == y_p)", "][rate] + self.time_decay_factor * (y_t == y_p)", "FRM")
s("C06", "rj-drop-one-minus-eta", LF, "return (1 - eta) * sum(vec * bools)", "return sum(vec * bools)", "FRM")
s("C06", "rate-changed-eq", LF, "if new_rates[rate] != old_rates[rate]:", "if new_rates[rate] == old_rates[rate]:", "FRM")
s("C06", "lb-detect-from-warning", LF, "lb_detect = np.percentile(result_vector, q=detect_level * 100)", "lb_detect = np.percentile(result_vector, q=warning_level * 100)", ["FRM", "TNT-wiring"])
s("C06", "ub-detect-lower-level", LF, "ub_detect = np.percentile(result_vector, q=100 - (detect_level * 100))", "ub_detect = np.percentile(result_vector, q=detect_level * 100)", ["FRM", "TNT-wiring"])
s("C06", "all-rates-loop", LF, "            for rate in self.rates_tracked:\n                _calculate_rate_bounds(rate)", "            for rate in [\"tpr\", \"tnr\", \"ppv\", \"npv\"]:\n                _calculate_rate_bounds(rate)", "TNT-untracked")
s("C06", "reset-zero-confusion", LF, "        self._confusion = np.array([[1, 1], [1, 1]])  # C at a given time point", "        self._confusion = np.array([[0, 0], [0, 0]])  # C at a given time point", "AGREE")
s("C06", "denominator-mismatch", LF, 'result["ppv_N"] = fp + tp', 'result["ppv_N"] = fn + tp', "AGREE-denom")
s("C06", "cache-key-drops-denominator", LF, "            if r_curr_denom in denom_dict:\n                bound_dict = denom_dict[r_curr_denom]", "            if len(denom_dict) > 0:\n                bound_dict = list(denom_dict.values())[0]", "AGREE-cache")
s("C06", "alarm-uses-warn-bounds", LF, "                    new_r_stat < lb_detect\n                ) | (new_r_stat > ub_detect)", "                    new_r_stat < lb_warn\n                ) | (new_r_stat > ub_detect)", "TNT-wiring")
s("C06", "cache-key-raw-rate", LF, "                    est_rate, curr_denom, r_est_rate, r_curr_denom\n                )", "                    est_rate, curr_denom, r_est_rate, r_est_rate\n                )", "AGREE-cache")
s("C06", "binomial-size-one", LF, "bools = np.random.binomial(n=1, p=est_rate, size=denom)", "bools = np.random.binomial(n=1, p=est_rate, size=1)", "FRM")
s("C06", "exps-off-by-one", LF, "exps = [denom - i for i in range(1, denom + 1)]", "exps = [denom - i for i in range(denom)]", "FRM")
s("C06", "stat-index-prev", LF, "            self._r_stat[self.samples_since_reset][rate] = new_r_stat", "            self._r_stat[self.samples_since_reset - 1][rate] = new_r_stat", "IDX")
b(["C06"], "rates-reordered", LF, '        result["tpr"] = tp / (tp + fn)\n        result["tnr"] = tn / (tn + fp)', '        result["tnr"] = tn / (fp + tn)\n        result["tpr"] = tp / (fn + tp)')
b(["C06", "C16"], "writer-temp", LF, "self._confusion[y_p][y_t] += 1", "row = y_p\n        self._confusion[row][y_t] += 1")
b(["C06", "C17"], "percentile-rewrite", LF, "q=100 - (warning_level * 100))", "q=100 * (1 - warning_level))")

# ---------------------------------------------------------------- C07
s("C07", "bins-ceil", HDMF, "            self._bins = int(np.floor(np.sqrt(self.reference_n)))", "            self._bins = int(np.ceil(np.sqrt(self.reference_n)))", "FRM")
s("C07", "mins-reference-only", HDMF, "            mins.append(np.concatenate((reference_variable, test_variable)).min())", "            mins.append(reference_variable.min())", "AGREE-support")
s("C07", "epsilon-no-abs", HDMF, "current_epsilon = abs(self.current_distance - self._prev_distance) * 1.0", "current_epsilon = (self.current_distance - self._prev_distance) * 1.0", "FRM")
s("C07", "drift-ge", HDMF, "                if current_epsilon > self.beta:", "                if current_epsilon >= self.beta:", "GRD")
s("C07", "tstat-alpha-half", HDMF, "                1 - (self.significance / 2), self.reference_n + test_n - 2", "                (self.significance / 2), self.reference_n + test_n - 2", "FRM")
s("C07", "hellinger-lengths-swapped", HDMF, "                np.sqrt(test_density[b] / t_length)\n                - np.sqrt(reference_density[b] / r_length)", "                np.sqrt(test_density[b] / r_length)\n                - np.sqrt(reference_density[b] / r_length)", "FRM")
s("C07", "distance-no-average", HDMF, "self.current_distance = (1 / self._input_col_dim) * total_distance", "self.current_distance = total_distance", "FRM")
s("C07", "beta-minus", HDMF, "            beta = epsilon_hat + self.significance * stdev", "            beta = epsilon_hat - self.significance * stdev", "FRM")
s("C07", "drift-block-appends", HDMF, "                    self._drift_state = \"drift\"\n                    self.reference = X\n", "                    self._drift_state = \"drift\"\n                    self.reference = pd.concat([self.reference, X])\n", None)
s("C07", "test-hist-own-range", HDMF, "        test_density = self._build_histograms(X, mins, maxes)", "        test_density = self._build_histograms(X, [X.iloc[:, f].min() for f in range(self._input_col_dim)], maxes)", "AGREE-support")
s("C07", "hist-default-bins", HDMF, "                bins=self._bins,\n                range=(min_values[f], max_values[f]),", "                bins=10,\n                range=(min_values[f], max_values[f]),", "FRM")
s("C07", "stdev-unscaled", HDMF, "        stdev = np.sqrt(total_stdev / (d_scale))", "        stdev = np.sqrt(total_stdev)", "FRM")
s("C07", "epsilon-hat-last", HDMF, "        self.total_epsilon += self.epsilon[-2]", "        self.total_epsilon += self.epsilon[-1]", "FRM")
s("C07", "feature-info-argmin", HDMF, "                                max(self.feature_epsilons)", "                                min(self.feature_epsilons)", "FRM")
s("C07", "hellinger-skip-last-bin", HDMF, "        for b in range(self._bins):\n            f_distance += (", "        for b in range(self._bins - 1):\n            f_distance += (", "FRM")
s("C07", "distance-wrong-feature", HDMF, "                self._reference_density[f], test_density[f]\n", "                self._reference_density[0], test_density[f]\n", "FRM")
s("C07", "cdbd-uses-hellinger", DD + "cdbd.py", '        divergence="KL",\n        detect_batch=1,', '        divergence="H",\n        detect_batch=1,', None)
s("C07", "kl-selects-hellinger", HDMF, '        elif divergence == "KL":\n            self.distance_function = self._KL_divergence', '        elif divergence == "KL":\n            self.distance_function = self._hellinger_distance', "TAB")
b(["C07", "C17"], "hellinger-square-rewrite", HDMF, "                np.sqrt(test_density[b] / t_length)\n                - np.sqrt(reference_density[b] / r_length)\n            ) ** 2", "                np.sqrt(reference_density[b] / r_length)\n                - np.sqrt(test_density[b] / t_length)\n            ) ** 2")
b(["C07", "C17"], "beta-reassoc", HDMF, "beta = epsilon_hat + t_stat * (stdev / np.sqrt(d_scale))", "beta = t_stat * stdev / np.sqrt(d_scale) + epsilon_hat")
b(["C07"], "avg-divide", HDMF, "self.current_distance = (1 / self._input_col_dim) * total_distance", "self.current_distance = total_distance / self._input_col_dim")

# ---------------------------------------------------------------- C08
KP = PA + "KDQTreePartitioner.py"
s("C08", "fill-lt", KP, "        lower_data = data[data[:, axis] <= midpoint_at_axis]\n        total_points = upper_data.shape[0] + lower_data.shape[0]\n        # update by ID", "        lower_data = data[data[:, axis] < midpoint_at_axis]\n        total_points = upper_data.shape[0] + lower_data.shape[0]\n        # update by ID", "PARTITION")
s("C08", "build-sides-swapped", KP, "            left=KDQTreeNode.build(\n                lower_data,", "            left=KDQTreeNode.build(\n                upper_data,", "AGREE-sides")
s("C08", "correction-one", KP, "        hist = np.array(counts) + 0.5", "        hist = np.array(counts) + 1", "FRM")
s("C08", "correction-len", KP, "        hist = hist / (total + len(hist) / 2)", "        hist = hist / (total + len(hist))", "FRM")
s("C08", "midpoint-no-min", KP, "midpoint_at_axis = min_value_at_axis + (np.ptp(data[:, axis]) / 2)", "midpoint_at_axis = np.ptp(data[:, axis]) / 2", "FRM")
s("C08", "recursion-same-depth", KP, "                lower_data, count_ubound, min_cutpoint_sizes, leaves, depth + 1\n", "                lower_data, count_ubound, min_cutpoint_sizes, leaves, depth\n", "FRM")
s("C08", "stop-rule-lt", KP, "            n <= count_ubound\n", "            n < count_ubound\n", "GRD-stop")
s("C08", "entropy-swapped", KP, "        distance = scipy.stats.entropy(hist1, hist2)", "        distance = scipy.stats.entropy(hist2, hist1)", "FRM")
s("C08", "inner-always-overwrite", KP, "        else:\n            node.num_samples_in_compared_subtrees[tree_id] += total_points", "        else:\n            node.num_samples_in_compared_subtrees[tree_id] = total_points", "AGREE-branches")
s("C08", "flatten-default-output", KP, "            tree_id2=tree_id2,\n            output=arr,\n", "            tree_id2=tree_id2,\n", "DEFAULT-ARG")
s("C08", "fill-sides-swapped", KP, "        KDQTreeNode.fill(upper_data, node.right, count_ubound, tree_id, reset)\n        KDQTreeNode.fill(lower_data, node.left, count_ubound, tree_id, reset)", "        KDQTreeNode.fill(upper_data, node.left, count_ubound, tree_id, reset)\n        KDQTreeNode.fill(lower_data, node.right, count_ubound, tree_id, reset)", "AGREE-sides")
s("C08", "fill-early-exit", KP, "        n = data.shape[0]\n        axis = node.axis\n", "        n = data.shape[0]\n        if n == 0 and tree_id in node.num_samples_in_compared_subtrees:\n            return\n        axis = node.axis\n", "MC")
s("C08", "fill-reset-dropped", KP, "        KDQTreeNode.fill(lower_data, node.left, count_ubound, tree_id, reset)", "        KDQTreeNode.fill(lower_data, node.left, count_ubound, tree_id)", "FWD")
s("C08", "kss-ref-max-for-test", KP, 'np.array([df["node_count_test"], test_max - df["node_count_test"]])', 'np.array([df["node_count_test"], ref_max - df["node_count_test"]])', "FRM")
s("C08", "build-ge-mask", KP, "        upper_data = data[data[:, axis] > midpoint_at_axis]\n        lower_data = data[data[:, axis] <= midpoint_at_axis]\n        total_points = upper_data.shape[0] + lower_data.shape[0]\n        node = KDQTreeNode(", "        upper_data = data[data[:, axis] >= midpoint_at_axis]\n        lower_data = data[data[:, axis] <= midpoint_at_axis]\n        total_points = upper_data.shape[0] + lower_data.shape[0]\n        node = KDQTreeNode(", "PARTITION")
s("C08", "leaf-not-recorded", KP, "            leaf = KDQTreeNode({\"build\": n}, None, None, None, None)\n            leaves.append(leaf)\n", "            leaf = KDQTreeNode({\"build\": n}, None, None, None, None)\n            if n > 0:\n                leaves.append(leaf)\n", "MC")
s("C08", "countdiff-reversed", KP, "                        node.num_samples_in_compared_subtrees[tree_id2]\n                        - node.num_samples_in_compared_subtrees[tree_id1]", "                        node.num_samples_in_compared_subtrees[tree_id1]\n                        - node.num_samples_in_compared_subtrees[tree_id2]", "FRM")
s("C08", "axis-not-cycling", KP, "        axis = depth % m\n", "        axis = min(depth, m - 1)\n", "FRM")
b(["C08", "C18"], "build-mask-flip", KP, "        lower_data = data[data[:, axis] <= midpoint_at_axis]\n        total_points = upper_data.shape[0] + lower_data.shape[0]\n        node = KDQTreeNode(", "        lower_data = data[midpoint_at_axis >= data[:, axis]]\n        total_points = upper_data.shape[0] + lower_data.shape[0]\n        node = KDQTreeNode(")
b(["C08"], "distn-rewrite", KP, "        hist = hist / (total + len(hist) / 2)", "        hist = hist / (0.5 * len(hist) + total)")
b(["C08", "C18"], "fill-order-swapped", KP, "        KDQTreeNode.fill(upper_data, node.right, count_ubound, tree_id, reset)\n        KDQTreeNode.fill(lower_data, node.left, count_ubound, tree_id, reset)", "        KDQTreeNode.fill(lower_data, node.left, count_ubound, tree_id, reset)\n        KDQTreeNode.fill(upper_data, node.right, count_ubound, tree_id, reset)")

# ---------------------------------------------------------------- C09
KD = DD + "kdq_tree.py"
s("C09", "quantile-alpha", KD, 'return np.quantile(critical_distances, 1 - self.alpha, method="nearest")', 'return np.quantile(critical_distances, self.alpha, method="nearest")', "POL")
s("C09", "revert-fix5", KD, "                elif input_type == \"stream\":\n                    self._drift_counter = 0\n", "", "PAIR")
s("C09", "draw-one-sample", KD, "size=2 * sample_size, p=ref_dist", "size=sample_size, p=ref_dist", "FRM")
s("C09", "halves-overlap", KD, "b_hist2 = unique(b_sample[sample_size:], return_counts=True)", "b_hist2 = unique(b_sample[:sample_size], return_counts=True)", "PARTITION")
s("C09", "decision-lt", KD, "                if test_dist > self._critical_dist:", "                if test_dist < self._critical_dist:", "GRD")
s("C09", "fill-reset-stream", KD, 'reset=(input_type == "batch"))', 'reset=(input_type == "stream"))', "FRM")
s("C09", "test-window-gt", KD, 'if input_type == "batch" or (self._test_data_size >= self.window_size):', 'if input_type == "batch" or (self._test_data_size > self.window_size):', "GRD")
s("C09", "batch-drop-refdata", KD, "                        self.drift_state = \"drift\"\n                        self.ref_data = ary\n", "                        self.drift_state = \"drift\"\n", "PAIR")
s("C09", "sample-size-swapped", KD, 'sample_size = self.window_size if input_type == "stream" else sum(ref_counts)', 'sample_size = sum(ref_counts) if input_type == "stream" else sum(ref_counts) // 2', "FRM")
s("C09", "kl-ids-swapped", KD, 'test_dist = self._kdqtree.kl_distance(tree_id1="build", tree_id2="test")', 'test_dist = self._kdqtree.kl_distance(tree_id1="test", tree_id2="build")', "FRM")
s("C09", "counter-accumulates", KD, "                        self._drift_counter += 1\n", "                        self._drift_counter += 2\n", "PAIR")
s("C09", "ref-window-ge", KD, 'input_type == "stream" and len(self._ref_data) == self.window_size', 'input_type == "stream" and len(self._ref_data) >= self.window_size // 2', "GRD")
s("C09", "bound-from-test-counts", KD, '        ref_counts = self._kdqtree.leaf_counts("build")', '        ref_counts = self._kdqtree.leaf_counts("test")', "FRM")
s("C09", "reset-keeps-counter", KD, "        self._drift_counter = 0  # samples consecutively in the drift region", "        pass", "PAIR")
b(["C09", "C17"], "decision-flip", KD, "                if test_dist > self._critical_dist:", "                if self._critical_dist < test_dist:")
b(["C09", "C02", "C01"], "counter-reset-else", KD, "                elif input_type == \"stream\":\n                    self._drift_counter = 0\n", "                else:\n                    if input_type == \"stream\":\n                        self._drift_counter = 0\n")

# ---------------------------------------------------------------- C10
NS = PA + "NNSpacePartitioner.py"
NV = DD + "nndvi.py"
s("C10", "revert-fix10", NS, "        v1, v2 = inverted_indices[: len(sample1)], inverted_indices[len(sample1) :]", "        v1, v2 = np.array_split(inverted_indices, 2)", "PARTITION")
s("C10", "denom-sum-v1", NS, "        denom = len(v1)\n", "        denom = sum(v1)\n", "FRM")
s("C10", "denominator-one-sided", NS, "d_nnps = np.sum(np.abs(M_s1 - M_s2) / (M_s1 + M_s2))", "d_nnps = np.sum(np.abs(M_s1 - M_s2) / (M_s1))", ["FRM", "FRM-symmetry"])
s("C10", "threshold-alpha", NV, "drift_threshold = norm.ppf(1 - alpha, mu, std)", "drift_threshold = norm.ppf(alpha, mu, std)", "POL")
s("C10", "decision-lt", NV, "        if d_act > theta_drift:", "        if d_act < theta_drift:", "GRD")
s("C10", "v2-shuffle-vtest", NV, "            v2_shuffle = 1 - v1_shuffle\n", "            v2_shuffle = v_test\n", "PARTITION")
s("C10", "onehot-counts", NS, "        v1_onehot[v1] = 1.0\n", "        np.add.at(v1_onehot, v1, 1.0)\n", "FRM")
s("C10", "build-order-swapped", NV, "        nnsp.build(self.reference_batch, test_batch)", "        nnsp.build(test_batch, self.reference_batch)", "FRM")
s("C10", "unique-no-axis", NS, "D, inverted_indices = np.unique(data, axis=0, return_inverse=True)", "D, inverted_indices = np.unique(data, return_inverse=True)", "FRM")
s("C10", "knn-fit-sample1", NS, "nn = NearestNeighbors(n_neighbors=self.k).fit(D)", "nn = NearestNeighbors(n_neighbors=self.k).fit(sample1)", "FRM")
s("C10", "perm-of-test", NV, "            v1_shuffle = np.random.permutation(v_ref)", "            v1_shuffle = np.random.permutation(v_test)", "FRM")
s("C10", "split-at-sample2", NS, "inverted_indices[: len(sample1)], inverted_indices[len(sample1) :]", "inverted_indices[: len(sample2)], inverted_indices[len(sample2) :]", "PARTITION")
b(["C10", "C18"], "distance-abs-flip", NS, "d_nnps = np.sum(np.abs(M_s1 - M_s2) / (M_s1 + M_s2))", "d_nnps = np.sum(np.abs(M_s2 - M_s1) / (M_s2 + M_s1))")
b(["C10", "C17"], "decision-flip", NV, "        if d_act > theta_drift:", "        if theta_drift < d_act:")

# ---------------------------------------------------------------- C11
PCF = DD + "pca_cd.py"
s("C11", "revert-fix6", PCF, "            else:\n                next_obs = pd.DataFrame(X)\n", "", "DA")
s2("C11", "revert-fix9", PCF, [("                        self.lower[i] = min(", "                        self.lower = min("), ("                        self.upper[i] = max(", "                        self.upper = max(")], "PER-COMPONENT")
s("C11", "score-min", PCF, "                change_score = max(change_scores)", "                change_score = min(change_scores)", "FRM")
s("C11", "ph-threshold-10pct", PCF, "        self.ph_threshold = round(0.01 * window_size)", "        self.ph_threshold = round(0.1 * window_size)", "FRM")
s("C11", "intersection-not-complement", PCF, "        divergence = 1 - intersection\n", "        divergence = intersection\n", "FRM")
s("C11", "monitor-not-reset", PCF, "                self.reset()\n                self._drift_detection_monitor.reset()\n", "                self.reset()\n", "MC")
s("C11", "schedule-inverted", PCF, "            if (((self.total_samples - 1) % self.step) == 0) and (", "            if (((self.total_samples - 1) % self.step) != 0) and (", "GRD")
s("C11", "no-inverse-transform", PCF, "                    self._reference_window = pd.DataFrame(\n                        self._reference_scaler.inverse_transform(self._reference_window)\n                    )\n", "                    pass\n", "PAIR")
s("C11", "winsor-discarded", PCF, "                    if next_proj.iloc[0, i] < self.lower[i]:\n                        next_proj.iloc[0, i] = self.lower[i]\n", "                    if next_proj.iloc[0, i] < self.lower[i]:\n                        pass\n", "FRM")
s("C11", "test-hist-own-range", PCF, "                            self._test_pca_projection.iloc[:, i],\n                            bins=self.bins,\n                            bin_range=(self.lower[i], self.upper[i]),", "                            self._test_pca_projection.iloc[:, i],\n                            bins=self.bins,\n                            bin_range=(self._test_pca_projection.iloc[:, i].min(), self.upper[i]),", "AGREE-support")
s("C11", "raw-obs-scaled-anyway", PCF, "            else:\n                next_obs = pd.DataFrame(X)\n", "            else:\n                next_obs = pd.DataFrame(X - X.mean())\n", "FRM")
s("C11", "reference-from-reference", PCF, "                self._reference_window = self._test_window.copy()", "                self._reference_window = self._reference_window.copy()", "PAIR")
s("C11", "monitor-burnin", PCF, "            delta=self.delta, threshold=self.ph_threshold, burn_in=0\n", "            delta=self.delta, threshold=self.ph_threshold, burn_in=30\n", "FWD")
s("C11", "pca-on-test-window", PCF, "                self._pca.fit(self._reference_window)", "                self._pca.fit(self._test_window)", "FRM")
s("C11", "drift-without-monitor", PCF, "                if self._drift_detection_monitor.drift_state is not None:\n                    self._build_reference_and_test = True", "                if change_score > 0.5:\n                    self._build_reference_and_test = True", "GRD")
s("C11", "hist-unnormalised", PCF, '            "density": list(density[0] / np.sum(density[0])),', '            "density": list(density[0]),', "FRM")
s("C11", "support-reference-only", PCF, "                        self.lower[i] = min(\n                            self._reference_pca_projection.iloc[:, i].min(),\n                            self._test_pca_projection.iloc[:, i].min(),\n                        )", "                        self.lower[i] = min(\n                            self._reference_pca_projection.iloc[:, i].min(),\n                            self._reference_pca_projection.iloc[:, i].min(),\n                        )", "AGREE-support")
b(["C11"], "intersection-rewrite", PCF, "        divergence = 1 - intersection\n", "        divergence = -intersection + 1\n")
b(["C11", "C01"], "schedule-flip", PCF, "                (self.total_samples - 1) != 0\n", "                0 != (self.total_samples - 1)\n")

# ---------------------------------------------------------------- C12
EF = EN + "ensemble.py"
s("C12", "x-rebound-in-loop", EF, "            X_selected = self.column_selectors[det_key](X)\n            self.detectors[det_key].update(X=X_selected, y_true=y_true, y_pred=y_pred)", "            X = self.column_selectors[det_key](X)\n            self.detectors[det_key].update(X=X, y_true=y_true, y_pred=y_pred)", "FWD")
s("C12", "election-before-loop", EF, "        for det_key in self.detectors:\n            # XXX - Cannot re-define X = constrain(), else external reference is modified\n            #       Need to see why this is happening and where to put e.g. a copy() stmt.\n            X_selected = self.column_selectors[det_key](X)\n            self.detectors[det_key].update(X=X_selected, y_true=y_true, y_pred=y_pred)\n\n        det_list = list(self.detectors.values())\n        self.drift_state = self.election(det_list)", "        det_list = list(self.detectors.values())\n        self.drift_state = self.election(det_list)\n        for det_key in self.detectors:\n            X_selected = self.column_selectors[det_key](X)\n            self.detectors[det_key].update(X=X_selected, y_true=y_true, y_pred=y_pred)", "ORD")
s("C12", "member-gets-whole-x", EF, "self.detectors[det_key].update(X=X_selected, y_true=y_true, y_pred=y_pred)", "self.detectors[det_key].update(X=X, y_true=y_true, y_pred=y_pred)", "FWD")
s("C12", "member-loses-labels", EF, "self.detectors[det_key].update(X=X_selected, y_true=y_true, y_pred=y_pred)", "self.detectors[det_key].update(X=X_selected, y_true=None, y_pred=y_pred)", "FWD")
s("C12", "reset-breaks", EF, "        for det_key in self.detectors:\n            self.detectors[det_key].reset()", "        for det_key in self.detectors:\n            self.detectors[det_key].reset()\n            break", "MC")
s("C12", "drift-states-own", EF, "            detector_id: detector.drift_state\n", "            detector_id: self.drift_state\n", "FRM")
s("C12", "streaming-no-count", EF, "        Ensemble.update(self, X=X, y_true=y_true, y_pred=y_pred)\n        StreamingDetector.update(self, X=X, y_true=y_true, y_pred=y_pred)", "        Ensemble.update(self, X=X, y_true=y_true, y_pred=y_pred)", "MC")
s("C12", "ensemble-auto-reset", EF, "        Ensemble.update(self, X=X, y_true=y_true, y_pred=y_pred)\n        StreamingDetector.update(", "        if self.drift_state == \"drift\":\n            self.reset()\n        Ensemble.update(self, X=X, y_true=y_true, y_pred=y_pred)\n        StreamingDetector.update(", "FOREIGN")
s("C12", "election-skipped-when-quiet", EF, "        det_list = list(self.detectors.values())\n        self.drift_state = self.election(det_list)", "        det_list = list(self.detectors.values())\n        if any(d.drift_state is not None for d in det_list):\n            self.drift_state = self.election(det_list)\n        else:\n            self.drift_state = None", "MC")
s("C12", "skip-drifted-members", EF, "            X_selected = self.column_selectors[det_key](X)\n            self.detectors[det_key].update(X=X_selected, y_true=y_true, y_pred=y_pred)\n\n        det_list", "            X_selected = self.column_selectors[det_key](X)\n            if self.detectors[det_key].drift_state != \"drift\":\n                self.detectors[det_key].update(X=X_selected, y_true=y_true, y_pred=y_pred)\n\n        det_list", "MC")
s("C12", "setref-wrong-selector", EF, "            X_selected = self.column_selectors[det_key](X)\n            self.detectors[det_key].set_reference(", "            X_selected = self.column_selectors[list(self.detectors)[0]](X)\n            self.detectors[det_key].set_reference(", "FWD")
s("C12", "member-state-cleared", EF, "        det_list = list(self.detectors.values())\n        self.drift_state = self.election(det_list)", "        det_list = list(self.detectors.values())\n        self.drift_state = self.election(det_list)\n        for d in det_list:\n            d._drift_state = None", "FOREIGN")
s("C12", "election-sorted", EF, "        det_list = list(self.detectors.values())", "        det_list = sorted(self.detectors.values(), key=id)", "FRM")
b(["C12"], "loop-items", EF, "        for det_key in self.detectors:\n            self.detectors[det_key].reset()", "        for det_key in self.detectors:\n            member = self.detectors[det_key]\n            member.reset()")

# ---------------------------------------------------------------- C13
ELF = EN + "election.py"
s("C13", "majority-ge", ELF, "        if num_drift > simple_majority_threshold:", "        if num_drift >= simple_majority_threshold:", "TAB")
s("C13", "minimum-gt", ELF, "            if num_approvals >= self.approvals_needed:\n                return \"drift\"\n        return None", "            if num_approvals > self.approvals_needed:\n                return \"drift\"\n        return None", "TAB")
s("C13", "ordered-or", ELF, "                    num_approvals >= self.approvals_needed\n                    and num_confirmations >= self.confirmations_needed", "                    num_approvals >= self.approvals_needed\n                    or num_confirmations >= self.confirmations_needed", "TAB")
s("C13", "majority-returns-warning", ELF, "        if num_drift > simple_majority_threshold:\n            return \"drift\"\n        else:\n            return None", "        if num_drift > simple_majority_threshold:\n            return \"drift\"\n        elif num_drift > 0:\n            return \"warning\"\n        else:\n            return None", ["RET", "ANALYSIS-ERROR"])
s("C13", "majority-votes-not-none", ELF, '        alarms = [d for d in detectors if d.drift_state == "drift"]', '        alarms = [d for d in detectors if d.drift_state is not None]', "FRM")
s("C13", "confirmed-expiry-ge", ELF, "            if count > self.wait_time:", "            if count >= self.wait_time:", "TAB")
s("C13", "confirmed-warning-counts", ELF, "            elif state == \"warning\":\n                num_warning += 1\n", "            elif state == \"warning\":\n                num_warning += 1\n                self.wait_period_counters[i] += 1\n", "TAB")
s("C13", "confirmed-warning-verdict", ELF, "        elif num_warning + num_drift >= self.sensitivity:", "        elif num_warning >= self.sensitivity:", "TAB")
s2("C13", "majority-half-rounded-up", ELF, [("        simple_majority_threshold = len(detectors) // 2", "        simple_majority_threshold = (len(detectors) + 1) // 2"), ("        if num_drift > simple_majority_threshold:", "        if num_drift >= simple_majority_threshold:")], "TAB")
s("C13", "confirmed-waiting-first", ELF, "            if state == \"drift\" and self.wait_period_counters[i] == 0:\n                num_drift += 1\n                self.wait_period_counters[i] += 1\n            elif state == \"warning\":\n                num_warning += 1\n            elif self.wait_period_counters[i] != 0:\n                num_drift += 1\n                self.wait_period_counters[i] += 1", "            if state == \"drift\" or self.wait_period_counters[i] != 0:\n                num_drift += 1\n                self.wait_period_counters[i] += 1\n            elif state == \"warning\":\n                num_warning += 1", "TAB")
s("C13", "minimum-counts-warning", ELF, '        for d in detectors:\n            if d.drift_state == "drift":\n                num_approvals += 1\n            if num_approvals', '        for d in detectors:\n            if d.drift_state in ("drift", "warning"):\n                num_approvals += 1\n            if num_approvals', "FRM")
s("C13", "ordered-approvals-le", ELF, "                if num_approvals < self.approvals_needed:", "                if num_approvals <= self.approvals_needed:", "TAB")
s("C13", "confirmed-drift-verdict-gt", ELF, "        if num_drift >= self.sensitivity:", "        if num_drift > self.sensitivity:", "TAB")
s("C13", "confirmed-expiry-early-return", ELF, "        for i, count in enumerate(self.wait_period_counters):\n            if count > self.wait_time:", "        if ret is None:\n            return ret\n        for i, count in enumerate(self.wait_period_counters):\n            if count > self.wait_time:", ["ORD", "MC"])
b(["C13"], "majority-doubled", ELF, "        if num_drift > simple_majority_threshold:", "        if 2 * num_drift > len(detectors):")
b(["C13"], "minimum-flip", ELF, "            if num_approvals >= self.approvals_needed:\n                return \"drift\"\n        return None", "            if self.approvals_needed <= num_approvals:\n                return \"drift\"\n        return None")
b(["C13"], "confirmed-verdict-reordered-sum", ELF, "        elif num_warning + num_drift >= self.sensitivity:", "        elif num_drift + num_warning >= self.sensitivity:")

# ---------------------------------------------------------------- C14
s("C14", "ddm-count-before-validate", CO + "ddm.py", "        _, y_true, y_pred = super()._validate_input(None, y_true, y_pred)\n        super().update(None, y_true, y_pred)\n        # the arrays should have a single element after validation.\n        y_true, y_pred = y_true[0], y_pred[0]\n        classifier_result = int(y_pred != y_true)", "        super().update(None, y_true, y_pred)\n        _, y_true, y_pred = super()._validate_input(None, y_true, y_pred)\n        # the arrays should have a single element after validation.\n        y_true, y_pred = y_true[0], y_pred[0]\n        classifier_result = int(y_pred != y_true)", "ORD")
s("C14", "cusum-no-univariate-guard", CD + "cusum.py", "        if len(X.shape) > 1 and X.shape[1] != 1:\n            raise ValueError(\"CUSUM should only be used to monitor 1 variable.\")\n", "", "GRD")
s("C14", "stream-y-no-shape-test", DET, "        ary = np.array(y).ravel()\n        if ary.shape != (1,):\n            raise ValueError(\n                \"Input for streaming detectors should contain only one observation.\"\n            )\n        return ary", "        ary = np.array(y).ravel()\n        return ary", "GRD")
s("C14", "typeerror-instead", DET, "                    raise ValueError(\n                        \"Column-dimension of new data must match prior data.\"\n                    )\n\n        if ary.shape[0] != 1:", "                    raise TypeError(\n                        \"Column-dimension of new data must match prior data.\"\n                    )\n\n        if ary.shape[0] != 1:", "EXC-type")
s("C14", "array-width-not-compared", DET, "            elif self._input_col_dim is not None:\n                if ary.shape[1] != self._input_col_dim:\n                    raise ValueError(\n                        \"Column-dimension of new data must match prior data.\"\n                    )\n\n        if ary.shape[0] != 1:", "\n        if ary.shape[0] != 1:", ["GRD", "WR-once"])
s("C14", "raw-x-used-later", DD + "nndvi.py", "        X, _, _ = super()._validate_input(X, None, None)\n\n        super().update(X=X, y_true=None, y_pred=None)\n        test_batch = np.array(X)", "        raw = X\n        X, _, _ = super()._validate_input(X, None, None)\n\n        super().update(X=X, y_true=None, y_pred=None)\n        test_batch = np.array(raw)", "TNT-validate-first")
s("C14", "columns-as-set", DET, "                if not X.columns.equals(self._input_cols):\n                    raise ValueError(\n                        \"Columns of new data must match with columns of prior data.\"\n                    )\n            ary = X.values.copy()\n        else:\n            ary = copy.copy(X)\n            ary = np.array(ary)\n            if len(ary.shape) <= 1:\n                # only one", "                if set(X.columns) != set(self._input_cols):\n                    raise ValueError(\n                        \"Columns of new data must match with columns of prior data.\"\n                    )\n            ary = X.values.copy()\n        else:\n            ary = copy.copy(X)\n            ary = np.array(ary)\n            if len(ary.shape) <= 1:\n                # only one", "GRD")
s("C14", "reset-forgets-columns", DET, "        self.samples_since_reset = 0\n        self.drift_state = None\n", "        self.samples_since_reset = 0\n        self.drift_state = None\n        self._input_cols = None\n        self._input_col_dim = None\n", "WR")
s("C14", "rejected-batch-clears-columns", DET, "        if ary.shape[0] <= 1:\n            raise ValueError(\n                \"Input for batch detectors should contain more than one observation.\"", "        if ary.shape[0] <= 1:\n            if self.total_batches == 0:\n                self._input_cols = None\n                self._input_col_dim = None\n            raise ValueError(\n                \"Input for batch detectors should contain more than one observation.\"", "EXC-commit")
s("C14", "rejected-sample-clears-width", DET, "        if ary.shape[0] != 1:\n            raise ValueError(\n                \"Input for streaming detectors should contain only one observation.\"\n            )\n        return ary", "        if ary.shape[0] != 1:\n            self._input_col_dim = None\n            raise ValueError(\n                \"Input for streaming detectors should contain only one observation.\"\n            )\n        return ary", "EXC-commit")
s("C14", "batch-one-row-ok", DET, "        if ary.shape[0] <= 1:\n            raise ValueError(\n                \"Input for batch detectors should contain more than one observation.\"\n            )", "        if ary.shape[0] < 1:\n            raise ValueError(\n                \"Input for batch detectors should contain more than one observation.\"\n            )", "GRD")
s("C14", "kdq-store-before-validate", DD + "kdq_tree.py", "        X, _, _ = super()._validate_input(X, None, None)\n        StreamingDetector.update(self, X, None, None)\n        ary = copy.deepcopy(X)", "        self._last_input = X\n        X, _, _ = super()._validate_input(X, None, None)\n        StreamingDetector.update(self, X, None, None)\n        ary = copy.deepcopy(X)", ["TNT-validate-first", "EXC-commit"])
s("C14", "revert-fix-kf4", DD + "cdbd.py", "        if len(np.shape(X)) > 1 and np.shape(X)[1] != 1:\n            raise ValueError(\"CDBD should only be used to monitor 1 variable.\")\n        super().update(X, None, None)", "        if len(X.shape) > 1 and X.shape[1] != 1:\n            raise ValueError(\"CDBD should only be used to monitor 1 variable.\")\n        super().update(X, None, None)", "TNT-validate-first")
s("C14", "batch-y-column-test-dropped", DET, "        if ary.shape[1] != 1:\n            raise ValueError(\"y input for detectors should contain only one column.\")\n", "", "GRD")
b(["C14", "C15"], "validate-x-temp", DET, "            ary = copy.copy(X)\n            ary = np.array(ary)\n            if len(ary.shape) <= 1:\n                # only one", "            ary = np.array(copy.copy(X))\n            if len(ary.shape) <= 1:\n                # only one")
b(["C14"], "rowcount-flip", DET, "        if ary.shape[0] != 1:\n            raise ValueError(\n                \"Input for streaming", "        if 1 != ary.shape[0]:\n            raise ValueError(\n                \"Input for streaming")

# ---------------------------------------------------------------- C15
INJ = IN + "injector.py"
LM = IN + "label_manipulation.py"
s("C15", "revert-fix8", DET, "            ary = X.values.copy()\n        else:\n            ary = copy.copy(X)\n            ary = np.array(ary)\n            if len(ary.shape) <= 1:\n                # only one", "            ary = X.values\n        else:\n            ary = copy.copy(X)\n            ary = np.array(ary)\n            if len(ary.shape) <= 1:\n                # only one", "ESC")
s("C15", "revert-fix7", LM, "        class_probabilities = dict(class_probabilities)\n", "", "ESC-mutate")
s("C15", "preprocess-asarray", INJ, "        copy = np.copy(data)", "        copy = np.asarray(data)", "ESC")
s("C15", "hdm-setref-stores-raw", HDMF, "        X, _, _ = super()._validate_input(X, None, None)\n        X = pd.DataFrame(\n            X, columns=self._input_cols\n        )  # TODO: subsequent operations expect dataframes, not numpy arrays\n        # Initialize attributes\n        self.reference = copy.deepcopy(X)", "        raw = X\n        X, _, _ = super()._validate_input(X, None, None)\n        # Initialize attributes\n        self.reference = raw", "ESC-store")
s("C15", "nndvi-store-before-validate", NV, "        X, _, _ = super()._validate_input(X, None, None)\n        self.reference_batch = X", "        self.reference_batch = X\n        X, _, _ = super()._validate_input(X, None, None)", "ESC-store")
s("C15", "validate-asarray", DET, "            ary = copy.copy(X)\n            ary = np.array(ary)\n            if len(ary.shape) <= 1:\n                # Batch size", "            ary = np.asarray(X)\n            if len(ary.shape) <= 1:\n                # Batch size", "ESC")
s("C15", "labelswap-through-data", LM, "        ret[class_1_idx, target_col] = class_2\n", "        data[class_1_idx, target_col] = class_2\n", "ESC-mutate")
s("C15", "injector-returns-input", IN + "feature_manipulation.py", "        # swap columns\n        ret[from_index:to_index, [col_1, col_2]] = ret[\n            from_index:to_index, [col_2, col_1]\n        ]\n\n        # handle type and return\n        ret = self._postprocess(ret)\n        return ret", "        if from_index == to_index:\n            return data\n        # swap columns\n        ret[from_index:to_index, [col_1, col_2]] = ret[\n            from_index:to_index, [col_2, col_1]\n        ]\n\n        # handle type and return\n        ret = self._postprocess(ret)\n        return ret", "ESC-return")
s("C15", "cusum-stream-raw", CD + "cusum.py", "        X, _, _ = super()._validate_input(X, None, None)\n        if len(X.shape) > 1 and X.shape[1] != 1:\n            raise ValueError(\"CUSUM should only be used to monitor 1 variable.\")\n        super().update(X, None, None)\n        self._stream.append(X)", "        raw = X\n        X, _, _ = super()._validate_input(X, None, None)\n        if len(X.shape) > 1 and X.shape[1] != 1:\n            raise ValueError(\"CUSUM should only be used to monitor 1 variable.\")\n        super().update(X, None, None)\n        self._stream.append(raw)", "ESC-store")
s("C15", "columns-not-reset", INJ, "        if isinstance(data, np.ndarray):\n            self._columns = None\n            column_idxs = columns", "        if isinstance(data, np.ndarray):\n            column_idxs = columns", "LIVE")
s("C15", "validate-y-asarray", DET, "        ary = np.array(y).ravel()\n        if ary.shape != (1,):", "        ary = np.asarray(y).ravel()\n        if ary.shape != (1,):", "ESC")
s2("C15", "kdq-view-chain", DET, [("            ary = copy.copy(X)\n            ary = np.array(ary)\n            if len(ary.shape) <= 1:\n                # only one", "            ary = np.asarray(X)\n            if len(ary.shape) <= 1:\n                # only one")], "ESC")
b(["C15"], "hdm-no-deepcopy", HDMF, "        self.reference = copy.deepcopy(X)\n        self.reset()", "        self.reference = X\n        self.reset()")
b(["C15", "C20"], "preprocess-array-copy", INJ, "        copy = np.copy(data)", "        copy = np.array(data, copy=True)")

# ---------------------------------------------------------------- C16
s("C16", "ddm-int-ypred", CO + "ddm.py", "        classifier_result = int(y_pred != y_true)", "        classifier_result = int(y_pred != y_true) if int(y_pred) >= 0 else 1", "TNT-label")
s("C16", "stepd-pred-equals-one", CO + "stepd.py", "        classifier_result = int(y_pred == y_true)", "        classifier_result = int(y_pred == 1)", ["TNT-label", "ROLE"])
s("C16", "eddm-truthiness", CO + "eddm.py", "        if not classifier_result:\n            self._n_errors += 1", "        if not classifier_result or not y_pred:\n            self._n_errors += 1", "TNT-label")
s("C16", "lfr-float-coercion", CO + "lfr.py", "        y_p = 1 * y_pred\n", "        y_p = y_pred\n", "TNT-label")
s("C16", "cusum-reads-ytrue", CD + "cusum.py", "        self._stream.append(X)\n", "        self._stream.append(X if y_true is None else X - y_true)\n", "TNT-unused")
s("C16", "ddm-reads-x", CO + "ddm.py", "        if self.samples_since_reset < self.n_threshold:\n            return\n", "        if self.samples_since_reset < self.n_threshold or X is not None:\n            return\n", "TNT-unused")
s("C16", "revert-fix2", AA, "        y_true, y_pred = y_true[0], y_pred[0]\n        new_value = int(y_true == y_pred)", "        new_value = int(y_true == y_pred)\n        y_true, y_pred = y_true[0], y_pred[0]", ["TNT-label", "ROLE"])
s("C16", "validate-cast-pred", DET, "        if y_pred is not None:\n            y_pred = self._validate_y(y_pred)\n        return X, y_true, y_pred\n\n    @property\n    def total_samples", "        if y_pred is not None:\n            y_pred = self._validate_y(y_pred)\n            if y_true is not None and y_pred.dtype != y_true.dtype:\n                y_pred = y_pred.astype(y_true.dtype)\n        return X, y_true, y_pred\n\n    @property\n    def total_samples", "TNT-label")
s("C16", "nndvi-uses-ypred", NV, "        test_batch = np.array(X)\n", "        test_batch = np.array(X) if y_pred is None else np.array(X)[: len(y_pred)]\n", "TNT-unused")
b(["C16"], "ddm-indicator-swapped", CO + "ddm.py", "classifier_result = int(y_pred != y_true)", "classifier_result = int(y_true != y_pred)")
b(["C16", "C05"], "eddm-temp-agree", CO + "eddm.py", "        classifier_result = int(y_pred == y_true)", "        same = y_pred == y_true\n        classifier_result = int(same)")

# ---------------------------------------------------------------- C17
s("C17", "kdq-quantile-alpha", KD, 'return np.quantile(critical_distances, 1 - self.alpha, method="nearest")', 'return np.quantile(critical_distances, self.alpha, method="nearest")', "POL")
s("C17", "stepd-drift-gt", CO + "stepd.py", "if accuracy_decreased and self._test_p < self.alpha_drift:", "if accuracy_decreased and self._test_p > self.alpha_drift:", "POL")
s("C17", "hdm-alpha-half", HDMF, "                1 - (self.significance / 2), self.reference_n + test_n - 2", "                (self.significance / 2), self.reference_n + test_n - 2", "POL")
s("C17", "lfr-lower-bound-upper-level", LF, "lb_detect = np.percentile(result_vector, q=detect_level * 100)", "lb_detect = np.percentile(result_vector, q=100 - detect_level * 100)", "POL")
s("C17", "eddm-drift-ge", CO + "eddm.py", "if self._test_statistic <= self.drift_thresh:", "if self._test_statistic >= self.drift_thresh:", "POL")
s("C17", "eddm-maximum-held-while-recs-open", CO + "eddm.py", "            if self._max_numerator < curr_numerator:\n", "            if self._retraining_recs[0] is None and self._max_numerator < curr_numerator:\n", "TNT-warning")
s("C17", "ddm-minimum-held-while-recs-open", CO + "ddm.py", "            <= self._error_rate_min + self._error_std_min\n", "            <= self._error_rate_min + self._error_std_min\n            and self._retraining_recs[0] is None\n", "TNT-warning")
s("C17", "cusum-alarm-lt", CD + "cusum.py", "                if self._upper_bound[self.samples_since_reset] > self.threshold:\n                    self.drift_state = \"drift\"\n            elif self.direction == \"negative\"", "                if self._upper_bound[self.samples_since_reset] < self.threshold:\n                    self.drift_state = \"drift\"\n            elif self.direction == \"negative\"", "POL")
s("C17", "ddm-scale-in-minimum", CO + "ddm.py", "            <= self._error_rate_min + self._error_std_min\n", "            <= self._error_rate_min + self.drift_scale * self._error_std_min\n", "TNT-threshold")
s("C17", "ddm-drift-under-warning", CO + "ddm.py", "        if (\n            self._error_rate + self._error_std\n            >= self._error_rate_min + self.drift_scale * self._error_std\n        ):\n            self.drift_state = \"drift\"\n        elif (\n            self._error_rate + self._error_std\n            >= self._error_rate_min + self.warning_scale * self._error_std\n        ):\n            self.drift_state = \"warning\"", "        if (\n            self._error_rate + self._error_std\n            >= self._error_rate_min + self.warning_scale * self._error_std\n        ) and (\n            self._error_rate + self._error_std\n            >= self._error_rate_min + self.drift_scale * self._error_std\n        ):\n            self.drift_state = \"drift\"\n        elif (\n            self._error_rate + self._error_std\n            >= self._error_rate_min + self.warning_scale * self._error_std\n        ):\n            self.drift_state = \"warning\"", "TNT-warning")
s("C17", "nndvi-alpha-sampling", NV, "            M_nnps, v_ref, v_test, self.sampling_times, self.alpha\n", "            M_nnps, v_ref, v_test, int(self.sampling_times * (1 + self.alpha)), self.alpha\n", "TNT-threshold")
s("C17", "adwin-delta-mult", AD, "                2 * log(n_elements) / self.delta\n", "                2 * log(n_elements) * self.delta\n", "POL")
s("C17", "ddm-min-frozen-in-warning", CO + "ddm.py", "        if (\n            self._error_rate + self._error_std\n            <= self._error_rate_min + self._error_std_min\n        ):", "        if self.drift_state != \"warning\" and (\n            self._error_rate + self._error_std\n            <= self._error_rate_min + self._error_std_min\n        ):", "TNT-warning")
s("C17", "hdm-stdev-minus", HDMF, "            beta = epsilon_hat + self.significance * stdev", "            beta = epsilon_hat - self.significance * stdev", "POL")
s("C17", "kdq-counter-grows-when-below", KD, "                elif input_type == \"stream\":\n                    self._drift_counter = 0\n", "                elif input_type == \"stream\":\n                    self._drift_counter = max(0, self._drift_counter - 1)\n", "TNT-threshold")
s("C17", "eddm-warning-lt-flip", CO + "eddm.py", "            elif self._test_statistic <= self.warning_thresh:", "            elif self._test_statistic >= self.warning_thresh:", "POL")
s("C17", "stepd-stat-uses-alpha", CO + "stepd.py", "            self._test_p = 1 - scipy.stats.norm.cdf(\n                self._test_statistic, 0, 1\n            )", "            self._test_p = 1 - scipy.stats.norm.cdf(\n                self._test_statistic, 0, 1 + self.alpha_drift\n            )", ["TNT-threshold", "POL", "ANALYSIS-ERROR"])

# ---------------------------------------------------------------- C18
s("C18", "hdm-half-batch", HDMF, "        super().update(X, None, None)\n        test_n = X.shape[0]", "        super().update(X, None, None)\n        X = X.iloc[: len(X) // 2]\n        test_n = X.shape[0]", "TNT-order")
s("C18", "hdm-strided-histogram", HDMF, "                dataset.iloc[:, f],\n                bins=self._bins,", "                dataset.iloc[::2, f],\n                bins=self._bins,", "TNT-order")
s("C18", "kdq-fill-head", KD, "            self._kdqtree.fill(ary, tree_id=\"test\", reset=(input_type == \"batch\"))", "            self._kdqtree.fill(ary[: len(ary) // 2], tree_id=\"test\", reset=(input_type == \"batch\"))", "TNT-order")
s("C18", "revert-fix10", NS, "        v1, v2 = inverted_indices[: len(sample1)], inverted_indices[len(sample1) :]", "        v1, v2 = np.array_split(inverted_indices, 2)", "TNT-order")
s("C18", "nndvi-first-rows", NV, "        test_batch = np.array(X)\n", "        test_batch = np.array(X)[:100]\n", "TNT-order")
s("C18", "kdq-build-stop-prefix", KP, "            or np.unique(data).size <= count_ubound\n", "            or np.unique(data[: count_ubound + 1]).size <= count_ubound\n", "TNT-order")
s("C18", "nnsp-arrival-order", NS, "        D, inverted_indices = np.unique(data, axis=0, return_inverse=True)\n        self.D = D", "        D, first_idx, inverted_indices = np.unique(data, axis=0, return_index=True, return_inverse=True)\n        D = data[np.sort(first_idx)]\n        self.D = D", "TNT-order")
s("C18", "hdm-first-row-range", HDMF, "            mins.append(np.concatenate((reference_variable, test_variable)).min())", "            mins.append(min(reference_variable.min(), test_variable.iloc[0]))", "TNT-order")
s("C18", "kdq-midpoint-first-row", KP, "        min_value_at_axis = np.min(data[:, axis])", "        min_value_at_axis = data[0, axis]", "TNT-order")
b(["C18"], "hdm-shape-rows", HDMF, "        test_n = X.shape[0]", "        test_n = len(X)")

# ---------------------------------------------------------------- C19
MD = CO + "md3.py"
s("C19", "no-waiting-flag", MD, "            self.drift_state = \"warning\"\n            self.waiting_for_oracle = True", "            self.drift_state = \"warning\"", "PAIR")
s("C19", "flag-not-cleared", MD, "            self.oracle_data = None\n            self.waiting_for_oracle = False", "            self.oracle_data = None", ["ROLE", "PAIR"])
s("C19", "label-count-ge", MD, "        if len(self.oracle_data) == self.oracle_data_length_required:", "        if len(self.oracle_data) >= self.oracle_data_length_required - 1:", "GRD")
s("C19", "write-before-refusal", MD, "        if len(X) != 1:\n            raise ValueError(", "        self.last_seen = X\n        if len(X) != 1:\n            raise ValueError(", "EXC-commit")
s("C19", "drift-level-lt", MD, "            if drift_level > drift_threshold:", "            if drift_level < drift_threshold:", "GRD")
s("C19", "forgetting-inverted", MD, "        self.forgetting_factor = (\n            self.reference_distribution[\"len\"] - 1\n        ) / self.reference_distribution[\"len\"]", "        self.forgetting_factor = self.reference_distribution[\"len\"] / (\n            self.reference_distribution[\"len\"] + 1\n        )", "FRM")
s("C19", "reset-keeps-density", MD, "        super().reset()\n        self.curr_margin_density = self.reference_distribution[\"md\"]", "        super().reset()", "MC")
s("C19", "setref-conditional-density", MD, "        self.curr_margin_density = self.reference_distribution[\"md\"]\n\n    def calculate_distribution_statistics", "        if self.oracle_data is None:\n            self.curr_margin_density = self.reference_distribution[\"md\"]\n\n    def calculate_distribution_statistics", "MC")
s("C19", "clear-state-before-column-check", MD, "        labeled_columns = list(labeled_sample.columns)", "        self.drift_state = None\n        labeled_columns = list(labeled_sample.columns)", "EXC-commit")
s("C19", "warning-no-abs", MD, "        warning_level = np.abs(\n            self.curr_margin_density - self.reference_distribution[\"md\"]\n        )", "        warning_level = (\n            self.curr_margin_density - self.reference_distribution[\"md\"]\n        )", "GRD")
s("C19", "recurrence-weights-swapped", MD, "            self.forgetting_factor * self.curr_margin_density\n            + (1 - self.forgetting_factor) * margin_inclusion_signal", "            (1 - self.forgetting_factor) * self.curr_margin_density\n            + self.forgetting_factor * margin_inclusion_signal", "FRM")
s("C19", "drift-uses-md-std", MD, 'drift_threshold = self.sensitivity * self.reference_distribution["acc_std"]', 'drift_threshold = self.sensitivity * self.reference_distribution["md_std"]', "GRD")
s("C19", "update-allowed-while-waiting", MD, "        if self.waiting_for_oracle == True:\n            raise ValueError(", "        if self.waiting_for_oracle == True and self.oracle_data is not None:\n            raise ValueError(", "TAB-protocol")
s("C19", "new-reference-before-judging", MD, "            if drift_level > drift_threshold:\n                self.drift_state = \"drift\"\n\n            # update reference distribution\n            self.set_reference(self.oracle_data, target_name=target_column[0])", "            # update reference distribution\n            self.set_reference(self.oracle_data, target_name=target_column[0])\n            drift_threshold = self.sensitivity * self.reference_distribution[\"acc_std\"]\n            drift_level = self.reference_distribution[\"acc\"] - acc_labeled_samples\n            if drift_level > drift_threshold:\n                self.drift_state = \"drift\"", ["ORD", "GRD"])
s("C19", "columns-count-only", MD, "        if len(labeled_columns) != len(reference_columns) or set(\n            labeled_columns\n        ) != set(reference_columns):", "        if len(labeled_columns) != len(reference_columns):", "GRD")
b(["C19"], "warning-flip", MD, "        if warning_level > warning_threshold:", "        if warning_threshold < warning_level:")
b(["C19"], "waiting-truthy", MD, "        if self.waiting_for_oracle != True:", "        if not (self.waiting_for_oracle == True):")

# ---------------------------------------------------------------- C20
FM = IN + "feature_manipulation.py"
NZ = IN + "noise.py"
s("C20", "shift-whole-column", FM, "        ret[from_index:to_index, col] = np.add(\n            ret[from_index:to_index, col], self._delta\n        )", "        ret[:, col] = np.add(\n            ret[:, col], self._delta\n        )", "FRAME")
s("C20", "join-no-window-filter", LM, "        class_idx = class_idx[(class_idx < to_index) & (class_idx >= from_index)]\n        ret[class_idx, target_col] = new_class", "        ret[class_idx, target_col] = new_class", "FRAME")
s("C20", "swap-through-data", LM, "        ret[class_2_idx, target_col] = class_1\n", "        data[class_2_idx, target_col] = class_1\n", ["FRM", "ROLE", "FRAME"])
s("C20", "swap-second-index-late", LM, "        class_2_idx = np.where(ret[:, target_col] == class_2)[0]\n        class_2_idx = class_2_idx[\n            (class_2_idx < to_index) & (class_2_idx >= from_index)\n        ]\n        ret[class_1_idx, target_col] = class_2\n        ret[class_2_idx, target_col] = class_1", "        ret[class_1_idx, target_col] = class_2\n        class_2_idx = np.where(ret[:, target_col] == class_2)[0]\n        class_2_idx = class_2_idx[\n            (class_2_idx < to_index) & (class_2_idx >= from_index)\n        ]\n        ret[class_2_idx, target_col] = class_1", "FRM")
s("C20", "no-postprocess", FM, "        # swap columns\n        ret[from_index:to_index, [col_1, col_2]] = ret[\n            from_index:to_index, [col_2, col_1]\n        ]\n\n        # handle type and return\n        ret = self._postprocess(ret)\n        return ret", "        # swap columns\n        ret[from_index:to_index, [col_1, col_2]] = ret[\n            from_index:to_index, [col_2, col_1]\n        ]\n\n        return ret", "MC")
s("C20", "shift-sign", FM, "self._delta = (alpha + self._section_mean) * shift_factor", "self._delta = (alpha - self._section_mean) * shift_factor", "FRM")
s("C20", "swap-same-order", FM, "        ret[from_index:to_index, [col_1, col_2]] = ret[\n            from_index:to_index, [col_2, col_1]\n        ]", "        ret[from_index:to_index, [col_1, col_2]] = ret[\n            from_index:to_index, [col_1, col_2]\n        ]", "FRM")
s("C20", "walk-zeros", NZ, "        w = np.ones(steps) * x0", "        w = np.zeros(steps)", "FRM")
s("C20", "window-inclusive", LM, "        class_idx = class_idx[(class_idx < to_index) & (class_idx >= from_index)]", "        class_idx = class_idx[(class_idx <= to_index) & (class_idx >= from_index)]", "FRAME")
s("C20", "noise-other-column", NZ, "        ret[from_index:to_index, col] = ret[\n            from_index:to_index, col\n        ] + BrownianNoiseInjector", "        ret[from_index:to_index, col] = ret[\n            from_index:to_index, 0\n        ] + BrownianNoiseInjector", "FRM")
s("C20", "probability-pool-unfiltered", LM, "            sample_idxs_grouped.extend(cls_idx)", "            sample_idxs_grouped.extend(cls_idx if cls_idx.shape[0] else np.where(ret[:, target_col] == cls)[0])", "FRAME")
s("C20", "postprocess-always-df", INJ, "        elif self._columns is None and isinstance(data, pd.DataFrame):\n            return data.to_numpy()", "        elif self._columns is None and isinstance(data, pd.DataFrame):\n            return data", "TAB")
s("C20", "shift-mean-whole-column", FM, "        self._section_mean = np.mean(ret[from_index:to_index, col])", "        self._section_mean = np.mean(ret[:, col])", "FRM")
s("C20", "walk-step-size", NZ, "            w[i] = w[i - 1] + (yi / np.sqrt(steps))", "            w[i] = w[i - 1] + (yi / steps)", "FRM")
s("C20", "cover-keeps-column", FM, "        ret = ret.drop(columns=[col]).reset_index(drop=True)", "        ret = ret.reset_index(drop=True)", "FRM")
s("C20", "columns-not-reset", INJ, "        if isinstance(data, np.ndarray):\n            self._columns = None\n            column_idxs = columns", "        if isinstance(data, np.ndarray):\n            column_idxs = columns", "LIVE")
b(["C20"], "shift-plain-add", FM, "        ret[from_index:to_index, col] = np.add(\n            ret[from_index:to_index, col], self._delta\n        )", "        ret[from_index:to_index, col] = ret[from_index:to_index, col] + self._delta")
b(["C20"], "window-mask-flip", LM, "        class_idx = class_idx[(class_idx < to_index) & (class_idx >= from_index)]", "        class_idx = class_idx[(class_idx >= from_index) & (to_index > class_idx)]")

# ---------------------------------------------------------------- C17: order statistic instead of np.quantile (found by two independent seeds)
_KQ_OLD = '        critical_distances = [scipy.stats.entropy(a, b) for a, b in b_dist_pairs]\n        return np.quantile(critical_distances, 1 - self.alpha, method="nearest")'
s("C17", "kdq-order-statistic-wraps", DD + "kdq_tree.py", _KQ_OLD,
  '        critical_distances = np.sort([scipy.stats.entropy(a, b) for a, b in b_dist_pairs])\n        return critical_distances[-int(self.alpha * len(critical_distances))]', "POL")
b(["C17"], "kdq-order-statistic-clamped", DD + "kdq_tree.py", _KQ_OLD,
  '        critical_distances = np.sort([scipy.stats.entropy(a, b) for a, b in b_dist_pairs])\n        return critical_distances[-max(1, int(self.alpha * len(critical_distances)))]')
