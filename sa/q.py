"""Query helpers shared by the rule modules."""
import ast
from fractions import Fraction

from . import terms as T
from .terms import R, atom, const
from .evalr import Evaluator, State, Frame
from .loader import AnalysisError

# --------------------------------------------------------------------------
# detector table (discovered from the class hierarchy, floor checked)

BASES = ("StreamingDetector", "BatchDetector", "DriftDetector")

COUNTERS = {
    "StreamingDetector": ("_total_samples", "_samples_since_reset"),
    "BatchDetector": ("_total_batches", "_batches_since_reset"),
    "DriftDetector": ("_total_updates", "_updates_since_reset"),
}

PUBLIC_DETECTORS = [
    "ADWIN", "ADWINAccuracy", "CUSUM", "PageHinkley", "DDM", "EDDM", "STEPD",
    "LinearFourRates", "MD3", "KdqTreeStreaming", "KdqTreeBatch", "HDDDM",
    "CDBD", "NNDVI", "PCACD",
]
ENSEMBLES = ["StreamingEnsemble", "BatchEnsemble"]


def base_of(prog, ci):
    for c in ci.mro:
        if c.name in BASES:
            return c
    return None


def detectors(prog):
    """Concrete detector classes: MRO contains a detector base, defines or
    inherits a concrete (non-abstract) update."""
    out = []
    for ci in prog.classes.values():
        b = base_of(prog, ci)
        if b is None or ci.name in BASES:
            continue
        up = prog.lookup(ci, "update")
        if up is None or up.cls.name in BASES:
            continue
        out.append(ci)
    return sorted(out, key=lambda c: c.name)


def public_detectors(ctx):
    found = {c.name for c in detectors(ctx.prog)}
    missing = [n for n in PUBLIC_DETECTORS if n not in found]
    ctx.require(not missing, "detector classes %s" % missing)
    extra = sorted(found - set(PUBLIC_DETECTORS) - set(ENSEMBLES) - {"HistogramDensityMethod"})
    return [ctx.prog.cls(n) for n in PUBLIC_DETECTORS], extra


def counters(prog, ci):
    b = base_of(prog, ci)
    return COUNTERS[b.name]


# --------------------------------------------------------------------------
# term helpers

def A(name):
    return atom(("attr", name))


def P(name):
    return atom(("param", name))


def conjuncts(t):
    a = t.single_atom()
    if a is not None and a[0] == "and":
        out = []
        for x in a[1]:
            out.extend(conjuncts(x))
        return out
    return [t]


def disjuncts(t):
    a = t.single_atom()
    if a is not None and a[0] == "or":
        out = []
        for x in a[1]:
            out.extend(disjuncts(x))
        return out
    return [t]


def guards(ev):
    """All conjuncts of the conditions that dominate an event."""
    out = []
    for p in ev.pc:
        out.extend(conjuncts(p.cond))
    return out


def ite_leaves(t, conds=()):
    a = t.single_atom()
    if a is not None and a[0] == "ite":
        yield from ite_leaves(a[2], conds + (a[1],))
        yield from ite_leaves(a[3], conds + (T.mk_not(a[1]),))
    else:
        yield conds, t


def is_cmp(t):
    a = t.single_atom()
    return a if a is not None and a[0] == "cmp" else None


def int_valued(d, intatoms):
    """Is the polynomial d integer valued given integer atoms?"""
    if d.den != (((), Fraction(1)),):
        return False
    for m, c in d.num:
        if c.denominator != 1:
            return False
        for a, p in m:
            if not intatoms(a):
                return False
    return True


def default_int(a):
    if a[0] == "attr":
        n = a[1]
        return n.startswith("_total_") or n.endswith("_since_reset") or n in INT_ATTRS
    if a[0] == "call" and a[1] == "len":
        return True
    if a[0] in ("loopvar", "idx"):
        return False
    return False


INT_ATTRS = {
    "burn_in", "n_threshold", "window_size", "new_sample_thresh", "window_size_thresh",
    "subwindow_size_thresh", "_window_size", "_n_errors", "_test_data_size", "_drift_counter",
    "subsample", "_lambda", "detect_batch", "oracle_data_length_required", "max_buckets",
    "bucket_count", "approvals_needed", "confirmations_needed", "sensitivity", "wait_time", "step",
}


def norm_cmp(t, intatoms=default_int):
    """(op, diff) with integer >= turned into >."""
    a = is_cmp(t)
    if a is None:
        return None
    op, d = a[1], a[2]
    if op == ">=" and int_valued(d, intatoms):
        return (">", d + const(1))
    return (op, d)


def cmp_equiv(t1, t2, intatoms=default_int):
    """Are two comparison terms the same predicate (up to positive scaling,
    integer normalisation)?"""
    if t1 == t2:
        return True
    n1, n2 = norm_cmp(t1, intatoms), norm_cmp(t2, intatoms)
    if n1 is None or n2 is None:
        return False
    if n1[0] != n2[0]:
        return False
    if n1[0] in ("==", "!="):
        return T.same(n1[1], n2[1]) or T.same(n1[1], -n2[1])
    return T.same_up_to_pos_scale(n1[1], n2[1])


def pred_equiv(t1, t2, intatoms=default_int):
    """Equivalence of two boolean terms built from and/or/cmp (order
    insensitive, cmp compared with cmp_equiv)."""
    if t1 == t2:
        return True
    a1, a2 = t1.single_atom(), t2.single_atom()
    if a1 is None or a2 is None:
        return False
    if a1[0] == "cmp" and a2[0] == "cmp":
        return cmp_equiv(t1, t2, intatoms)
    if a1[0] in ("and", "or") and a1[0] == a2[0] and len(a1[1]) == len(a2[1]):
        rest = list(a2[1])
        for x in a1[1]:
            for i, y in enumerate(rest):
                if pred_equiv(x, y, intatoms):
                    del rest[i]
                    break
            else:
                return False
        return True
    return False


def has_guard(ev, spec, intatoms=default_int):
    for g in guards(ev):
        if pred_equiv(g, spec, intatoms):
            return True
    return False


def guard_set_implies(ev, specs, intatoms=default_int):
    """Every spec conjunct is among the event's guards; returns the missing ones."""
    gs = guards(ev)
    missing = []
    for s in specs:
        if not any(pred_equiv(g, s, intatoms) for g in gs):
            missing.append(s)
    return missing


# --------------------------------------------------------------------------
# spec expressions: python expression text -> term, names bound by a table

_spec_prog = None


class _SpecEval(Evaluator):
    pass


def S(expr, env=None, prog=None):
    """Parse a documented formula written as a Python expression into a
    term.  Free names must be bound in env (name -> term); `A_x` is shorthand
    for self.x at entry, `P_x` for parameter x."""
    env = dict(env or {})
    node = ast.parse(expr, mode="eval").body
    for n in ast.walk(node):
        if isinstance(n, ast.Name) and n.id not in env:
            if n.id.startswith("A_"):
                env[n.id] = A(n.id[2:])
            elif n.id.startswith("P_"):
                env[n.id] = P(n.id[2:])
    from .loader import FuncInfo, ModuleInfo
    global _spec_prog
    if _spec_prog is None:
        mi = ModuleInfo("spec", "spec.py", "spec.py", "import numpy as np\nimport scipy.stats\nfrom numpy import sqrt, log\ndef f():\n    pass\n")

        class _P:
            classes = {}
            modules = {}
            def dotted(self, m, e):
                parts = []
                while isinstance(e, ast.Attribute):
                    parts.append(e.attr)
                    e = e.value
                if isinstance(e, ast.Name) and e.id in mi.imports:
                    return ".".join([mi.imports[e.id]] + parts[::-1])
                return None
            def class_by_dotted(self, d):
                return None
            def func_by_dotted(self, d):
                return None
        mi.imports = {"np": "numpy", "scipy": "scipy", "sqrt": "numpy.sqrt", "log": "numpy.log"}
        fi = FuncInfo(mi.tree.body[-1], mi)
        _spec_prog = (_P(), fi)
    p, fi = _spec_prog
    ev = _SpecEval(p, None)
    ev.silent = 1
    ev.frames.append(Frame(fi, None, False, None, 0))
    st = State({}, env)
    return ev.ev(node, st)


def find_calls(tr, name):
    """Call events whose callee FuncInfo has the given qualname."""
    return [e for e in tr.events if e.kind == "call" and e.d.get("fi") is not None and e.fi.qualname == name]


def in_func(ev, qualname):
    return ev.func is not None and ev.func.qualname == qualname


def stack_has(ev, qualname):
    return any(f.qualname == qualname for f in ev.stack)


def pretty(t):
    return T.pretty(t)


def short(t, n=160):
    s = T.pretty(t)
    return s if len(s) <= n else s[: n - 3] + "..."
