"""Query helpers shared by the rule modules."""
import ast
from fractions import Fraction

from . import terms as T
from .terms import R, atom, const
from .evalr import Evaluator, State, Frame
from .loader import AnalysisError

# --------------------------------------------------------------------------
# detector table (discovered from the class hierarchy, floor checked)

BASES = ("StreamingDetector", "BatchDetector", "DriftDetector")

COUNTERS = {
    "StreamingDetector": ("_total_samples", "_samples_since_reset"),
    "BatchDetector": ("_total_batches", "_batches_since_reset"),
    "DriftDetector": ("_total_updates", "_updates_since_reset"),
}

PUBLIC_DETECTORS = [
    "ADWIN", "ADWINAccuracy", "CUSUM", "PageHinkley", "DDM", "EDDM", "STEPD",
    "LinearFourRates", "MD3", "KdqTreeStreaming", "KdqTreeBatch", "HDDDM",
    "CDBD", "NNDVI", "PCACD",
]
ENSEMBLES = ["StreamingEnsemble", "BatchEnsemble"]


def base_of(prog, ci):
    for c in ci.mro:
        if c.name in BASES:
            return c
    return None


def detectors(prog):
    """Concrete detector classes: MRO contains a detector base, defines or
    inherits a concrete (non-abstract) update."""
    out = []
    for ci in prog.classes.values():
        b = base_of(prog, ci)
        if b is None or ci.name in BASES:
            continue
        up = prog.lookup(ci, "update")
        if up is None or up.cls.name in BASES:
            continue
        out.append(ci)
    return sorted(out, key=lambda c: c.name)


def public_detectors(ctx):
    found = {c.name for c in detectors(ctx.prog)}
    missing = [n for n in PUBLIC_DETECTORS if n not in found]
    ctx.require(not missing, "detector classes %s" % missing)
    extra = sorted(found - set(PUBLIC_DETECTORS) - set(ENSEMBLES) - {"HistogramDensityMethod"})
    return [ctx.prog.cls(n) for n in PUBLIC_DETECTORS], extra


def counters(prog, ci):
    b = base_of(prog, ci)
    return COUNTERS[b.name]


# --------------------------------------------------------------------------
# term helpers

def A(name):
    return atom(("attr", name))


def P(name):
    return atom(("param", name))


def conjuncts(t):
    a = t.single_atom()
    if a is not None and a[0] == "and":
        out = []
        for x in a[1]:
            out.extend(conjuncts(x))
        return out
    return [t]


def disjuncts(t):
    a = t.single_atom()
    if a is not None and a[0] == "or":
        out = []
        for x in a[1]:
            out.extend(disjuncts(x))
        return out
    return [t]


def guards(ev):
    """All conjuncts of the conditions that dominate an event."""
    out = []
    for p in ev.pc:
        out.extend(conjuncts(p.cond))
    return out


def call_value(tr, callev):
    """Value returned by the inlined call `callev` (the matching exit event: same callee, one frame deeper than the call site)."""
    fi = callev.d.get("fi")
    depth = len(callev.stack) + 1
    for x in tr.events[callev.seq:]:
        if x.kind == "exit" and x.d.get("fi") is fi and len(x.stack) == depth:
            return x.d.get("value")
    return None


def guards_in(ev, qualname):
    """Conjuncts of the dominating conditions that were tested inside function `qualname` (callers' guards left out)."""
    out = []
    for p in ev.pc:
        if p.func is not None and p.func.qualname == qualname:
            out.extend(conjuncts(p.cond))
    return out


def ite_leaves(t, conds=()):
    a = t.single_atom()
    if a is not None and a[0] == "ite":
        yield from ite_leaves(a[2], conds + (a[1],))
        yield from ite_leaves(a[3], conds + (T.mk_not(a[1]),))
        return
    if a is None and not t.is_const():
        # a conditional operand of a sum or product: (c ? x : y) + z  ==  c ? x + z : y + z
        inner = sorted((x for x in t.atoms() if x[0] == "ite"), key=T.akey)
        if inner:
            it = inner[0]
            for br, cnd in ((it[2], it[1]), (it[3], T.mk_not(it[1]))):
                yield from ite_leaves(T.subst(t, lambda z: br if z == it else None), conds + (cnd,))
            return
    yield conds, t


def is_cmp(t):
    a = t.single_atom()
    return a if a is not None and a[0] == "cmp" else None


def int_valued(d, intatoms):
    """Is the polynomial d integer valued given integer atoms?"""
    if d.den != (((), Fraction(1)),):
        return False
    for m, c in d.num:
        if c.denominator != 1:
            return False
        for a, p in m:
            if not intatoms(a):
                return False
    return True


def default_int(a):
    if a[0] == "attr":
        n = a[1]
        return n.startswith("_total_") or n.endswith("_since_reset") or n in INT_ATTRS
    if a[0] == "call" and a[1] == "len":
        return True
    if a[0] in ("loopvar", "idx"):
        return False
    return False


INT_ATTRS = {
    "burn_in", "n_threshold", "window_size", "new_sample_thresh", "window_size_thresh",
    "subwindow_size_thresh", "_window_size", "_n_errors", "_test_data_size", "_drift_counter",
    "subsample", "_lambda", "detect_batch", "oracle_data_length_required", "max_buckets",
    "bucket_count", "approvals_needed", "confirmations_needed", "sensitivity", "wait_time", "step",
}


def norm_cmp(t, intatoms=default_int):
    """(op, diff) with integer >= turned into >."""
    a = is_cmp(t)
    if a is None:
        return None
    op, d = a[1], a[2]
    if op == ">=" and int_valued(d, intatoms):
        return (">", d + const(1))
    return (op, d)


def cmp_equiv(t1, t2, intatoms=default_int):
    """Are two comparison terms the same predicate (up to positive scaling,
    integer normalisation)?"""
    if t1 == t2:
        return True
    n1, n2 = norm_cmp(t1, intatoms), norm_cmp(t2, intatoms)
    if n1 is None or n2 is None:
        return False
    if n1[0] != n2[0]:
        return False
    if n1[0] in ("==", "!="):
        return T.same(n1[1], n2[1]) or T.same(n1[1], -n2[1])
    return T.same_up_to_pos_scale(n1[1], n2[1])


def pred_equiv(t1, t2, intatoms=default_int):
    """Equivalence of two boolean terms built from and/or/cmp (order
    insensitive, cmp compared with cmp_equiv)."""
    if t1 == t2:
        return True
    a1, a2 = t1.single_atom(), t2.single_atom()
    if a1 is None or a2 is None:
        return False
    if a1[0] == "cmp" and a2[0] == "cmp":
        return cmp_equiv(t1, t2, intatoms)
    if a1[0] in ("and", "or") and a1[0] == a2[0] and len(a1[1]) == len(a2[1]):
        rest = list(a2[1])
        for x in a1[1]:
            for i, y in enumerate(rest):
                if pred_equiv(x, y, intatoms):
                    del rest[i]
                    break
            else:
                return False
        return True
    return False


def has_guard(ev, spec, intatoms=default_int):
    for g in guards(ev):
        if pred_equiv(g, spec, intatoms):
            return True
    return False


def guard_set_implies(ev, specs, intatoms=default_int):
    """Every spec conjunct is among the event's guards; returns the missing ones."""
    gs = guards(ev)
    missing = []
    for s in specs:
        if not any(pred_equiv(g, s, intatoms) for g in gs):
            missing.append(s)
    return missing


# --------------------------------------------------------------------------
# spec expressions: python expression text -> term, names bound by a table

_spec_prog = None


class _SpecEval(Evaluator):
    pass


def S(expr, env=None, prog=None):
    """Parse a documented formula written as a Python expression into a
    term.  Free names must be bound in env (name -> term); `A_x` is shorthand
    for self.x at entry, `P_x` for parameter x."""
    env = dict(env or {})
    node = ast.parse(expr, mode="eval").body
    for n in ast.walk(node):
        if isinstance(n, ast.Name) and n.id not in env:
            if n.id.startswith("A_"):
                env[n.id] = A(n.id[2:])
            elif n.id.startswith("P_"):
                env[n.id] = P(n.id[2:])
    from .loader import FuncInfo, ModuleInfo
    global _spec_prog
    if _spec_prog is None:
        mi = ModuleInfo("spec", "spec.py", "spec.py", "import numpy as np\nimport scipy.stats\nfrom numpy import sqrt, log\ndef f():\n    pass\n")

        class _P:
            classes = {}
            modules = {}
            def dotted(self, m, e):
                parts = []
                while isinstance(e, ast.Attribute):
                    parts.append(e.attr)
                    e = e.value
                if isinstance(e, ast.Name) and e.id in mi.imports:
                    return ".".join([mi.imports[e.id]] + parts[::-1])
                return None
            def class_by_dotted(self, d):
                return None
            def func_by_dotted(self, d):
                return None
        mi.imports = {"np": "numpy", "scipy": "scipy", "sqrt": "numpy.sqrt", "log": "numpy.log"}
        fi = FuncInfo(mi.tree.body[-1], mi)
        _spec_prog = (_P(), fi)
    p, fi = _spec_prog
    ev = _SpecEval(p, None)
    ev.silent = 1
    ev.frames.append(Frame(fi, None, False, None, 0))
    st = State({}, env)
    return ev.ev(node, st)


def find_calls(tr, name):
    """Call events whose callee FuncInfo has the given qualname."""
    return [e for e in tr.events if e.kind == "call" and e.d.get("fi") is not None and e.fi.qualname == name]


def in_func(ev, qualname):
    return ev.func is not None and ev.func.qualname == qualname


def stack_has(ev, qualname):
    return any(f.qualname == qualname for f in ev.stack)


def within(ev, qualname, barring=()):
    """ev happens in `qualname` or in a helper it calls, but not below a call of one of the (differently purposed)
    functions named in `barring` made from there."""
    names = [f.qualname for f in ev.stack]
    if qualname not in names:
        return False
    i = len(names) - 1 - names[::-1].index(qualname)
    return not any(f.name in barring for f in ev.stack[i + 1:])


def pretty(t):
    return T.pretty(t)


def short(t, n=160):
    s = T.pretty(t)
    return s if len(s) <= n else s[: n - 3] + "..."


# --------------------------------------------------------------------------
# one-variable interval reasoning (the only arithmetic reasoning used)

def _lin1(t):
    """cmp term -> (poly_without_constant, constant, op) with op in > >= == !=."""
    a = is_cmp(t)
    if a is None:
        return None
    d = a[2]
    c = Fraction(0)
    for m, k in d.num:
        if m == ():
            c = k
    if d.den != (((), Fraction(1)),):
        return None
    p = d - const(c)
    if not p.num:
        return None
    return p, c, a[1]


def feasible(conds, integer=True, _depth=0):
    """Satisfiability of a conjunction of comparisons by interval reasoning,
    separately for each linear form (sound: True when unsure)."""
    cs = []
    for c in conds:
        cs.extend(conjuncts(c))
    # a disjunction among the conjuncts: satisfiable iff one of its cases is (bounded case split)
    for i, c in enumerate(cs):
        ds = disjuncts(c)
        if len(ds) > 1 and _depth < 6 and len(ds) <= 4:
            rest = cs[:i] + cs[i + 1:]
            return any(feasible(rest + [d], integer, _depth + 1) for d in ds)
    groups = []  # (poly, [ (sgn, const, op) ])
    for c in cs:
        if T.is_pure_const(c):
            if T.truth(c) is False:
                return False
            continue
        for d in cs:
            if d == T.mk_not(c):
                return False
        l = _lin1(c)
        if l is None:
            continue
        p, a, o = l
        for g in groups:
            if T.same(g[0], p):
                g[1].append((1, a, o))
                break
            if T.same(g[0], -p):
                g[1].append((-1, a, o))
                break
        else:
            groups.append((p, [(1, a, o)]))
    for p, cons in groups:
        isint = integer and int_valued(p, default_int)
        lo, hi = None, None  # (value, strict)
        eqs, nes = [], []
        for sg, a, o in cons:
            v = -a / sg
            if o == "==":
                eqs.append(v)
            elif o == "!=":
                nes.append(v)
            else:
                strict = o == ">"
                if sg > 0:   # v' > / >= v
                    if isint:
                        b = (v.__floor__() + 1) if strict else -((-v).__floor__())
                        b, strict = Fraction(b), False
                    else:
                        b = v
                    if lo is None or b > lo[0] or (b == lo[0] and strict):
                        lo = (b, strict)
                else:        # v' < / <= v
                    if isint:
                        b = (-((-v).__floor__()) - 1) if strict else v.__floor__()
                        b, strict = Fraction(b), False
                    else:
                        b = v
                    if hi is None or b < hi[0] or (b == hi[0] and strict):
                        hi = (b, strict)
        if len(set(eqs)) > 1:
            return False
        def inside(x):
            if lo is not None and (x < lo[0] or (x == lo[0] and lo[1])):
                return False
            if hi is not None and (x > hi[0] or (x == hi[0] and hi[1])):
                return False
            return x not in nes
        if eqs:
            if not inside(eqs[0]):
                return False
            continue
        if lo is not None and hi is not None:
            if lo[0] > hi[0] or (lo[0] == hi[0] and (lo[1] or hi[1])):
                return False
            if isint:
                pts = [Fraction(k) for k in range(int(lo[0]), int(hi[0]) + 1)] if hi[0] - lo[0] <= 8 else None
                if pts is not None and not any(inside(x) for x in pts):
                    return False
            elif lo[0] == hi[0] and lo[0] in nes:
                return False
    return True


def contradict(c1, c2, integer=True):
    return not feasible([c1, c2], integer)


def feasible_leaves(t, extra=()):
    for conds, leaf in ite_leaves(t):
        if feasible(tuple(conds) + tuple(extra)):
            yield conds, leaf


def replace_term(t, old, new):
    """Replace every occurrence of term `old` (a single-atom term) in t."""
    oa = old.single_atom()
    if oa is None:
        return t
    return T.subst(t, lambda a: new if a == oa else None)


def validated(tr, which=0):
    """The value returned by the first inlined _validate_input call, item `which`."""
    for e in tr.events:
        if e.kind == "return" and e.func.name == "_validate_input":
            a = e.value.single_atom()
            if a is not None and a[0] == "tuple":
                return a[1][which]
    return None


_dummy = None


def sub(base, idx):
    """Subscript term with the evaluator's simplifications (distribution over gated phis ...)."""
    global _dummy
    if _dummy is None:
        _dummy = Evaluator.__new__(Evaluator)
    if not isinstance(idx, R):
        idx = const(idx)
    return Evaluator.mk_sub(_dummy, base, idx)


def unmut(t):
    """See through in-place mutation wrappers to the object that was mutated."""
    def f(a):
        if a[0] in ("mutated", "setitem", "appended"):
            return a[1]
        if a[0] == "objstate":
            return a[2]
        return None
    prev = None
    while prev != t:
        prev = t
        t = T.subst(t, f)
    return t


# --------------------------------------------------------------------------
# TAB: evaluation of a term over one cell of a finite partition

class Undecided(Exception):
    pass


def eval_cell(t, env):
    """Value of term t when the atoms in env (atom -> python value) take the
    given values.  Only constant folding: arithmetic, floordiv/mod,
    comparisons, boolean structure, gated phis.  Raises Undecided when an
    atom is not bound."""
    if isinstance(t, R):
        a = t.single_atom()
        if a is not None and (a in env or a[0] in ("const", "cmp", "and", "or", "not", "ite", "floordiv", "mod", "in", "notin") or
                              (a[0] == "call" and a[1] in ("max", "min"))):
            return _eval_atom(a, env)
        def poly(p):
            acc = Fraction(0)
            for m, c in p:
                v = Fraction(c)
                for x, pw in m:
                    xv = _eval_atom(x, env)
                    if isinstance(xv, bool):
                        xv = int(xv)
                    if not isinstance(xv, (int, Fraction)):
                        raise Undecided("non-numeric value in arithmetic: %r" % (xv,))
                    v *= Fraction(xv) ** pw
                acc += v
            return acc
        n = poly(t.num)
        if t.den != (((), Fraction(1)),):
            d = poly(t.den)
            if d == 0:
                raise Undecided("division by zero")
            n = n / d
        return int(n) if n.denominator == 1 else n
    raise Undecided("not a term")


def _eval_atom(a, env):
    if a in env:
        return env[a]
    k = a[0]
    if k == "const":
        return a[1]
    if k == "call" and a[1] in ("max", "min") and len(a[2]) >= 2 and not a[3]:
        vals = [eval_cell(x, env) for x in a[2]]
        return max(vals) if a[1] == "max" else min(vals)
    if k == "cmp":
        op, d = a[1], a[2]
        # symbolic constants compare by identity: evaluate both sides of d = lhs - rhs
        pos, neg = [], []
        try:
            v = eval_cell(d, env)
        except Undecided:
            # d may be a difference of non-numeric values (strings / None)
            vals = []
            for m, c in d.num:
                if len(m) != 1 or m[0][1] != 1 or abs(c) != 1:
                    raise
                vals.append((c, _eval_atom(m[0][0], env)))
            if len(vals) == 2 and vals[0][0] == -vals[1][0]:
                eq = vals[0][1] == vals[1][1]
                if op == "==":
                    return eq
                if op == "!=":
                    return not eq
            raise
        return {"==": v == 0, "!=": v != 0, ">": v > 0, ">=": v >= 0}[op]
    if k == "and":
        return all(bool(eval_cell(x, env)) for x in a[1])
    if k == "or":
        return any(bool(eval_cell(x, env)) for x in a[1])
    if k == "not":
        return not bool(eval_cell(a[1], env))
    if k == "ite":
        return eval_cell(a[2], env) if bool(eval_cell(a[1], env)) else eval_cell(a[3], env)
    if k == "floordiv":
        return eval_cell(a[1], env) // eval_cell(a[2], env)
    if k == "mod":
        return eval_cell(a[1], env) % eval_cell(a[2], env)
    if k in ("in", "notin"):
        x = eval_cell(a[1], env)
        tup = a[2].single_atom()
        if tup is None or tup[0] not in ("tuple", "list", "set"):
            raise Undecided("membership in a non-literal")
        r = any(x == eval_cell(y, env) for y in tup[1])
        return r if k == "in" else not r
    raise Undecided("unbound atom %s" % (T.pretty_atom(a)[:60],))


def holds_under(ev, env):
    """Do all guards of an event hold in the cell?  (None if undecided)"""
    try:
        for p in ev.pc:
            a = p.cond.single_atom()
            if a is not None and a[0] == "inloop":
                continue
            if not bool(eval_cell(p.cond, env)):
                return False
        return True
    except Undecided:
        return None


def deep_mentions(t, pred, loops, _seen=None):
    """Like terms.mentions, but looks through loop variables: what they held before the loop and what the loop body leaves in them."""
    seen = _seen if _seen is not None else set()
    if T.mentions(t, pred):
        return True
    for a in T.atoms_of(t, "loopvar"):
        if a in seen or a[1] not in loops:
            continue
        seen.add(a)
        lp = loops[a[1]]
        name = a[2]
        for st in (lp.get("pre"), lp.get("body_end")):
            if st is None:
                continue
            v = st.locs.get(name[1:]) if name.startswith("$") else st.attrs.get(name)
            if v is not None and deep_mentions(v, pred, loops, seen):
                return True
    return False


# --------------------------------------------------------------------------
# element-wise view of a comprehension / generator (idiom independent)

ELEM = atom(("sym", "element"))


def bind(ev):
    """{parameter name: argument term} of a call event whose callee is a repository function (positional and keyword arguments
    alike; `self` skipped for methods and constructors)."""
    fi = ev.d.get("fi")
    out = dict(ev.d.get("kwargs") or ())
    if fi is None:
        return out
    params = fi.params()
    if params and params[0] in ("self", "cls") and ev.callee[0] not in ("static", "function", "closure"):
        params = params[1:]
    for p_, a_ in zip(params, ev.d.get("args") or ()):
        out.setdefault(p_, a_)
    return out


def comp_view(t):
    """For a comprehension with one generator and no filter return (element term over the symbol ELEM, sequence, count):
    `f(s[i]) for i in range(n)` and `f(e) for e in s[:n]` / `for e in s` give the same view.  None if not of that shape."""
    a = t.single_atom() if isinstance(t, R) else None
    if a is None or a[0] != "comp" or len(a[2]) != 1 or len(a[3]) != 1 or a[4]:
        return None
    elt, it = a[2][0], a[3][0]
    ia = it.single_atom()
    idxs = [x for x in T.walk(elt) if x[0] == "idx"]
    iters = [x for x in T.walk(elt) if x[0] == "iter"]
    if ia is not None and ia[0] == "call" and ia[1] == "range" and len(ia[2]) == 1 and idxs and not iters:
        ix = set(idxs)
        if len(ix) != 1:
            return None
        i = atom(next(iter(ix)))
        bases = {x[1] for x in T.walk(elt) if x[0] == "sub" and x[2] == i}
        if len(bases) != 1:
            return None
        s = next(iter(bases))
        e2 = T.subst(elt, lambda z: ELEM if z[0] == "sub" and z[1] == s and z[2] == i else None)
        if T.mentions(e2, lambda z: z[0] == "idx"):
            return None
        return e2, s, ia[2][0]
    if iters and not idxs:
        its = set(iters)
        if len(its) != 1 or next(iter(its))[1] != it:
            return None
        e2 = T.subst(elt, lambda z: ELEM if z[0] == "iter" and z[1] == it else None)
        s, n = it, atom(("call", "len", (it,), ()))
        sa = ia
        if sa is not None and sa[0] == "sub":
            sl = sa[2].single_atom()
            if sl is not None and sl[0] == "slice" and sl[1] in (T.NONE, const(0)) and sl[3] == T.NONE and sl[2] != T.NONE:
                s = sa[1]
                k = sl[2]
                n = k if not (k.is_const() and k.const_value() < 0) else atom(("call", "len", (s,), ())) + k
        return e2, s, n
    return None


POS = atom(("sym", "position"))


def comp_elem(t, j=POS, depth=0):
    """(element at position j, length) of a one-generator comprehension over range(...) / a sequence, with every positional
    read of another such comprehension inside the element resolved the same way:
        [f(i) for i in range(a, b)]      -> f(a + j), b - a
        [g(e[i]) for i in range(n)], e = [h(k) for k in range(1, n + 1)]  -> g(h(1 + j)), n
    None when t is not of that form."""
    a = t.single_atom() if isinstance(t, T.R) else None
    if a is None or a[0] != "comp" or len(a[2]) != 1 or len(a[3]) != 1 or a[4] or depth > 4:
        return None
    elt, it = a[2][0], a[3][0]
    ia = it.single_atom()
    if ia is None or ia[0] != "call" or ia[1] != "range" or not (1 <= len(ia[2]) <= 2) or ia[3]:
        return None
    lo, hi = (const(0), ia[2][0]) if len(ia[2]) == 1 else (ia[2][0], ia[2][1])
    inner_lids = {x[1] for x in T.walk(it) if x[0] == "idx"}
    lids = {x[1] for x in T.walk(elt) if x[0] == "idx"} - inner_lids
    nested = {x[1] for sub_ in T.walk(elt) if sub_[0] == "comp" for x in T.walk(atom(sub_)) if x[0] == "idx"}
    own = lids - nested
    if len(own) > 1:
        return None
    lid = next(iter(own)) if own else None
    e2 = T.subst(elt, lambda z: (lo + j) if z[0] == "idx" and z[1] == lid else None)

    def resolve(z):
        if z[0] == "sub":
            r = comp_elem(z[1], z[2], depth + 1)
            if r is not None:
                return r[0]
        return None
    e2 = T.subst(e2, resolve)
    return e2, hi - lo


def collected(tr, t):
    """(element, count, event) when t is a list holding one value per repetition of `for _ in range(count)`, written either as
    a loop appending to an initially empty list or as a comprehension; None otherwise."""
    a = t.single_atom() if isinstance(t, T.R) else None
    while a is not None and a[0] == "call" and a[1] in ("list", "tuple", "numpy.array", "numpy.asarray") and len(a[2]) == 1 and not a[3]:
        t = a[2][0]   # list(<the collected values>): the same values in the same order
        a = t.single_atom() if isinstance(t, T.R) else None
    if a is None:
        return None

    def rng(it):
        ia = it.single_atom() if isinstance(it, T.R) else None
        if ia is not None and ia[0] == "call" and ia[1] == "range" and len(ia[2]) == 1 and not ia[3]:
            return ia[2][0]
        return None
    if a[0] == "comp" and a[1] == "list" and len(a[2]) == 1 and len(a[3]) == 1 and not a[4]:
        n = rng(a[3][0])
        return (a[2][0], n, None) if n is not None else None
    if a[0] == "loopvar" and isinstance(a[2], str) and a[2].startswith("$") and a[1] in tr.loops:
        L = tr.loops[a[1]]
        name = a[2][1:]
        n = rng(L["iter"])
        ap = [e for e in tr.of("localmut") if e.name == name and e.how == "method:append" and any(
            (p.cond.single_atom() or ("",))[:2] == ("inloop", a[1]) for p in e.pc)]
        if n is None or len(ap) != 1 or L["pre"].locs.get(name) != atom(("list", ())):
            return None
        own = [p for p in ap[0].pc if p.func is ap[0].pc[-1].func]
        if (ap[0].pc[-1].cond.single_atom() or ("",))[0] != "inloop":
            return None  # a guarded append does not happen once per repetition
        return ap[0].value.single_atom()[1][0], n, ap[0]
    return None


# ---------------------------------------------------------------------------
# position views: what a list holds at position POS / what an accumulator sums, however the repetition is written
# (loop + append, comprehension over range, comprehension or loop over another such list)

def _range_of(it):
    ia = it.single_atom() if isinstance(it, T.R) else None
    if ia is not None and ia[0] == "call" and ia[1] == "range" and 1 <= len(ia[2]) <= 2 and not ia[3]:
        return (const(0), ia[2][0]) if len(ia[2]) == 1 else (ia[2][0], ia[2][1])
    return None


def _resolve_subs(tr, t, depth):
    """positional reads s[k] of a viewed sequence s inside t are replaced by the element of s at k"""
    def f(z):
        if z[0] == "sub":
            v = seq_view(tr, z[1], depth + 1)
            if v is not None:
                return T.subst(v[0], lambda y: z[2] if atom(y) == POS else None)
        if z[0] == "iter" and depth < 4:
            # the element a loop / generator over a viewed list stands on: its element at the position of the repetition
            v = seq_view(tr, z[1], depth + 1)
            if v is not None:
                return v[0]
        return None
    return T.subst(t, f)


def _per_iteration(tr, it, lid, term, depth):
    """term (computed once per repetition of a loop / generator over `it`) as a function of the position POS; (term', count)."""
    r = _range_of(it)
    if r is not None:
        lo, hi = r
        t2 = T.subst(term, lambda z: (lo + POS) if z[0] == "idx" and (lid is None or z[1] == lid) else None)
        return _resolve_subs(tr, t2, depth), hi - lo
    ia = it.single_atom() if isinstance(it, T.R) else None
    if ia is not None and ia[0] == "call" and ia[1] == "enumerate" and len(ia[2]) == 1:
        v = seq_view(tr, ia[2][0], depth + 1)
        if v is None:
            return None
        t2 = T.subst(term, lambda z: POS if z[0] == "idx" and (lid is None or z[1] == lid) else None)
        return _resolve_subs(tr, t2, depth), v[1]
    if ia is not None and ia[0] == "call" and ia[1] == "zip" and ia[2]:
        # for a, b in zip(s1, s2): the targets are s1[idx], s2[idx]; as long as the shortest operand
        views = [seq_view(tr, s, depth + 1) for s in ia[2]]
        ns = [v[1] for v in views if v is not None]
        if not ns or any(not T.same(n, ns[0]) for n in ns):
            return None
        t2 = T.subst(term, lambda z: POS if z[0] == "idx" and (lid is None or z[1] == lid) else None)
        return _resolve_subs(tr, t2, depth), ns[0]
    v = seq_view(tr, it, depth + 1)
    if v is not None:
        t2 = T.subst(term, lambda z: v[0] if z[0] == "iter" and z[1] == it and (lid is None or z[2] == lid) else None)
        return _resolve_subs(tr, t2, depth), v[1]
    if ia is not None and ia[0] == "mcall" and not T.mentions(it, lambda z: z[0] in ("idx", "iter")):
        # an iterable produced by a library object (kf.split(X)): its element at POS, whatever loop or comprehension runs over it
        canon = atom(("iter", it, "POS"))
        t2 = T.subst(term, lambda z: canon if z[0] == "iter" and z[1] == it and (lid is None or z[2] == lid) else None)
        return _resolve_subs(tr, t2, depth), atom(("call", "len", (it,), ()))
    return None


def _in_loop_unguarded(e, lid):
    """is the event inside loop lid and not under any condition of its own there?"""
    for i, p in enumerate(e.pc):
        a = p.cond.single_atom()
        if a is not None and a[:2] == ("inloop", lid):
            return all((x.cond.single_atom() or ("",))[0] == "inloop" for x in e.pc[i + 1:]) and len(e.pc) == i + 1
    return False


def seq_view(tr, t, depth=0):
    """(element at position POS, length) of a list built once per repetition, or None."""
    a = t.single_atom() if isinstance(t, T.R) else None
    if a is None or depth > 4:
        return None
    if a[0] == "comp" and a[1] in ("list", "gen") and len(a[2]) == 1 and len(a[3]) == 1 and not a[4]:
        return _per_iteration(tr, a[3][0], None, a[2][0], depth)
    if a[0] == "loopvar" and isinstance(a[2], str) and a[2].startswith("$") and a[1] in tr.loops:
        L = tr.loops[a[1]]
        name = a[2][1:]
        ap = [e for e in tr.of("localmut") if e.name == name and any((p.cond.single_atom() or ("",))[:2] == ("inloop", a[1]) for p in e.pc)]
        if len(ap) != 1 or ap[0].how != "method:append" or not _in_loop_unguarded(ap[0], a[1]) or L["pre"].locs.get(name) != atom(("list", ())):
            return None
        if [e for e in tr.of("local") if e.name == name and any((p.cond.single_atom() or ("",))[:2] == ("inloop", a[1]) for p in e.pc)]:
            return None  # rebound inside the loop
        return _per_iteration(tr, L["iter"], a[1], ap[0].value.single_atom()[1][0], depth)
    return None


def sum_view(tr, t, depth=0):
    """(summand at position POS, number of summands) of a running total or a sum(...) over a viewed list, or None."""
    a = t.single_atom() if isinstance(t, T.R) else None
    if a is None:
        return None
    if a[0] == "call" and a[1] in ("sum", "numpy.sum", "math.fsum") and len(a[2]) == 1 and not a[3]:
        return seq_view(tr, a[2][0], depth)
    if a[0] == "loopvar" and isinstance(a[2], str) and a[2].startswith("$") and a[1] in tr.loops:
        L = tr.loops[a[1]]
        name = a[2][1:]
        inside = [e for e in tr.of("local") if e.name == name and any((p.cond.single_atom() or ("",))[:2] == ("inloop", a[1]) for p in e.pc)]
        if len(inside) != 1 or inside[0].aug is None or inside[0].aug[0] != "Add" or not _in_loop_unguarded(inside[0], a[1]):
            return None
        if L["pre"].locs.get(name) != const(0):
            return None
        return _per_iteration(tr, L["iter"], a[1], inside[0].aug[1], depth)
    return None


def at_pos(tr, t):
    """t with its loop / generator index replaced by POS and positional reads of viewed lists resolved (for comparing a
    per-iteration value with a view's element)"""
    return _resolve_subs(tr, T.subst(t, lambda z: POS if z[0] == "idx" else None), 0)


def reduction_of(t, name):
    """the operand x when t is x.<name>() / numpy.<name>(x) / <name>(x) (no further arguments), else None"""
    a = t.single_atom() if isinstance(t, T.R) else None
    if a is None:
        return None
    if a[0] == "mcall" and a[2] == name and not a[3] and not a[4]:
        return a[1]
    if a[0] == "call" and a[1] in (name, "numpy." + name, "numpy.a" + name, "numpy.nan" + name) and len(a[2]) == 1 and not a[3] and a[1] != "numpy.nan" + name:
        return a[2][0]
    return None


def _seq_norm(x):
    a = x.single_atom() if isinstance(x, T.R) else None
    while a is not None:
        if a[0] == "call" and a[1] in ("list", "tuple", "set", "sorted") and len(a[2]) == 1 and not a[3]:
            x = a[2][0]
        elif a[0] == "mcall" and a[2] == "keys" and not a[3]:
            x = a[1]
        else:
            break
        a = x.single_atom()
    return x


def set_operands(t):
    """the collections whose union the set-valued term t denotes, in any spelling:
       set(a + b) | set(list(a) + b) | set(a) | set(b) | set(a).union(b); list(x), tuple(x), x.keys() are seen through.  None if t is not a set."""
    a = t.single_atom() if isinstance(t, T.R) else None
    if a is None:
        return None
    if a[0] == "bitor":
        l, r = set_operands(a[1]), set_operands(a[2])
        return None if l is None or r is None else l + r
    if a[0] == "mcall" and a[2] == "union" and a[3]:
        l = set_operands(a[1])
        return None if l is None else l + [_seq_norm(x) for x in a[3]]
    if a[0] == "call" and a[1] == "set" and len(a[2]) == 1 and not a[3]:
        x = _seq_norm(a[2][0])
        xa = x.single_atom()
        if xa is not None and xa[0] == "concat":
            return [_seq_norm(xa[1]), _seq_norm(xa[2])]
        if xa is None and not x.is_const() and x.den == (((), T.Fraction(1)),) and all(c_ == 1 and len(m) == 1 and m[0][1] == 1 for m, c_ in x.num):
            return [_seq_norm(atom(m[0][0])) for m, _c in x.num]  # list + list
        return [x]
    return None


def dict_view(tr, t):
    """(key at position POS, value at position POS, count) of a dict built pairwise from two sequences:
       {ks[i]: vs[i] for i in range(n)} | dict(zip(ks, vs)) | {k: v for k, v in zip(ks, vs)}; None otherwise."""
    a = t.single_atom() if isinstance(t, T.R) else None
    if a is None:
        return None
    if a[0] == "comp" and a[1] == "dict" and len(a[2]) == 2 and len(a[3]) == 1 and not a[4]:
        k = _per_iteration(tr, a[3][0], None, a[2][0], 0)
        v = _per_iteration(tr, a[3][0], None, a[2][1], 0)
        if k is None or v is None:
            r = a[3][0].single_atom()
            if r is not None and r[0] == "call" and r[1] == "zip" and len(r[2]) == 2:
                f = lambda z: POS if z[0] == "idx" else None
                return T.subst(a[2][0], f), T.subst(a[2][1], f), atom(("call", "len", (r[2][0],), ()))
            return None
        return k[0], v[0], k[1]
    if a[0] == "call" and a[1] == "dict" and len(a[2]) == 1 and not a[3]:
        z = a[2][0].single_atom()
        if z is not None and z[0] == "call" and z[1] == "zip" and len(z[2]) == 2 and not z[3]:
            return sub(z[2][0], POS), sub(z[2][1], POS), atom(("call", "len", (z[2][0],), ()))
    return None


def dict_build(tr, t):
    """(key, value, conditions, iterable) of a dict built with one entry per (selected) repetition, written as a dict
    comprehension or as a loop storing into an initially empty dict; key / value / conditions are terms over the repetition's
    own atoms (iterkey, iter, idx).  None otherwise."""
    a = t.single_atom() if isinstance(t, T.R) else None
    if a is None:
        return None
    if a[0] == "comp" and a[1] == "dict" and len(a[2]) == 2 and len(a[3]) == 1:
        return a[2][0], a[2][1], list(a[4]), a[3][0]
    u = unmut(t).single_atom() if isinstance(unmut(t), T.R) else None
    if u is not None and u[0] == "loopvar" and isinstance(u[2], str) and u[2].startswith("$") and u[1] in tr.loops:
        L = tr.loops[u[1]]
        name = u[2][1:]
        if L["pre"].locs.get(name) not in (atom(("dict", ())), atom(("call", "dict", (), ()))):
            return None
        inside = [e for e in tr.events if e.kind in ("localmut", "local") and e.d.get("name") == name and any(
            (p.cond.single_atom() or ("",))[:2] == ("inloop", u[1]) for p in e.pc)]
        if len(inside) != 1 or inside[0].kind != "localmut" or inside[0].how != "setitem" or len(inside[0].path) != 1:
            return None
        e = inside[0]
        i = [k for k, p in enumerate(e.pc) if (p.cond.single_atom() or ("",))[:2] == ("inloop", u[1])][0]
        conds = [p.cond for p in e.pc[i + 1:] if (p.cond.single_atom() or ("",))[0] != "inloop"]
        return e.path[0][1], e.value, conds, L["iter"]
    return None


def len_norm(t):
    """t with x.shape[0] written as len(x) (equal for arrays, frames and series): for comparisons that must not depend on the spelling"""
    def f(z):
        if z[0] == "sub" and z[2] == const(0):
            b = z[1].single_atom()
            if b is not None and b[0] == "getattr" and b[2] == "shape":
                return atom(("call", "len", (b[1],), ()))
        return None
    return T.subst(t, f)


def dnf(conds, limit=128):
    """the cases of a conjunction of guards that may nest disjunctions and conjunctions: a list of conjunct lists (bounded;
    when the bound is hit the remaining structure is kept as opaque conjuncts, which only makes cases coarser)"""
    def term(t, depth=0):
        a = t.single_atom() if isinstance(t, T.R) else None
        if a is not None and a[0] == "or" and depth < 8:
            out = []
            for x in a[1]:
                out.extend(term(x, depth + 1))
            return out[:limit] if len(out) <= limit else [[t]]
        if a is not None and a[0] == "and" and depth < 8:
            cases = [[]]
            for x in a[1]:
                sub_ = term(x, depth + 1)
                cases = [k + s for k in cases for s in sub_]
                if len(cases) > limit:
                    return [[t]]
            return cases
        return [[t]]
    cases = [[]]
    for c_ in conds:
        sub_ = term(c_)
        new = [k + s for k in cases for s in sub_]
        cases = new if len(new) <= limit else [k + [c_] for k in cases]
    return cases


def len_of(t):
    """len(t) in the evaluator's normal form (distributed over gated phis)"""
    a = t.single_atom() if isinstance(t, T.R) else None
    if a is not None and a[0] == "ite":
        return T.mk_ite(a[1], len_of(a[2]), len_of(a[3]))
    return atom(("call", "len", (t,), ()))
