"""Loader: parses /repo/menelaus (optionally with an in-memory overlay),
builds import maps, the class table with C3 MRO, method resolution and
trivial-property resolution.  Nothing under /repo is imported or executed."""
import ast
import hashlib
import os

REPO = os.environ.get("SA_REPO", "/repo")
PKG = "menelaus"


class AnalysisError(Exception):
    """The analysis cannot proceed (vanished anchor, unknown construct, ...).
    Reported as ANALYSIS-ERROR, exit 2 - never as a violation."""


class FuncInfo:
    def __init__(self, node, module, cls=None, parent=None):
        self.node = node
        self.module = module
        self.cls = cls  # ClassInfo or None
        self.parent = parent  # enclosing FuncInfo for nested functions
        self.name = node.name
        decos = [_deco_name(d) for d in node.decorator_list]
        self.is_static = "staticmethod" in decos
        self.is_classmethod = "classmethod" in decos or "abstractclassmethod" in decos
        self.is_property = "property" in decos
        self.is_setter = any(d.endswith(".setter") for d in decos)
        self.is_abstract = any(d.startswith("abstract") for d in decos)
        self.nested = {}

    @property
    def qualname(self):
        if self.parent is not None:
            return self.parent.qualname + "." + self.name
        if self.cls is not None:
            return self.cls.name + "." + self.name
        return self.module.name.split(".")[-1] + ":" + self.name

    @property
    def file(self):
        return self.module.relpath

    def params(self):
        a = self.node.args
        return [x.arg for x in a.posonlyargs + a.args]

    def __repr__(self):
        return "<Func %s>" % self.qualname


def _deco_name(d):
    if isinstance(d, ast.Name):
        return d.id
    if isinstance(d, ast.Attribute):
        return _deco_name(d.value) + "." + d.attr
    if isinstance(d, ast.Call):
        return _deco_name(d.func)
    return "?"


class ClassInfo:
    def __init__(self, node, module):
        self.node = node
        self.module = module
        self.name = node.name
        self.base_exprs = node.bases
        self.bases = []  # ClassInfo (repository classes only)
        self.ext_bases = []  # dotted names of non-repository bases
        self.methods = {}
        self.getters = {}
        self.setters = {}
        self.class_attrs = {}
        self.mro = None

    def __repr__(self):
        return "<Class %s>" % self.name


class ModuleInfo:
    def __init__(self, name, relpath, path, source):
        self.name = name
        self.relpath = relpath
        self.path = path
        self.source = source
        self.tree = ast.parse(source, filename=relpath)
        self.digest = hashlib.sha256(source.encode()).hexdigest()
        self.imports = {}  # local name -> dotted
        self.globals = {}  # module level variables: name -> value AST
        self.classes = {}
        self.functions = {}
        self.lines = source.split("\n")

    def line(self, n):
        return self.lines[n - 1].strip() if 0 < n <= len(self.lines) else ""


class Program:
    def __init__(self, root=None, overlay=None):
        self.root = root or REPO
        self.overlay = overlay or {}
        self.modules = {}
        self.classes = {}
        self._load()
        self._link()

    # ------------------------------------------------------------------
    def _load(self):
        pkgdir = os.path.join(self.root, PKG)
        if not os.path.isdir(pkgdir):
            raise AnalysisError("package directory %s not found" % pkgdir)
        for dp, dn, fn in sorted(os.walk(pkgdir)):
            dn.sort()
            for f in sorted(fn):
                if not f.endswith(".py"):
                    continue
                path = os.path.join(dp, f)
                rel = os.path.relpath(path, self.root)
                if rel in self.overlay:
                    src = self.overlay[rel]
                else:
                    with open(path, encoding="utf-8") as fh:
                        src = fh.read()
                modname = rel[:-3].replace(os.sep, ".")
                if modname.endswith(".__init__"):
                    modname = modname[: -len(".__init__")]
                try:
                    mi = ModuleInfo(modname, rel, path, src)
                except SyntaxError as e:
                    raise AnalysisError("cannot parse %s: %s" % (rel, e))
                self.modules[modname] = mi
        for rel in self.overlay:
            if not any(m.relpath == rel for m in self.modules.values()):
                modname = rel[:-3].replace(os.sep, ".")
                self.modules[modname] = ModuleInfo(modname, rel, rel, self.overlay[rel])

    def _link(self):
        for mi in self.modules.values():
            self._scan_module(mi)
        # resolve re-exports through package __init__ modules
        for mi in self.modules.values():
            for k, v in list(mi.imports.items()):
                mi.imports[k] = self._canon(v)
        for ci in self.classes.values():
            for b in ci.base_exprs:
                d = self.dotted(ci.module, b)
                tgt = self.class_by_dotted(d) if d else None
                if tgt is not None:
                    ci.bases.append(tgt)
                else:
                    ci.ext_bases.append(d or ast.unparse(b))
        for ci in self.classes.values():
            ci.mro = self._c3(ci)

    def _scan_module(self, mi):
        for st in mi.tree.body:
            if isinstance(st, ast.Import):
                for al in st.names:
                    mi.imports[al.asname or al.name.split(".")[0]] = (
                        al.name if al.asname else al.name.split(".")[0]
                    )
            elif isinstance(st, ast.ImportFrom):
                base = st.module or ""
                if st.level:
                    parts = mi.name.split(".")
                    if not mi.relpath.endswith("__init__.py"):
                        parts = parts[:-1]
                    parts = parts[: len(parts) - (st.level - 1)]
                    base = ".".join(parts + ([st.module] if st.module else []))
                for al in st.names:
                    mi.imports[al.asname or al.name] = base + "." + al.name
            elif isinstance(st, ast.ClassDef):
                ci = ClassInfo(st, mi)
                mi.classes[st.name] = ci
                if st.name in self.classes:
                    raise AnalysisError("duplicate class name %s" % st.name)
                self.classes[st.name] = ci
                for b in st.body:
                    if isinstance(b, ast.FunctionDef):
                        fi = FuncInfo(b, mi, ci)
                        self._scan_nested(fi)
                        if fi.is_property:
                            ci.getters[b.name] = fi
                        elif fi.is_setter:
                            ci.setters[b.name] = fi
                        else:
                            ci.methods[b.name] = fi
                    elif isinstance(b, ast.Assign):
                        for t in b.targets:
                            if isinstance(t, ast.Name):
                                ci.class_attrs[t.id] = b.value
                                v = b.value
                                if isinstance(v, ast.Call) and isinstance(v.func, ast.Name) and v.func.id == "staticmethod" and len(v.args) == 1 \
                                        and not v.keywords and isinstance(v.args[0], ast.Name) and v.args[0].id in mi.functions:
                                    # name = staticmethod(<module-level function defined above>): a static method with that body
                                    fi = FuncInfo(mi.functions[v.args[0].id].node, mi, ci)
                                    fi.name = t.id
                                    fi.is_static = True
                                    self._scan_nested(fi)
                                    ci.methods[t.id] = fi
            elif isinstance(st, ast.FunctionDef):
                fi = FuncInfo(st, mi)
                self._scan_nested(fi)
                mi.functions[st.name] = fi
            elif isinstance(st, ast.Assign):
                for t in st.targets:
                    if isinstance(t, ast.Name):
                        mi.globals[t.id] = st.value

    def _scan_nested(self, fi):
        for n in ast.walk(fi.node):
            pass
        def visit(body, owner):
            for st in body:
                if isinstance(st, ast.FunctionDef):
                    sub = FuncInfo(st, owner.module, owner.cls, owner)
                    owner.nested[st.name] = sub
                    visit(st.body, sub)
                else:
                    for fld in ("body", "orelse", "finalbody", "handlers"):
                        b = getattr(st, fld, None)
                        if isinstance(b, list):
                            visit([x for x in b if isinstance(x, ast.stmt)], owner)
                            for h in b:
                                if isinstance(h, ast.ExceptHandler):
                                    visit(h.body, owner)
        visit(fi.node.body, fi)

    def _canon(self, dotted):
        """Follow re-exports: menelaus.partitioners.NNSpacePartitioner (name in
        a package __init__) -> defining module path."""
        seen = set()
        while dotted not in seen:
            seen.add(dotted)
            mod, _, name = dotted.rpartition(".")
            mi = self.modules.get(mod)
            if mi is None:
                break
            if name in mi.classes or name in mi.functions:
                break
            if name in mi.imports:
                dotted = mi.imports[name]
                continue
            break
        return dotted

    def class_by_dotted(self, dotted):
        if not dotted:
            return None
        dotted = self._canon(dotted)
        mod, _, name = dotted.rpartition(".")
        mi = self.modules.get(mod)
        if mi is not None and name in mi.classes:
            return mi.classes[name]
        # a module and a class share a name (menelaus.partitioners.NNSpacePartitioner)
        mi = self.modules.get(dotted)
        if mi is not None and name in mi.classes:
            return mi.classes[name]
        return None

    def func_by_dotted(self, dotted):
        mod, _, name = self._canon(dotted).rpartition(".")
        mi = self.modules.get(mod)
        if mi is not None and name in mi.functions:
            return mi.functions[name]
        return None

    def dotted(self, mi, expr):
        """Dotted name of a Name/Attribute chain rooted in an import or a
        module-level definition; None if rooted elsewhere."""
        parts = []
        e = expr
        while isinstance(e, ast.Attribute):
            parts.append(e.attr)
            e = e.value
        if not isinstance(e, ast.Name):
            return None
        root = e.id
        if root in mi.imports:
            base = mi.imports[root]
        elif root in mi.classes or root in mi.functions:
            base = mi.name + "." + root
        else:
            return None
        return ".".join([base] + parts[::-1])

    def _c3(self, ci):
        def merge(seqs):
            res = []
            seqs = [list(s) for s in seqs if s]
            while seqs:
                for s in seqs:
                    h = s[0]
                    if not any(h in t[1:] for t in seqs):
                        break
                else:
                    raise AnalysisError("inconsistent MRO for %s" % ci.name)
                res.append(h)
                seqs = [[x for x in s if x is not h] for s in seqs]
                seqs = [s for s in seqs if s]
            return res
        if ci.mro is not None:
            return ci.mro
        return [ci] + merge([self._c3(b) for b in ci.bases] + [list(ci.bases)])

    # ------------------------------------------------------------------
    def cls(self, name):
        if name not in self.classes:
            raise AnalysisError("anchor vanished: class %s not found" % name)
        return self.classes[name]

    def lookup(self, ci, name, after=None):
        """Method `name` for receiver class ci; with `after`, the next
        definition in ci's MRO after class `after` (super())."""
        mro = ci.mro
        start = 0
        if after is not None:
            if after not in mro:
                return None
            start = mro.index(after) + 1
        for c in mro[start:]:
            if name in c.methods:
                return c.methods[name]
        return None

    def method(self, clsname, name):
        fi = self.lookup(self.cls(clsname), name)
        if fi is None:
            raise AnalysisError("anchor vanished: method %s.%s not found" % (clsname, name))
        return fi

    def find_property(self, ci, name):
        """(getter FuncInfo, setter FuncInfo|None, defining class) or None"""
        for c in ci.mro:
            if name in c.getters:
                return c.getters[name], c.setters.get(name), c
            if name in c.methods or name in c.class_attrs:
                return None
        return None

    def backing_field(self, ci, name):
        """If `name` is a trivial property (getter returns self._f), return
        '_f'; if it is a plain attribute return name; non-trivial property
        -> None."""
        p = self.find_property(ci, name)
        if p is None:
            return name
        getter = p[0]
        body = [s for s in getter.node.body if not _is_docstring(s)]
        if (
            len(body) == 1
            and isinstance(body[0], ast.Return)
            and isinstance(body[0].value, ast.Attribute)
            and isinstance(body[0].value.value, ast.Name)
            and body[0].value.value.id == "self"
        ):
            return body[0].value.attr
        return None

    def subclasses(self, ci):
        return [c for c in self.classes.values() if ci in c.mro]

    def digests(self):
        return {m.relpath: m.digest for m in self.modules.values()}

    def n_functions(self):
        n = 0
        def cnt(fi):
            return 1 + sum(cnt(x) for x in fi.nested.values())
        for mi in self.modules.values():
            for fi in mi.functions.values():
                n += cnt(fi)
            for ci in mi.classes.values():
                for fi in list(ci.methods.values()) + list(ci.getters.values()) + list(ci.setters.values()):
                    n += cnt(fi)
        return n


def _is_docstring(s):
    return isinstance(s, ast.Expr) and isinstance(s.value, ast.Constant) and isinstance(s.value.value, str)
