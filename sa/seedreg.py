"""Regression of the checker against the independently seeded changes (thorough tier).

Every /verif/seeded/<ID>-<x>/patch.diff whose property is the one being checked is applied *in memory* to the current
source (a small unified-diff applier; nothing is written to disk, /repo is not touched) and the quick check is run on
the overlay.  A change that the committed checks are recorded to report (meta.json: detection.exit == 1) must still
produce a new finding; one recorded as 'no verdict' (exit 2) must not silently pass.  A patch whose context no longer
matches the tree is skipped and counted - it says nothing about the tree.  A regression fails the run as
analysis-broken (exit 2): the checker, not the repository, is at fault."""
import concurrent.futures as cf
import glob
import json
import os
import re

from .loader import Program, AnalysisError, REPO

SEEDED = os.path.join(os.path.dirname(os.path.dirname(os.path.abspath(__file__))), "seeded")


def parse(diff_text):
    """{path: [(old_start, [old lines], [new lines]), ...]}"""
    files = {}
    cur = None
    hunk = None
    for ln in diff_text.splitlines():
        if ln.startswith("+++ "):
            p = ln[4:].strip()
            cur = p[2:] if p.startswith("b/") else p
            files[cur] = []
            hunk = None
        elif ln.startswith("--- ") or ln.startswith("diff --git") or ln.startswith("index "):
            continue
        elif ln.startswith("@@"):
            m = re.match(r"@@ -(\d+)(?:,\d+)? \+(\d+)(?:,\d+)? @@", ln)
            if m and cur is not None:
                hunk = (int(m.group(1)), [], [])
                files[cur].append(hunk)
        elif hunk is not None and cur is not None:
            if ln.startswith("\\"):
                continue
            tag, body = (ln[:1], ln[1:]) if ln else (" ", "")
            if tag == " ":
                hunk[1].append(body)
                hunk[2].append(body)
            elif tag == "-":
                hunk[1].append(body)
            elif tag == "+":
                hunk[2].append(body)
    return files


def apply_to(src, hunks):
    lines = src.split("\n")
    offset = 0
    for start, old, new in hunks:
        i = start - 1 + offset
        if lines[i:i + len(old)] != old:
            # search nearby (the tree may have moved by a few lines)
            found = None
            for d in range(1, 40):
                for j in (i - d, i + d):
                    if 0 <= j and lines[j:j + len(old)] == old:
                        found = j
                        break
                if found is not None:
                    break
            if found is None:
                return None
            i = found
        lines[i:i + len(old)] = new
        offset += len(new) - len(old)
    return "\n".join(lines)


def overlay_of(patch_path):
    files = parse(open(patch_path, encoding="utf-8").read())
    ov = {}
    for rel, hunks in files.items():
        path = os.path.join(REPO, rel)
        if not os.path.exists(path):
            return None
        out = apply_to(open(path, encoding="utf-8").read(), hunks)
        if out is None:
            return None
        try:
            compile(out, rel, "exec")
        except SyntaxError:
            return None
        ov[rel] = out
    return ov or None


def _run_one(args):
    pid, name = args
    from .check import run_check
    ov = overlay_of(os.path.join(SEEDED, name, "patch.diff"))
    if ov is None:
        return name, "skipped", 0
    try:
        ctx, err = run_check(pid, "quick", Program(overlay=ov))
    except Exception as e:
        return name, "error:" + type(e).__name__, 0
    return name, ("error" if err else "ran"), [(f.rule, f.site, f.construct) for f in ctx.findings]


BENIGN = os.path.join(os.path.dirname(os.path.dirname(os.path.abspath(__file__))), "benign")


def _run_benign(args):
    pid, name = args
    from .check import run_check
    ov = overlay_of(os.path.join(BENIGN, name, "patch.diff"))
    if ov is None:
        return name, "skipped", 0
    try:
        ctx, err = run_check(pid, "quick", Program(overlay=ov))
    except Exception as e:
        return name, "error:" + type(e).__name__, 0
    resource = bool(err) and (err.startswith("MemoryError") or err.startswith("timeout"))
    return name, ("error:resource" if resource else ("error" if err else "ran")), [(f.rule, f.site, f.construct) for f in ctx.findings]


def run_benign(ctx, jobs=None):
    """Independently written behaviour-preserving refactorings (/verif/benign): none may produce a new finding under this
    check; one recorded as silent (exit 0) must not lose its verdict either."""
    pid = ctx.pid
    names = [os.path.basename(d) for d in sorted(glob.glob(os.path.join(BENIGN, "*")))
             if os.path.isfile(os.path.join(d, "patch.diff")) and os.path.isfile(os.path.join(d, "meta.json"))]
    if not names:
        return
    base = {(f.rule, f.site, f.construct) for f in ctx.findings}
    from .check import guard_resources
    res = {}
    with cf.ProcessPoolExecutor(max_workers=jobs or min(16, os.cpu_count() or 4), initializer=guard_resources, initargs=(3,)) as ex:
        for name, status, keys in ex.map(_run_benign, [(pid, n) for n in names], chunksize=1):
            res[name] = (status, keys)
    silent = noverdict = skipped = 0
    bad = []
    for n in names:
        status, keys = res[n]
        want = json.load(open(os.path.join(BENIGN, n, "meta.json"))).get("checks", {}).get(pid)
        if status == "skipped":
            skipped += 1
            continue
        new = [k for k in keys if k not in base] if isinstance(keys, list) else []
        if new:
            bad.append((n, "FALSE ALARM on a behaviour-preserving refactoring: %s" % (new[:2],)))
        elif status.startswith("error"):
            noverdict += 1
            # running out of the memory / time budget depends on the load of the machine, not on the checker: counted, not a regression
            if want == 0 and status != "error:resource":
                bad.append((n, "recorded as silent, now no verdict"))
        else:
            silent += 1
    ctx.extra.update({"benign_refactorings_replayed": len(names) - skipped, "benign_refactorings_silent": silent,
                      "benign_refactorings_no_verdict": noverdict, "benign_refactorings_skipped": skipped})
    if bad:
        raise AnalysisError("benign regression: %s" % bad)


def run(ctx, jobs=None):
    pid = ctx.pid
    names = []
    for d in sorted(glob.glob(os.path.join(SEEDED, pid + "-*"))):
        if os.path.isfile(os.path.join(d, "patch.diff")) and os.path.isfile(os.path.join(d, "meta.json")):
            names.append(os.path.basename(d))
    if not names:
        return
    base = {(f.rule, f.site, f.construct) for f in ctx.findings}
    from .check import guard_resources
    res = {}
    with cf.ProcessPoolExecutor(max_workers=jobs or min(16, os.cpu_count() or 4), initializer=guard_resources, initargs=(3,)) as ex:
        for name, status, keys in ex.map(_run_one, [(pid, n) for n in names], chunksize=1):
            res[name] = (status, keys)
    caught = noverdict = skipped = missed_known = 0
    lost = []
    for n in names:
        status, keys = res[n]
        want = json.load(open(os.path.join(SEEDED, n, "meta.json"))).get("detection", {}).get("exit")
        if status == "skipped":
            skipped += 1
            continue
        new = [k for k in keys if k not in base] if isinstance(keys, list) else []
        if new:
            caught += 1
        elif status.startswith("error"):
            noverdict += 1
            if want == 1:
                lost.append((n, "recorded as reported (exit 1), now no verdict"))
        elif want == 0:
            missed_known += 1   # recorded as not reported by this check (DESIGN section 18 says why); nothing to regress
        else:
            lost.append((n, "recorded exit %s, now silent" % want))
    ctx.extra.update({"seeded_changes_replayed": len(names) - skipped, "seeded_changes_reported": caught,
                      "seeded_changes_no_verdict": noverdict, "seeded_changes_skipped": skipped,
                      "seeded_changes_recorded_as_not_reported": missed_known})
    if lost:
        raise AnalysisError("seed regression: %s" % lost)
