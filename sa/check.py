"""CLI: /venv/bin/python -m sa.check <ID> [--thorough] | --replay <path>

exit 0: every obligation discharged (known findings printed)
exit 1: VIOLATION property=<ID> replay=<path>
exit 2: ANALYSIS-ERROR (the analysis could not be carried out; never a verdict)
"""
import importlib
import json
import os
import sys
import traceback

from .core import Ctx
from .loader import AnalysisError


def run_check(pid, tier, prog=None, quiet=False):
    ctx = Ctx(pid, tier, prog)
    err = None
    try:
        mod = importlib.import_module("sa.rules.%s" % pid.lower())
        mod.run(ctx)
        if tier == "thorough" and hasattr(mod, "run_thorough"):
            mod.run_thorough(ctx)
    except AnalysisError as e:
        err = "AnalysisError: %s" % e
    except RecursionError as e:
        err = "RecursionError: %s" % e
    except Exception as e:  # a traceback must never look like a verdict
        err = "internal error: %s: %s\n%s" % (type(e).__name__, e, traceback.format_exc(limit=6))
    if ctx.anchor_errors:
        ae = "AnalysisError: anchor(s) vanished / idiom not recognised: " + " | ".join(ctx.anchor_errors[:6])
        err = ae if err is None else err + " ; " + ae
    return ctx, err


def main(argv):
    args = [a for a in argv if not a.startswith("--")]
    tier = "thorough" if "--thorough" in argv or os.environ.get("VERIF_TIER") == "thorough" else "quick"
    if "--replay" in argv:
        path = argv[argv.index("--replay") + 1]
        d = json.load(open(path))
        pid = d["property"]
        args = [pid]
        print("replaying obligation %s %s %s" % (d["rule"], d["site"], d["construct"]))
    if not args:
        print(__doc__)
        return 2
    pid = args[0].upper()
    ctx, err = run_check(pid, tier)
    if err is None and tier == "thorough":
        try:
            from . import selftest
            selftest.run(ctx)
        except AnalysisError as e:
            err = "AnalysisError (self-test): %s" % e
        except Exception as e:
            err = "internal error in self-test: %s: %s\n%s" % (type(e).__name__, e, traceback.format_exc(limit=6))
    lines, code = ctx.finish(err)
    for ln in lines:
        print(ln)
    if err:
        print("ANALYSIS-ERROR property=%s %s" % (pid, err))
        return code
    nd = sum(1 for o in ctx.obligations if o["verdict"] == "discharged")
    print("%s %s: %d obligations, %d discharged, %d finding(s) [%d known], %d traces, %.2fs" % (
        pid, tier, len(ctx.obligations), nd, len(ctx.findings),
        sum(1 for l in lines if l.startswith("KNOWN-FINDING")), len(ctx._traces), __import__("time").time() - ctx.t0))
    return code


if __name__ == "__main__":
    sys.exit(main(sys.argv[1:]))
