"""CLI: /venv/bin/python -m sa.check <ID> [--thorough] | --replay <path>

exit 0: every obligation discharged (known findings printed)
exit 1: VIOLATION property=<ID> replay=<path>
exit 2: ANALYSIS-ERROR (the analysis could not be carried out; never a verdict)
"""
import importlib
import json
import os
import sys
import traceback

from .core import Ctx
from .loader import AnalysisError
from .terms import BudgetExceeded as T_Budget


class AnalysisTimeout(Exception):
    pass


def guard_resources(mem_gb=6):
    """A change to the repository can make the abstract evaluation blow up (exponential case split); that must end as
    'no verdict' (exit 2), never as a killed process.  Address-space cap for this process."""
    try:
        import resource
        lim = int(os.environ.get("SA_MEM_GB", mem_gb)) << 30
        soft, hard = resource.getrlimit(resource.RLIMIT_AS)
        if hard != resource.RLIM_INFINITY:
            lim = min(lim, hard)
        resource.setrlimit(resource.RLIMIT_AS, (lim, hard))
    except Exception:
        pass


def _alarm(_sig, _frm):
    raise AnalysisTimeout()


def run_check(pid, tier, prog=None, quiet=False, timeout=None):
    ctx = Ctx(pid, tier, prog)
    err = None
    import signal
    timeout = timeout or int(os.environ.get("SA_TIMEOUT", 600))
    old = None
    try:
        old = signal.signal(signal.SIGALRM, _alarm)
        signal.alarm(timeout)
    except Exception:
        old = None
    try:
        ctx, err = _run_check(ctx, pid, tier)
    finally:
        if old is not None:
            signal.alarm(0)
            signal.signal(signal.SIGALRM, old)
    return ctx, err


def definite_assignment(ctx):
    """Generic rule over every function the property's rules evaluated: a local that no statement on the path assigned
    is never read (the behaviour the rules decide is otherwise a NameError / UnboundLocalError)."""
    seen = set()
    n = 0
    from . import evalr
    for tr in list(evalr.ALL_TRACES):
        for e in tr.events:
            if e.kind != "undefread" or e.func is None:
                continue
            k = (e.func.qualname, e.name)
            if k in seen:
                continue
            seen.add(k)
            n += 1
            ctx.ob("DA", e.func.qualname, "local %s is assigned before it is read" % e.name, False,
                   "no statement on the path to this read assigns %s" % e.name, e)
    ctx.ob("DA", "*", "every local read in the evaluated functions is assigned on the path to the read", True,
           "%d traces, %d definite reads of unassigned locals" % (len(evalr.ALL_TRACES), n), nontrivial=False)


def _run_check(ctx, pid, tier):
    err = None
    try:
        mod = importlib.import_module("sa.rules.%s" % pid.lower())
        mod.run(ctx)
        if tier == "thorough" and hasattr(mod, "run_thorough"):
            mod.run_thorough(ctx)
        definite_assignment(ctx)
    except AnalysisError as e:
        err = "AnalysisError: %s" % e
        try:
            # a rule that could not recognise the code may have stopped because a local is never assigned: report that as what it is
            definite_assignment(ctx)
        except Exception:
            pass
    except RecursionError as e:
        err = "RecursionError: %s" % e
    except T_Budget as e:
        ctx._traces.clear()
        err = "MemoryError: %s" % e
    except MemoryError:
        ctx._traces.clear()
        err = "MemoryError: the abstract evaluation exceeded the memory cap (case split blow-up)"
    except AnalysisTimeout:
        err = "timeout: the abstract evaluation did not finish within the time limit"
    except Exception as e:  # a traceback must never look like a verdict
        err = "internal error: %s: %s\n%s" % (type(e).__name__, e, traceback.format_exc(limit=6))
    ctx.settle()
    if ctx.anchor_errors:
        ae = "AnalysisError: anchor(s) vanished / idiom not recognised: " + " | ".join(ctx.anchor_errors[:6])
        err = ae if err is None else err + " ; " + ae
    return ctx, err


def main(argv):
    args = [a for a in argv if not a.startswith("--")]
    tier = "thorough" if "--thorough" in argv or os.environ.get("VERIF_TIER") == "thorough" else "quick"
    if "--replay" in argv:
        path = argv[argv.index("--replay") + 1]
        d = json.load(open(path))
        pid = d["property"]
        args = [pid]
        print("replaying obligation %s %s %s" % (d["rule"], d["site"], d["construct"]))
    if not args:
        print(__doc__)
        return 2
    pid = args[0].upper()
    guard_resources()
    ctx, err = run_check(pid, tier)
    if err is None and tier == "thorough":
        try:
            from . import selftest, seedreg
            selftest.run(ctx)
            seedreg.run(ctx)
            seedreg.run_benign(ctx)
        except AnalysisError as e:
            err = "AnalysisError (self-test): %s" % e
        except Exception as e:
            err = "internal error in self-test: %s: %s\n%s" % (type(e).__name__, e, traceback.format_exc(limit=6))
    lines, code = ctx.finish(err)
    for ln in lines:
        print(ln)
    if err:
        print("ANALYSIS-ERROR property=%s %s" % (pid, err))
        return code
    nd = sum(1 for o in ctx.obligations if o["verdict"] == "discharged")
    print("%s %s: %d obligations, %d discharged, %d finding(s) [%d known], %d traces, %.2fs" % (
        pid, tier, len(ctx.obligations), nd, len(ctx.findings),
        sum(1 for l in lines if l.startswith("KNOWN-FINDING")), len(ctx._traces), __import__("time").time() - ctx.t0))
    return code


if __name__ == "__main__":
    sys.exit(main(sys.argv[1:]))
