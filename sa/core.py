"""Check context: obligations, findings, known findings, evidence."""
import json
import os
import time
import hashlib

from .loader import Program, AnalysisError
from .evalr import Evaluator
from . import terms as T

VERIF = os.path.dirname(os.path.dirname(os.path.abspath(__file__)))
KNOWN_FILE = os.path.join(VERIF, "KNOWN_FINDINGS.txt")
OUT = os.environ.get("SA_OUT") or VERIF  # evidence directory root (SA_OUT only for triage runs)

TRUSTED = [
    "CPython 3.12 ast parser",
    "sa/terms.py (rational normal form), sa/evalr.py (abstract evaluator), sa/loader.py (MRO / property resolution)",
    "sa/libtable.py (library semantics table: numpy 2.5.3, pandas 3.0.5, scipy 1.18.1, scikit-learn 1.9.1)",
]


_OPAQUE_BUILTINS = frozenset(("map", "filter", "next", "iter", "reversed", "vars", "globals", "locals", "exec", "eval"))


class Finding:
    def __init__(self, pid, rule, site, construct, message, file=None, line=None):
        self.pid, self.rule, self.site, self.construct = pid, rule, site, construct
        self.message, self.file, self.line = message, file, line

    def key(self):
        return (self.pid, self.rule, self.site, self.construct)

    def as_dict(self):
        return {"property": self.pid, "rule": self.rule, "site": self.site, "construct": self.construct,
                "message": self.message, "file": self.file, "line": self.line}


def load_known():
    known = []
    if not os.path.exists(KNOWN_FILE):
        return known
    for ln in open(KNOWN_FILE, encoding="utf-8"):
        ln = ln.strip()
        if not ln.startswith("known:"):
            continue
        head, _, what = ln[len("known:"):].partition("::")
        d = {}
        for tok in head.split():
            if "=" in tok:
                k, v = tok.split("=", 1)
                d[k] = v
        d["what"] = what.strip()
        known.append(d)
    return known


def _slug(s):
    return "".join(ch if ch.isalnum() or ch in "._-<>=!+*/()[]'\",:" else "_" for ch in s)


class Ctx:
    def __init__(self, pid, tier="quick", prog=None):
        self.pid = pid
        self.tier = tier
        self.prog = prog or Program()
        self.obligations = []
        self.findings = []
        self.assumptions = []
        self.trusted = list(TRUSTED)
        self.explanation = ""
        self.rule_text = ""
        self.extra = {}
        self.t0 = time.time()
        self._traces = {}
        from . import evalr, terms
        del evalr.ALL_TRACES[:]
        # per-run caches (a pool worker analyses many variants of the tree one after the other)
        terms._KEY.clear()
        terms.budget_baseline()
        evalr._LOCALS.clear()
        evalr.Evaluator._closure_envs.clear()
        evalr.Evaluator._lambdas.clear()
        evalr.Evaluator._nt_fields.clear()
        self._sites = set()
        self.notes = []
        self.anchor_errors = []
        self.anchor_failed_sites = set()
        self._firm = set()
        self.undecided = []

    # -- traces ---------------------------------------------------------
    def trace(self, clsname, method, assume=None, nonnull=(), record_loads=True):
        key = (clsname, method, repr(sorted((assume or {}).items(), key=lambda kv: kv[0])), repr(sorted(nonnull, key=repr)))
        if key not in self._traces:
            ci = self.prog.cls(clsname)
            fi = self.prog.lookup(ci, method)
            if fi is None:
                raise AnalysisError("anchor vanished: %s.%s" % (clsname, method))
            self._traces[key] = Evaluator(self.prog, ci, assume=assume, nonnull=nonnull).run(fi)
        return self._traces[key]

    def trace_member(self, clsname, method):
        """trace(), for sweeps over every method of a class: a private helper whose body is only meaningful with the arguments
        its callers give it (reflection over a keyword table, a starred argument) cannot be analysed as an entry point; it is
        analysed inlined in every method of the class that calls it, so the sweep skips it as an entry (None) and says so."""
        import ast
        try:
            return self.trace(clsname, method)
        except AnalysisError as e:
            msg = str(e)
            if not (method.startswith("_") and not method.startswith("__")) or not (
                    "dynamic attribute access" in msg or "starred argument" in msg):
                raise
            ci = self.prog.cls(clsname)
            called = False
            for c in ci.mro:
                for m2, fi2 in c.methods.items():
                    if m2 == method:
                        continue
                    for n in ast.walk(fi2.node):
                        if isinstance(n, ast.Call) and isinstance(n.func, ast.Attribute) and n.func.attr == method and \
                                isinstance(n.func.value, ast.Name) and n.func.value.id == "self":
                            called = True
            if not called:
                raise
            note = "%s.%s not analysed as an entry point (%s); it is analysed in the context of its callers" % (clsname, method, msg[:80])
            if note not in self.notes:
                self.notes.append(note)
            return None

    def trace_static(self, fi, assume=None, nonnull=()):
        key = ("<static>", fi.qualname, repr(sorted((assume or {}).items())), tuple(sorted(nonnull)))
        if key not in self._traces:
            self._traces[key] = Evaluator(self.prog, fi.cls, assume=assume, nonnull=nonnull).run(fi)
        return self._traces[key]

    # -- obligations ----------------------------------------------------
    def ob(self, rule, site, construct, ok, message="", ev=None, nontrivial=True, firm=False):
        """Record one obligation; a failed one becomes a finding.  firm=True: the obligation is decided from the data flow alone
        (it does not depend on recognising an implementation idiom), so a failed anchor at the same site does not weaken it."""
        construct = _slug(str(construct))[:200]
        if firm and not ok:
            self._firm.add((rule, site, construct))
        file = line = None
        if ev is not None:
            file = ev.func.file if getattr(ev, "func", None) is not None else None
            line = getattr(ev, "line", None)
        o = {"rule": rule, "site": site, "construct": construct, "verdict": "discharged" if ok else "VIOLATED"}
        if message:
            o["detail"] = message[:400]
        if file:
            o["at"] = "%s:%s" % (file, line)
        self.obligations.append(o)
        if nontrivial:
            self._sites.add((rule, site, construct))
        if not ok:
            self.findings.append(Finding(self.pid, rule, site, construct, message, file, line))
        return ok

    def anchor(self, site, what, ok, message="", ev=None, **_kw):
        """An implementation anchor the rules need in order to locate a role (a helper call, a loop idiom ...).
        Its absence does not by itself break the property: it is reported as ANALYSIS-ERROR (no verdict for
        the obligations that depend on it), never as a violation.  Returns ok so that the caller can skip."""
        if ok:
            self.obligations.append({"rule": "ANCHOR", "site": site, "construct": _slug(str(what))[:200], "verdict": "discharged"})
        else:
            at = ""
            if ev is not None and getattr(ev, "func", None) is not None:
                at = " at %s:%s" % (ev.func.file, getattr(ev, "line", "?"))
            self.anchor_errors.append("%s: %s not recognised%s%s" % (site, what, at, (" (" + message[:120] + ")") if message else ""))
            self.anchor_failed_sites.add(site)
        return ok

    def settle(self):
        """Obligations about a site whose implementation idiom the analysis failed to recognise (a failed anchor at that
        site) were evaluated on a subject it could not locate: a failure among them is 'not decided' (exit 2), not a
        violation.  Findings listed as known are left alone."""
        known = load_known()
        # functions that use constructs the evaluator does not model (iterator / functional plumbing, generators, reflection,
        # calls through computed callables): what it computed for them is not what they do, so a failed obligation there is
        # "not decided".  None of these constructs occurs on the pinned tree.
        from . import evalr
        opaque = {}
        for tr in evalr.ALL_TRACES:
            for e in tr.events:
                if e.kind == "enter" and e.d.get("fi") is not None and evalr._generator_body(e.d["fi"].node) is not None:
                    # a generator function is evaluated as the list of the values it yields: the values and their order are
                    # right, the interleaving of its body with the consumer's is not
                    for f in e.stack:
                        opaque.setdefault(f.qualname, "a generator function (evaluated as the list of its values)")
                    continue
                if e.kind != "call":
                    continue
                cal = e.d.get("callee")
                why = None
                if cal and cal[0] == "lib" and isinstance(cal[1], str) and (cal[1].split(".")[0] in ("itertools", "functools", "operator") or
                                                                          cal[1] in _OPAQUE_BUILTINS):
                    why = cal[1]
                elif cal and cal[0] == "dynamic":
                    fa = cal[1].single_atom() if hasattr(cal[1], "single_atom") else None
                    k = fa[0] if fa is not None else "expr"
                    if k == "sub" and (fa[1].single_atom() or ("",))[0] in ("attr", "param", "loopvar", "mutated", "setitem"):
                        k = "attr"   # an entry of a table of user callables (column selectors)
                    if k == "call" and isinstance(fa[1], str) and fa[1].startswith("joblib."):
                        k = "attr"   # Parallel(...)(jobs): the library runs the jobs it is given (they are analysed where they are defined)
                    if k not in ("attr", "param", "getattr", "iter", "loopvar"):
                        why = "call through a computed callable"
                if why:
                    for f in e.stack:
                        opaque.setdefault(f.qualname, why)
        # a finding's site names the class analysed; the construct may sit in the method it inherits
        for f in self.findings:
            if f.site not in opaque and "." in f.site:
                cn, mn = f.site.split(".", 1)
                try:
                    ci_ = self.prog.cls(cn)
                    fi_ = self.prog.lookup(ci_, mn.split(".")[0]) if ci_ is not None else None
                    if fi_ is None and ci_ is not None:
                        pr_ = self.prog.find_property(ci_, mn.split(".")[0])
                        fi_ = pr_[0] if pr_ else None
                except Exception:
                    fi_ = None
                if fi_ is not None and fi_.qualname in opaque:
                    opaque[f.site] = opaque[fi_.qualname]
        def _is_known(f):
            return any(k.get("property") == f.pid and k.get("rule") == f.rule and k.get("site") == f.site and k.get("construct") == f.construct for k in known)
        for f in self.findings:
            if f.site in opaque and f.site not in self.anchor_failed_sites and (f.rule, f.site, f.construct) not in self._firm and not _is_known(f):
                self.anchor_failed_sites.add(f.site)
                self.anchor_errors.append("%s uses %s, which the evaluator does not model" % (f.site, opaque[f.site]))
        # a formula obligation whose computed value goes through a callable the evaluator could not resolve (shown as <dynamic>(...))
        # was not evaluated on the formula: the site counts as unrecognised
        for f in self.findings:
            if f.rule.startswith("FRM") and "<dynamic>(" in (f.message or "") and "distance_function" not in (f.message or "") and "margin_calculation_function" not in (f.message or ""):
                if f.site not in self.anchor_failed_sites and not _is_known(f):
                    self.anchor_failed_sites.add(f.site)
                    self.anchor_errors.append("%s: %s computed through an unresolved callable" % (f.site, f.construct[:80]))
        if not self.anchor_failed_sites:
            return
        keep = []
        for f in self.findings:
            is_known = any(k.get("property") == f.pid and k.get("rule") == f.rule and k.get("site") == f.site and k.get("construct") == f.construct for k in known)
            if f.site in self.anchor_failed_sites and not is_known and (f.rule, f.site, f.construct) not in self._firm:
                self.undecided.append(f)
                for o in self.obligations:
                    if o["rule"] == f.rule and o["site"] == f.site and o["construct"] == f.construct and o["verdict"] == "VIOLATED":
                        o["verdict"] = "not decided (idiom at this site not recognised)"
            else:
                keep.append(f)
        self.findings = keep
        if self.undecided:
            self.anchor_errors.append("%d obligation(s) at %s left undecided" % (len(self.undecided), ", ".join(sorted({f.site for f in self.undecided}))))

    def require(self, cond, what):
        if not cond:
            raise AnalysisError("anchor vanished or floor not met: " + what)

    def floor(self, what, n, minimum):
        if n < minimum:
            raise AnalysisError("instance floor not met: %s matched %d site(s), expected at least %d" % (what, n, minimum))

    # -- finish ---------------------------------------------------------
    def finish(self, error=None):
        known = load_known()
        new, kn = [], []
        for f in self.findings:
            hit = None
            for k in known:
                if k.get("property") == f.pid and k.get("rule") == f.rule and k.get("site") == f.site and k.get("construct") == f.construct:
                    hit = k
                    break
            (kn if hit else new).append((f, hit))
        os.makedirs(os.path.join(OUT, "evidence", "replay"), exist_ok=True)
        lines = []
        seen_k = set()
        for f, k in kn:
            if f.key() in seen_k:
                continue
            seen_k.add(f.key())
            lines.append("KNOWN-FINDING: property=%s rule=%s site=%s construct=%s :: %s" % (f.pid, f.rule, f.site, f.construct, k["what"] or f.message))
        replay_paths = []
        seen = set()
        n = 0
        for f, _ in new:
            if f.key() in seen:
                continue
            seen.add(f.key())
            n += 1
            rp = os.path.join(OUT, "evidence", "replay", "%s-%d.json" % (self.pid, n))
            with open(rp, "w") as fh:
                json.dump({**f.as_dict(), "replay_cmd": "/venv/bin/python -m sa.check %s" % self.pid,
                           "note": "static finding: re-running the check re-evaluates this obligation on the current tree"}, fh, indent=1)
            replay_paths.append(rp)
            lines.append("FINDING %s %s:%s %s [%s] %s" % (f.rule, f.file, f.line, f.site, f.construct, f.message))
            lines.append("VIOLATION property=%s replay=%s" % (self.pid, rp))
        self.write_evidence(len(seen), error, [f.as_dict() for f, _ in kn])
        # a violated obligation stands even if another part of the analysis could not be carried out
        return lines, (1 if seen else (2 if error else 0))

    def write_evidence(self, nviol, error=None, known=()):
        discharged = sum(1 for o in self.obligations if o["verdict"] == "discharged")
        samples = self.obligations[:8]
        bad = [o for o in self.obligations if o["verdict"] != "discharged"][:8]
        cov = {
            "explanation": self.explanation or ("static analysis of %s" % self.pid),
            "files": len(self.prog.modules),
            "classes": len(self.prog.classes),
            "functions": self.prog.n_functions(),
            "source_digest": hashlib.sha256("".join(sorted(self.prog.digests().values())).encode()).hexdigest(),
            "obligations": len(self.obligations),
            "discharged": discharged,
            "evaluations": len(self.obligations),
            "distinct_nontrivial": len(self._sites),
            "rule": self.rule_text or "one obligation per (rule, site, construct); non-trivial = the rule had a real instance at that site (not a vacuous match)",
            "samples": samples + bad,
            "trusted_base": self.trusted,
            "exhaustive": True,
            "traces_evaluated": len(self._traces),
            "known_findings": list(known),
        }
        cov.update(self.extra)
        if self.notes:
            cov["notes"] = list(self.notes)
        if error:
            cov["analysis_error"] = error
        ev = {
            "property_id": self.pid,
            "tier": self.tier,
            "seed": int(os.environ.get("VERIF_SEED", "0") or 0),
            "level": "other",
            "coverage": cov,
            "assumptions": self.assumptions,
            "wall_s": round(time.time() - self.t0, 3),
            "violations": nviol,
        }
        os.makedirs(os.path.join(OUT, "evidence"), exist_ok=True)
        with open(os.path.join(OUT, "evidence", "%s.json" % self.pid), "w") as fh:
            json.dump(ev, fh, indent=1, default=str)
