"""setup_cmd: nothing to build; verifies the interpreter and that the engine imports."""
import sys

def main():
    if sys.version_info[:2] < (3, 9):
        print("python >= 3.9 required"); return 1
    from . import terms, loader, evalr, core, q, check, selftest, mutants  # noqa
    p = loader.Program()
    print("sa engine ok: %d modules, %d classes, %d functions" % (len(p.modules), len(p.classes), p.n_functions()))
    return 0

if __name__ == "__main__":
    sys.exit(main())
