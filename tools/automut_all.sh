#!/bin/sh
# Measure every check against the first-order mutants of its anchored files: all of them for the per-detector
# properties, a random sample of $1 (default 400, fixed seed) for the cross-cutting ones whose anchors span the package.
# Results: /verif/automut/<ID>.txt (survivors and no-verdict mutants) and /verif/automut/SUMMARY.txt.  Not a registered check.
cd "$(dirname "$0")/.."
lim="${1:-400}"
: > automut/SUMMARY.txt
for p in C03 C04 C05 C06 C07 C08 C09 C10 C11 C12 C13 C19 C20; do
  SA_OUT=/tmp/saout_automut /venv/bin/python -m sa.automut $p --show > automut/$p.txt 2>&1
  grep "^$p " automut/$p.txt | head -1 >> automut/SUMMARY.txt
done
for p in C01 C02 C14 C15 C16 C17 C18; do
  SA_OUT=/tmp/saout_automut /venv/bin/python -m sa.automut $p --limit "$lim" --show > automut/$p.txt 2>&1
  echo "$(grep "^$p " automut/$p.txt | head -1) (sample of $lim)" >> automut/SUMMARY.txt
done
rm -rf /tmp/saout_automut
cat automut/SUMMARY.txt
