"""Run every check on every whole-repository benign rewrite; print anything that is not silent."""
import sys, time
sys.path.insert(0, '/verif')
from concurrent.futures import ProcessPoolExecutor
from sa import gbenign
from sa.loader import Program
from sa.check import run_check
from sa.core import load_known

def one(args):
    name, pid = args
    ov = gbenign.overlay(name)
    ctx, err = run_check(pid, 'quick', Program(overlay=ov))
    known = load_known()
    new = [f for f in ctx.findings if not any(k.get('property') == f.pid and k.get('rule') == f.rule and k.get('site') == f.site and k.get('construct') == f.construct for k in known)]
    status = 'ok' if not new and not err else ('VIOL' if new else 'ERR')
    return name, pid, status, ((new[0].rule, new[0].site, new[0].construct[:90]) if new else (err or '')[:260])

if __name__ == '__main__':
    names = sys.argv[1:] or list(gbenign.TRANSFORMS)
    work = [(n, 'C%02d' % i) for n in names for i in range(1, 21)]
    with ProcessPoolExecutor(16) as ex:
        for name, pid, status, info in ex.map(one, work):
            if status != 'ok':
                print(name, pid, status, info)
    print('done')
