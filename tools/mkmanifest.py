"""Regenerates MANIFEST.json from the claim table below."""
import json, os
HERE = os.path.dirname(os.path.dirname(os.path.abspath(__file__)))
BASE = "cd /repo && /venv/bin/python -m pytest -ra -q -p no:cacheprovider --timeout=900 --continue-on-collection-errors"
TECH = "repository-specific static analysis: syntax-directed abstract evaluation (value numbering with guards) + rule queries"

CLAIMS = {}
NA = {}

def claim(pid, text, note, ref, technique=TECH):
    CLAIMS[pid] = dict(text=text, note=note, ref=ref, technique=technique)

exec(open(os.path.join(HERE, "tools", "claims.py")).read())

checks = []
for pid in sorted(CLAIMS):
    c = CLAIMS[pid]
    checks.append({
        "property_id": pid,
        "quick_cmd": "/venv/bin/python -m sa.check %s" % pid,
        "thorough_cmd": "/venv/bin/python -m sa.check %s --thorough" % pid,
        "evidence_file": "evidence/%s.json" % pid,
        "replay_cmd_template": "/venv/bin/python -m sa.check --replay {path}",
        "engine": "sa",
        "level_claimed": {"category": "other", "text": c["text"], "design_ref": c["ref"]},
        "level_note": c["note"],
        "technique": c["technique"],
    })
props = [json.loads(l)["id"] for l in open(os.path.join(HERE, "properties.jsonl"))]
na = [{"property_id": p, "reason": NA.get(p, "check under construction in this session (DESIGN.md section 5); not yet claimed")} for p in props if p not in CLAIMS]
m = {
    "version": 1,
    "setup_cmd": "/venv/bin/python -m sa.selfcheck",
    "hooks": {
        "guard": "MENELAUS_VERIF",
        "enable": "none needed: the checks parse the sources under /repo/menelaus; nothing in the repository is instrumented or executed",
        "baseline_off_cmd": BASE,
        "source_commits": [],
        "add_only": True,
    },
    "engines": [{"name": "sa", "path": "sa/", "serves_properties": sorted(CLAIMS),
                 "kind_free_text": "stdlib-only static analyser for menelaus: loader (MRO, properties), abstract evaluator over a rational-function term domain, rule modules per property, in-memory mutation self-test"}],
    "checks": checks,
    "notes": "All checks are static (no code under /repo is imported or run). Exit 2 + ANALYSIS-ERROR means the analysis could not be carried out (vanished anchor, unknown construct); it is never a verdict. Known findings: KNOWN_FINDINGS.txt.",
    "not_applicable": na,
}
json.dump(m, open(os.path.join(HERE, "MANIFEST.json"), "w"), indent=1)
print("claimed", sorted(CLAIMS), "n/a", [x["property_id"] for x in na])
