"""Markdown table of the independently written behaviour-preserving refactorings (/verif/benign) for DESIGN.md section 15:
which checks alarmed / had no verdict when each arrived (checks_first) and what they say now (checks)."""
import glob, json, os

import sys
ROUND = sys.argv[1] if len(sys.argv) > 1 else ""      # "12" -> r1/r2 only, "34" -> r3/r4 only, "" -> all
rows = []
tot_first = {0: 0, 1: 0, 2: 0}
tot_now = {0: 0, 1: 0, 2: 0}
for d in sorted(glob.glob("/verif/benign/*")):
    suf = os.path.basename(d).split("-")[-1]
    if ROUND and not (suf[0] == "r" and suf[1:] in ROUND):
        continue
    mp = os.path.join(d, "meta.json")
    if not os.path.isfile(mp):
        continue
    m = json.load(open(mp))
    first = {k: (v["exit"] if isinstance(v, dict) else v) for k, v in m.get("checks_first", {}).items()}
    now = m.get("checks", {})
    for v in first.values():
        tot_first[v] = tot_first.get(v, 0) + 1
    for v in now.values():
        tot_now[v] = tot_now.get(v, 0) + 1
    fa = sorted(k for k, v in first.items() if v == 1)
    nv = sorted(k for k, v in first.items() if v == 2)
    fa2 = sorted(k for k, v in now.items() if v == 1)
    nv2 = sorted(k for k, v in now.items() if v == 2)
    tech = (m.get("technique") or "").replace("|", "/")
    if len(tech) > 150:
        tech = tech[:147] + "..."
    rows.append("| %s | %s | %s | %s | %s | %s |" % (os.path.basename(d), tech, " ".join(fa) or "-", " ".join(nv) or "-", " ".join(fa2) or "-", " ".join(nv2) or "-"))
print("| refactoring | techniques (agent's words) | alarmed at arrival | no verdict at arrival | alarm now | no verdict now |")
print("|---|---|---|---|---|---|")
print("\n".join(rows))
print()
print("Totals over %d (check x refactoring) pairs: at arrival %d silent / %d false alarms / %d no verdict; now %d / %d / %d." % (
    sum(tot_first.values()), tot_first[0], tot_first[1], tot_first[2], tot_now[0], tot_now[1], tot_now[2]))
