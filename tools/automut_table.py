"""Markdown table for DESIGN.md section 14 from /verif/automut/SUMMARY.txt and the first measurement (recorded here)."""
import re
BEFORE = {"C03": 62, "C04": 51, "C05": 57, "C06": 61, "C07": 39, "C08": 53, "C09": 27, "C10": 71, "C11": 35, "C12": 15, "C13": 71,
          "C16": 5, "C17": 6, "C18": 13, "C19": 70, "C20": 79, "C02": 26, "C14": 14, "C15": 9}
print("| property | mutants | killed (exit 1) | no verdict (exit 2) | survived | score | first measurement |")
print("|---|---|---|---|---|---|---|")
for l in open("/verif/automut/SUMMARY.txt"):
    m = re.match(r"(C\d\d) (\{.*\}) score (\d+)%(.*)", l.strip())
    if not m:
        continue
    pid, d, sc, rest = m.groups()
    d = eval(d)
    n = sum(d.values())
    print("| %s | %d%s | %d | %d | %d | %s%% | %s |" % (pid, n, " (sample)" if "sample" in rest else "", d.get("killed", 0), d.get("no-verdict", 0) + d.get("error", 0), d.get("survived", 0), sc,
                                                    ("%d%%" % BEFORE[pid]) if pid in BEFORE else "-"))
