#!/bin/sh
# Run every registered check (quick by default, "thorough" as $1) against /repo and summarise; evidence is rewritten.
cd "$(dirname "$0")/.."
tier="$1"
fail=0
for p in C01 C02 C03 C04 C05 C06 C07 C08 C09 C10 C11 C12 C13 C14 C15 C16 C17 C18 C19 C20; do
  ( if [ "$tier" = "thorough" ]; then /venv/bin/python -m sa.check $p --thorough; else /venv/bin/python -m sa.check $p; fi > /tmp/runall_$p.out 2>&1; echo "$p exit=$? $(tail -1 /tmp/runall_$p.out | cut -c1-160)" ) &
  if [ "$tier" = "thorough" ]; then wait; fi
done
wait
