"""In-memory replay of every stored seeded change (/verif/seeded/<ID>-<x>/patch.diff) under the check of its property
(loader overlay, 14 processes; /repo is not touched).  Prints the changes that are not reported (exit 1) any more.
Does not rewrite meta.json (tools/seed_detect.py does, on a scratch worktree)."""
import concurrent.futures as cf
import glob, json, os, sys

sys.path.insert(0, "/verif")


def one(name):
    os.environ["SA_OUT"] = "/tmp/sa_seed_fast_out"
    from sa.seedreg import overlay_of
    from sa.loader import Program
    from sa.check import run_check, guard_resources
    from sa.core import load_known
    guard_resources(4)
    pid = name.split("-")[0]
    ov = overlay_of("/verif/seeded/%s/patch.diff" % name)
    if ov is None:
        return name, 3, "patch does not apply"
    try:
        ctx, err = run_check(pid, "quick", Program(overlay=ov))
    except Exception as e:
        return name, 2, "exception %s" % e
    known = load_known()
    new = [f for f in ctx.findings if not any(k.get("property") == f.pid and k.get("rule") == f.rule and k.get("site") == f.site and k.get("construct") == f.construct for k in known)]
    if new:
        return name, 1, "%s %s [%s]" % (new[0].rule, new[0].site, new[0].construct[:100])
    if err:
        return name, 2, err[:200]
    return name, 0, ""


def main():
    names = sys.argv[1:] or sorted(os.path.basename(p) for p in glob.glob("/verif/seeded/*") if os.path.isdir(p))
    tot = {0: 0, 1: 0, 2: 0, 3: 0}
    with cf.ProcessPoolExecutor(14) as ex:
        for name, rc, msg in ex.map(one, names, chunksize=2):
            tot[rc] += 1
            want = json.load(open("/verif/seeded/%s/meta.json" % name)).get("detection", {}).get("exit")
            if rc != 1:
                print("%s now exit=%d (recorded %s) %s" % (name, rc, want, msg))
    print("reported %d, no verdict %d, SILENT %d, not applicable %d" % (tot[1], tot[2], tot[0], tot[3]))


main()
