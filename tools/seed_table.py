"""Print the markdown table of DESIGN.md section 12 from /verif/seeded/*/meta.json."""
import glob, json, os, re

rows = []
for d in sorted(glob.glob("/verif/seeded/*")):
    if not os.path.isdir(d):
        continue
    m = json.load(open(d + "/meta.json"))
    det = m.get("detection", {})
    rep = det.get("reports", [])
    rule = site = ""
    if rep and rep[0].startswith("FINDING"):
        parts = rep[0].split()
        rule = parts[1]
        site = parts[3] if len(parts) > 3 else ""
    elif rep:
        rule = "ANALYSIS-ERROR (no verdict)"
    first = m.get("detection_first", {}).get("exit")
    summ = re.sub(r"\s+", " ", m.get("summary", ""))[:140].replace("|", "/")
    rows.append("| %s | %s | %s | %s | %s |%s" % (os.path.basename(d), summ, det.get("exit", "?"), rule, site,
                                               (" first seen: exit %s |" % first) if first is not None and first != det.get("exit") else ""))
print("| seed | what it changes (agent's summary, truncated) | exit | rule | site |")
print("|------|-----------------|------|------|------|")
print("\n".join(rows))
