"""Run EVERY check on every stored behaviour-preserving refactoring (/verif/benign/<name>/patch.diff), in memory
(loader overlay through sa.seedreg's unified-diff applier; /repo is not touched), and record the exit status each
check would give: 0 silent, 1 FALSE ALARM, 2 no verdict.  Updates "checks" in each meta.json ("checks_first" keeps the
statuses of the day the refactoring arrived).
usage: benign_detect.py [name ...] [--only Cxx,Cyy]"""
import concurrent.futures as cf
import glob, json, os, sys

sys.path.insert(0, "/verif")
IDS = ["C%02d" % i for i in range(1, 21)]


def one(args):
    name, pid = args
    os.environ["SA_OUT"] = "/tmp/sa_benign_detect_out"
    from sa.seedreg import overlay_of
    from sa.loader import Program
    from sa.check import run_check, guard_resources
    from sa.core import load_known
    guard_resources(4)
    ov = overlay_of("/verif/benign/%s/patch.diff" % name)
    if ov is None:
        return name, pid, 3, ["patch does not apply"]
    try:
        ctx, err = run_check(pid, "quick", Program(overlay=ov))
    except Exception as e:
        return name, pid, 2, ["exception %s" % e]
    known = load_known()
    new = [f for f in ctx.findings if not any(k.get("property") == f.pid and k.get("rule") == f.rule and k.get("site") == f.site and k.get("construct") == f.construct for k in known)]
    if new:
        return name, pid, 1, ["%s %s [%s] %s" % (f.rule, f.site, f.construct[:120], (f.message or "")[:160]) for f in new[:3]]
    if err:
        return name, pid, 2, [err[:240]]
    return name, pid, 0, []


def main():
    argv = sys.argv[1:]
    only = None
    if "--only" in argv:
        only = argv[argv.index("--only") + 1].split(",")
        argv = [a for a in argv if a not in ("--only", ",".join(only))]
    names = argv or sorted(os.path.basename(p) for p in glob.glob("/verif/benign/*") if os.path.isdir(p))
    work = [(n, p) for n in names for p in (only or IDS)]
    res = {}
    with cf.ProcessPoolExecutor(14) as ex:
        for name, pid, rc, lines in ex.map(one, work, chunksize=2):
            res.setdefault(name, {})[pid] = (rc, lines)
    tot = {0: 0, 1: 0, 2: 0, 3: 0}
    for n in names:
        mp = "/verif/benign/%s/meta.json" % n
        meta = json.load(open(mp))
        checks = dict(meta.get("checks", {}))
        for pid, (rc, lines) in res[n].items():
            checks[pid] = rc
            tot[rc] += 1
        meta["checks"] = checks
        json.dump(meta, open(mp, "w"), indent=1)
        bad = {p: v for p, v in res[n].items() if v[0] != 0}
        if bad:
            print("%s: %s" % (n, "  ".join("%s=%d" % (p, v[0]) for p, v in sorted(bad.items()))))
            for p, v in sorted(bad.items()):
                for l in v[1][:2]:
                    print("      %s %s" % (p, l[:260]))
    print("silent %d, FALSE ALARMS %d, no verdict %d, not applicable %d" % (tot[0], tot[1], tot[2], tot[3]))


if __name__ == "__main__":
    main()
