"""Run checks against seeded changes: apply each /verif/seeded/<name>/patch.diff to /repo,
run the property's quick check (and optionally others), undo.  Records detection in meta.json.
usage: seed_detect.py [name ...]   (default: all)"""
import json, os, subprocess, sys, glob

def sh(cmd, cwd="/verif"):
    p = subprocess.run(cmd, cwd=cwd, shell=True, capture_output=True, text=True)
    return p.returncode, p.stdout + p.stderr

def main():
    names = sys.argv[1:] or sorted(os.path.basename(p) for p in glob.glob("/verif/seeded/*") if os.path.isdir(p))
    rc, o = sh("git status --short | grep -v '^??' | wc -l", "/repo")
    assert o.strip() == "0", "/repo has uncommitted changes"
    res = {}
    for n in names:
        d = "/verif/seeded/" + n
        meta = json.load(open(d + "/meta.json"))
        pid = meta["breaks_property"]
        rc, o = sh("git apply %s/patch.diff" % d, "/repo")
        if rc != 0:
            print(n, "patch does not apply:", o[-200:]); continue
        try:
            env = "SA_OUT=/tmp/sa_seed_out "
            rc, o = sh(env + "/venv/bin/python -m sa.check %s" % pid)
            lines = [l for l in o.splitlines() if l.startswith(("FINDING", "ANALYSIS-ERROR"))]
            meta["detection"] = {"check": "sa.check %s (quick) on /repo with the patch applied" % pid, "exit": rc,
                                 "reports": [l[:300] for l in lines[:6]]}
            res[n] = (rc, lines[:2])
        finally:
            sh("git checkout -- .", "/repo")
        json.dump(meta, open(d + "/meta.json", "w"), indent=1)
    for n, (rc, lines) in res.items():
        print("%-10s exit=%d %s" % (n, rc, (lines[0][:200] if lines else "-- NOT DETECTED --")))

main()
