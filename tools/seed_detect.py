"""Run checks against seeded changes.  For each /verif/seeded/<name>/patch.diff: apply it in a scratch git worktree of /repo
(created under /tmp, never in /repo's own working tree), run the property's quick check with SA_REPO pointing at the
worktree and SA_OUT pointing away from /verif/evidence, undo.  Records the outcome as "detection" in meta.json
("detection_first", where present, is what the checks said when the change was first seen and is left alone).
usage: seed_detect.py [name ...]   (default: all)"""
import json, os, subprocess, sys, glob

WT = "/tmp/wt_detect"

def sh(cmd, cwd="/verif"):
    p = subprocess.run(cmd, cwd=cwd, shell=True, capture_output=True, text=True)
    return p.returncode, p.stdout + p.stderr

def main():
    names = sys.argv[1:] or sorted(os.path.basename(p) for p in glob.glob("/verif/seeded/*") if os.path.isdir(p))
    sh("git -C /repo worktree remove --force %s" % WT)
    rc, o = sh("git -C /repo worktree add --detach %s HEAD" % WT)
    assert rc == 0, o
    res = {}
    try:
        for n in names:
            d = "/verif/seeded/" + n
            meta = json.load(open(d + "/meta.json"))
            pid = meta["breaks_property"]
            rc, o = sh("git apply %s/patch.diff" % d, WT)
            if rc != 0:
                print(n, "patch does not apply:", o[-200:]); continue
            try:
                env = "SA_REPO=%s SA_OUT=/tmp/sa_seed_out " % WT
                rc, o = sh(env + "/venv/bin/python -m sa.check %s" % pid)
                lines = [l for l in o.splitlines() if l.startswith(("FINDING", "ANALYSIS-ERROR"))]
                meta["detection"] = {"check": "sa.check %s (quick) on a scratch worktree of /repo with the patch applied (SA_REPO)" % pid, "exit": rc,
                                     "reports": [l[:300] for l in lines[:6]]}
                res[n] = (rc, lines[:2])
            finally:
                sh("git checkout -- .", WT)
            json.dump(meta, open(d + "/meta.json", "w"), indent=1)
    finally:
        sh("git -C /repo worktree remove --force %s" % WT)
        sh("rm -rf /tmp/sa_seed_out")
    for n, (rc, lines) in res.items():
        print("%-10s exit=%d %s" % (n, rc, (lines[0][:200] if lines else "-- NOT DETECTED --")))

main()
