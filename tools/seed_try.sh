#!/bin/sh
# usage: seed_try.sh <seed dir name, e.g. C01-e> [check id, default: the seed's property]
# Applies /verif/seeded/<name>/patch.diff in a fresh scratch worktree of /repo (never in /repo itself), runs the check with
# SA_REPO pointing at it (SA_OUT away from /verif/evidence), prints findings and the exit status, removes the worktree.
name="$1"; pid="${2:-$(echo $1 | cut -d- -f1)}"
wt="/tmp/wt_try_$$"
git -C /repo worktree add --detach "$wt" HEAD -q || exit 3
( cd "$wt" && git apply /verif/seeded/$name/patch.diff ) || { git -C /repo worktree remove --force "$wt"; exit 3; }
cd /verif
SA_REPO="$wt" SA_OUT=/tmp/sa_try_out_$$ /venv/bin/python -m sa.check $pid | grep "^FINDING\|^ANALYSIS-ERROR\|obligations" | cut -c1-${COLS:-330}
SA_REPO="$wt" SA_OUT=/tmp/sa_try_out_$$ /venv/bin/python -m sa.check $pid >/dev/null 2>&1; echo "exit=$?"
git -C /repo worktree remove --force "$wt"; rm -rf /tmp/sa_try_out_$$
