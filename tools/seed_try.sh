#!/bin/sh
# usage: seed_try.sh <seed dir name, e.g. C01-e> [check id, default: the seed's property] [worktree root]
# Applies /verif/seeded/<name>/patch.diff in a scratch worktree of /repo (never in /repo itself), runs the check with SA_REPO
# pointing at it, and reverts.  The worktree <root>/<ID> must exist (git -C /repo worktree add --detach <root>/<ID> HEAD).
name="$1"; pid="${2:-$(echo $1 | cut -d- -f1)}"; root="${3:-/tmp/wt3}"
wt="$root/$(echo $name | cut -d- -f1)"
cd "$wt" || exit 3
git apply /verif/seeded/$name/patch.diff || exit 3
cd /verif
SA_REPO="$wt" SA_OUT=/tmp/sa_seed_out /venv/bin/python -m sa.check $pid | grep "^FINDING\|^ANALYSIS-ERROR\|obligations" | cut -c1-${COLS:-330}
SA_REPO="$wt" SA_OUT=/tmp/sa_seed_out /venv/bin/python -m sa.check $pid >/dev/null 2>&1; echo "exit=$?"
cd "$wt" && git checkout -- menelaus
