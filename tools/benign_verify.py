"""Verify a behaviour-preserving refactoring delivered by a sub-agent and run EVERY check on it (false-alarm test).

usage: benign_verify.py <ID> <r1|r2|...> [worktree root, default /tmp/wt5]
  1. in the agent's scratch worktree <root>/<ID>: apply SEED/<x>/patch.diff, run the pinned test suite (must pass), run the
     agent's differential script `SEED/<x>/equiv.py check` (must exit 0: identical trace to the one recorded on the clean tree);
  2. run all twenty quick checks on the patched scratch tree (SA_REPO; evidence redirected with SA_OUT) and record every exit
     status: 0 = silent (as it must be), 2 = no verdict (an idiom the analysis does not recognise), 1 = FALSE ALARM;
  3. undo the patch; copy patch.diff, equiv.py, meta.json (+ results) to /verif/benign/<ID>-<x>/."""
import concurrent.futures as cf
import json, os, shutil, subprocess, sys

IDS = ["C%02d" % i for i in range(1, 21)]


def sh(cmd, cwd, timeout=1800):
    p = subprocess.run(cmd, cwd=cwd, shell=True, capture_output=True, text=True, timeout=timeout)
    return p.returncode, (p.stdout + p.stderr)[-3000:]


def one_check(args):
    wt, pid, tag = args
    out = "/tmp/sa_benign_out_%s_%s" % (tag, pid)
    rc, o = sh("SA_REPO=%s SA_OUT=%s /venv/bin/python -m sa.check %s 2>&1 | grep '^FINDING\\|^ANALYSIS-ERROR' | head -4" % (wt, out, pid), "/verif")
    rc2, _ = sh("SA_REPO=%s SA_OUT=%s /venv/bin/python -m sa.check %s >/dev/null 2>&1" % (wt, out, pid), "/verif")
    shutil.rmtree(out, ignore_errors=True)
    return pid, rc2, [l[:300] for l in o.splitlines()]


def main():
    pid, x = sys.argv[1], sys.argv[2]
    root = sys.argv[3] if len(sys.argv) > 3 else "/tmp/wt5"
    wt = "%s/%s" % (root, pid)
    sd = "%s/SEED/%s" % (wt, x)
    out = {"property": pid, "variant": x}
    rc, o = sh("git status --short | grep -v '^??' | wc -l", wt)
    assert o.strip().startswith("0"), "worktree not clean: " + o
    rc, o = sh("git apply --check SEED/%s/patch.diff" % x, wt)
    assert rc == 0, o
    sh("git apply SEED/%s/patch.diff" % x, wt)
    try:
        rc, o = sh("/venv/bin/python -m pytest -q -p no:cacheprovider --no-cov --timeout=900 2>&1 | tail -3", wt)
        out["tests_with_patch"] = o.strip().splitlines()[-1] if o.strip() else ""
        out["tests_pass_with_patch"] = " passed" in o and " failed" not in o and " error" not in o
        rc, o = sh("/venv/bin/python SEED/%s/equiv.py check" % x, wt, 1200)
        out["equiv_rc"] = rc
        out["equiv_tail"] = o[-300:]
        res = {}
        with cf.ThreadPoolExecutor(8) as ex:
            for p_, rc_, lines in ex.map(one_check, [(wt, p_, pid + x) for p_ in IDS]):
                res[p_] = {"exit": rc_, "reports": lines}
        out["checks"] = res
    finally:
        sh("git checkout -- .", wt)
    ok = out.get("tests_pass_with_patch") and out.get("equiv_rc") == 0
    out["confirmed_behaviour_preserving"] = bool(ok)
    if ok:
        dst = "/verif/benign/%s-%s" % (pid, x)
        os.makedirs(dst, exist_ok=True)
        shutil.copy(sd + "/patch.diff", dst + "/patch.diff")
        shutil.copy(sd + "/equiv.py", dst + "/equiv.py")
        try:
            meta = json.load(open(sd + "/meta.json"))
        except Exception as e:
            meta = {"note": "agent meta.json unreadable: %s" % e}
        meta["refactors_code_of_property"] = pid
        meta["verification"] = {"ran": ["git apply patch.diff", "pytest -> " + out["tests_with_patch"], "equiv.py check (trace recorded on the clean tree) -> exit %s" % out["equiv_rc"]]}
        meta["checks_first"] = {k: v for k, v in out["checks"].items()}
        meta["checks"] = {k: v["exit"] for k, v in out["checks"].items()}
        json.dump(meta, open(dst + "/meta.json", "w"), indent=1)
    alarms = {k: v for k, v in out.get("checks", {}).items() if v["exit"] == 1}
    nov = {k: v for k, v in out.get("checks", {}).items() if v["exit"] == 2}
    print(json.dumps({"id": pid + "-" + x, "confirmed": bool(ok), "tests": out.get("tests_with_patch"), "equiv": out.get("equiv_rc"),
                      "false_alarms": alarms, "no_verdict": nov}, indent=1))
    return 0 if ok else 1


sys.exit(main())
