"""Run only the in-memory mutation self-test (sa/selftest.py) of the given checks and print what it says.
usage: selftest_only.py Cxx [Cyy ...]"""
import os, sys
sys.path.insert(0, "/verif")
os.environ.setdefault("SA_OUT", "/tmp/sa_selftest_only_out")
from sa.check import run_check
from sa import selftest
from sa.loader import Program, AnalysisError

for pid in sys.argv[1:]:
    ctx, err = run_check(pid, "quick", Program(), quiet=True)
    try:
        selftest.run(ctx)
        print(pid, "self-test ok:", {k: v for k, v in ctx.extra.items() if "variant" in k or "selftest" in k})
    except AnalysisError as e:
        print(pid, "SELF-TEST FAILED:", str(e)[:3000])
